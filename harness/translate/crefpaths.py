"""Translator: reference-count events along every control-flow path of the
attribute get/set functions of traits/ctraits.c  (C18_paths_balanced).

What is read.  For every function in FUNCTIONS the body is tokenised and parsed
by a small recursive-descent reader of the C subset those functions use
(blocks, declarations with initialisers, `if/else`, `switch/case/default/break`,
`for`, `while`, `goto`/labels, `return`, expression statements; the usual C
expression grammar with casts, `?:`, `&&`/`||`, assignments inside
conditions).  Anything else raises (fail closed: the engine then emits a False
theorem).

How it is read.  An abstract interpreter runs the body on a SET of states
(merged after every statement when equal).  A state maps every variable and
every struct field that was read or written (`obj->obj_dict`) to an abstract
value: NULL, an integer constant, an untracked scalar, or a named object
pointer with a nullness (`nn` / `unk`).  A call listed in NEW produces a new
reference and forks at once into the NULL outcome (no reference) and the
non-NULL one (event `new`); a call listed in BORROWED produces a borrowed
pointer whose nullness is decided - by forking - at the first test.  A test
`x == NULL` / `x != NULL` / `!x` / `x` therefore prunes: on the NULL arm the
variable holds nothing (events recorded for a borrowed value that turns out to
be NULL are dropped: they were no-ops).  Integer tests are decided when the
operands are constants (`rc = -1; ... if (rc == 0)`, `flag = (x == NULL)`) and
are taken both ways otherwise.  A call in none of the tables raises.

Loops are unrolled: the body runs 0, 1 or 2 times (states that would enter a
third iteration are dropped).  `switch` enters at every label group (and skips
the body when there is no `default`).  Only forward `goto` is accepted.

Events (per named value, in path order):
  new    reference acquired from a NEW call / out-parameter          +1
  inc    Py_INCREF / Py_XINCREF (non-NULL)                           +1
  take   the old value of an object field that is overwritten: the
         struct's reference is now the function's to release         +1
  dec    Py_DECREF                                                   -1 (must hold one)
  xdec   Py_XDECREF / Py_CLEAR (non-NULL)                            -1 (must hold one)
  steal  argument of a reference-stealing function                   -1 (must hold one)
  ret    `return x` of a function returning an object                -1 (must hold one)
  store  written into an object field / PyTuple_SET_ITEM /
         PyList_SET_ITEM: the container owns it now                  -1 (may precede its `inc`)
  bad    Py_DECREF / Py_INCREF of a value known to be NULL            violation
         (recorded under the pseudo-value `NULL:<argument text>`)

Emits Generated/RefPaths.lean: name tables, the distinct (end kind, event
sequence) pairs per function, the object-field stores, and path counts.

TRUSTED: the API tables below (which calls return new / borrowed references,
which steal, which are reference-neutral), the rule that struct fields keep
their value across calls, and the unrolling bound.
"""
import os
import re

from .ctables import strip_comments, functions, Shape

TARGET = "RefPaths.lean"

REQUIRED = ["setattr_trait", "getattr_trait", "default_value_for", "call_notifiers", "trait_clone",
            "_trait_set_validate", "setattr_readonly", "setattr_event", "_warn_on_attribute_error"]
FUNCTIONS = REQUIRED + [
    "setattr_python", "getattr_delegate", "setattr_delegate", "trait_property_changed",
    "getattr_property0", "getattr_property1", "getattr_property2", "getattr_property3",
    "setattr_property0", "setattr_property1", "setattr_property2", "setattr_property3",
    "setattr_validate_property", "setattr_validate0", "setattr_validate1", "setattr_validate2",
    "setattr_validate3", "call_class", "getattr_constant", "getattr_event", "getattr_disallow",
    "setattr_constant", "delegate_attr_name_name", "delegate_attr_name_prefix",
    "delegate_attr_name_prefix_name", "delegate_attr_name_class_name", "_trait_clone",
]
MAX_STATES = 4000      # per statement, per function: beyond this the function is refused
MAX_PATHS = 400        # distinct (end, events) pairs per function

# ---- API tables (TRUSTED) ---------------------------------------------------------------
NEW = {
    "PyObject_Call", "PyObject_CallObject", "PyObject_CallMethod", "PyObject_CallFunction",
    "PyObject_CallFunctionObjArgs", "PyObject_CallMethodObjArgs", "PyEval_CallObject",
    "PyTuple_New", "PyTuple_Pack", "PyList_New", "PyDict_New", "PyDict_Copy", "PySequence_List",
    "PySequence_Tuple", "PyObject_GetAttr", "PyObject_GetAttrString", "PyObject_GenericGetAttr",
    "PyLong_FromLong", "PyLong_FromSsize_t", "Py_BuildValue", "PyUnicode_Concat", "PyUnicode_FromString",
    "PyUnicode_FromFormat", "PyObject_Repr", "PyObject_Str", "PyType_GenericNew", "PyNumber_Index", "PyNumber_Long",
    "PyNumber_Float", "PyFloat_FromDouble", "PyLong_FromUnsignedLong", "PyComplex_FromCComplex",
    "PyComplex_FromDoubles", "PyObject_CallNoArgs", "PyObject_CallOneArg", "PyType_GenericAlloc",
    # functions of ctraits.c that return a new reference or NULL
    "default_value_for", "call_class", "has_traits_getattro", "get_trait",
}
NEW_FIELDS = {"validate", "getattr", "delegate_attr_name", "tp_getattro", "tp_new"}   # calls through these pointers
BORROWED = {"PyErr_Occurred", "PyDict_GetItem", "PyDict_GetItemWithError", "PyTuple_GET_ITEM", "PyTuple_GetItem",
            "PyList_GET_ITEM", "PyList_GetItem", "dict_getitem", "get_prefix_trait", "Py_TYPE"}
ALLOCATORS = {"PyType_GenericAlloc", "PyType_GenericNew"}    # zero-filled new object: its object fields are NULL
ALLOC_FIELDS = {"tp_new", "tp_alloc"}
FORCED_UNREAD = {"dict_getitem": "returns a borrowed reference by design (listed in BORROWED)",
                 "get_prefix_trait": "returns a borrowed reference by design (listed in BORROWED)"}
ALWAYS_NULL = {"PyErr_Format", "PyErr_NoMemory"}      # set an exception, return NULL
NEUTRAL = {
    "PyDict_SetItem", "PyDict_DelItem", "PyUnicode_Check", "PyErr_ExceptionMatches", "PyErr_SetObject",
    "PyErr_SetString", "PyErr_Clear", "PyErr_WarnEx", "PyHasTraits_Check", "PyList_GET_SIZE",
    "PyTuple_GET_SIZE", "has_notifiers", "call_notifiers", "setattr_python", "PyCallable_Check",
    "PyTuple_CheckExact", "PyType_Check", "PyFloat_Check", "PyLong_Check", "PyDict_Check", "PyBool_Check",
    "PyLong_AsLong", "Py_EnterRecursiveCall", "Py_LeaveRecursiveCall", "PyException_SetTraceback",
    "_warn_on_attribute_error", "trait_clone", "PyObject_GenericSetAttr",
    "has_traits_setattro", "trait_property_changed",
    # int / Py_ssize_t / double returning, no reference taken or given (CPython documentation)
    "PyObject_IsTrue", "PyMapping_Size", "PyDict_Size", "PyTuple_Check", "PyObject_TypeCheck", "PyObject_IsInstance",
    "PyLong_CheckExact", "PyFloat_CheckExact", "PySequence_Contains", "PyUnicode_READY", "PyList_Check",
    "PyFloat_AS_DOUBLE", "PyFloat_AsDouble", "PyLong_Check", "PyFloat_Check", "PyUnicode_GET_LENGTH",
    "PyObject_IsSubclass", "PyObject_RichCompareBool", "PyTuple_Size", "PyList_Size", "PyList_GET_SIZE",
    "PyObject_SetAttr", "PyObject_SetAttrString", "PyDict_Contains", "PyList_Append", "PyErr_BadInternalCall",
    "PyTrait_CheckExact", "PyUnicode_KIND", "PyUnicode_READ", "PyUnicode_DATA", "PyComplex_CheckExact",
    "PyComplex_AsCComplex", "PyComplex_Check", "PyLong_AsUnsignedLong", "PyLong_AsSsize_t",
}
NEUTRAL_FIELDS = {"post_setattr", "setattr"}
NEUTRAL_RE = re.compile(r"^\w+_error2?$")          # the int-returning error helpers of ctraits.c
STEAL = {"PyErr_Restore": None, "PyException_SetCause": [1]}        # None: every argument
STORE_MACROS = {"PyTuple_SET_ITEM": [2], "PyList_SET_ITEM": [2]}
OUT_BORROWED = {"PyArg_ParseTuple"}                 # `&x` arguments receive borrowed references
INOUT_KEEP = {"PyErr_NormalizeException"}          # `&x` arguments: each variable keeps the one reference it held
OUT_NEW = {"PyErr_Fetch"}                           # `&x` arguments receive new references (2nd, 3rd may be NULL)

# ---- stale-borrow analysis (crefborrows.py; `bmode`) --------------------------------------
# Calls that can run arbitrary Python code (TRUSTED).  Deliberately OUT: Py_DECREF / Py_XDECREF / Py_CLEAR (a dealloc
# can run __del__), and the dictionary operations PyDict_GetItem / SetItem / DelItem / Contains (the keys here are
# attribute names: exact `str` hashing runs no Python code; a str SUBCLASS with its own __hash__ / __eq__ does).
ACALL = {
    "PyObject_Call", "PyObject_CallObject", "PyObject_CallMethod", "PyObject_CallFunction",
    "PyObject_CallFunctionObjArgs", "PyObject_CallMethodObjArgs", "PyEval_CallObject", "PyObject_CallNoArgs",
    "PyObject_CallOneArg", "PyObject_GetAttr", "PyObject_GetAttrString", "PyObject_GenericGetAttr",
    "PyObject_SetAttr", "PyObject_SetAttrString", "PyObject_GenericSetAttr", "PyObject_RichCompare",
    "PyObject_RichCompareBool", "PyObject_IsInstance", "PyObject_IsSubclass", "PyObject_IsTrue",
    "PySequence_Contains", "PySequence_List", "PySequence_Tuple", "PyNumber_Index", "PyNumber_Long", "PyNumber_Float",
    "PyObject_Repr", "PyObject_Str", "PyErr_WarnEx", "PyErr_Format", "PyMapping_Size", "PyFloat_AsDouble",
    "PyLong_AsLong", "PyDict_Copy",
}
ACALL_FIELDS = {"validate", "getattr", "setattr", "post_setattr", "delegate_attr_name", "tp_getattro", "tp_setattro",
                "tp_call", "tp_new"}
TUPLE_ITEM = {"PyTuple_GET_ITEM", "PyTuple_GetItem"}          # item lives as long as the (immutable) tuple
MUTABLE_ITEM = {"PyList_GET_ITEM", "PyList_GetItem", "PyDict_GetItem", "PyDict_GetItemWithError", "dict_getitem"}
# callee -> field values the caller keeps alive for the whole call; checked against every call site by crefborrows
CALLER_PROTECTS = {"validate_trait_complex_body": ["trait->py_validate"]}

OBJ_TYPES = {"PyObject", "PyListObject", "PyDictObject", "PyTypeObject", "PyTupleObject", "trait_object",
             "has_traits_object", "a_trait_object"}
SCALAR_TYPES = {"int", "unsigned", "long", "short", "char", "void", "Py_ssize_t", "size_t", "double", "float",
                "trait_getattr", "trait_setattr", "trait_post_setattr", "trait_validate",
                "delegate_attr_name_func", "Py_hash_t", "Py_complex", "Py_UCS4"}
QUALS = {"const", "static", "register", "volatile", "struct"}
TYPES = OBJ_TYPES | SCALAR_TYPES | QUALS

EVS = ["new", "inc", "take", "dec", "xdec", "steal", "ret", "store", "bad"]

# ---- tokenizer ---------------------------------------------------------------------------
TOK = re.compile(r"""
    (?P<ws>\s+)
  | (?P<id>[A-Za-z_]\w*)
  | (?P<num>0[xX][0-9a-fA-F]+[uUlL]*|\d+\.\d*(?:[eE][-+]?\d+)?|\d+[uUlL]*)
  | (?P<str>"(?:\\.|[^"\\])*")
  | (?P<chr>'(?:\\.|[^'\\])*')
  | (?P<op><<=|>>=|->|\+\+|--|<<|>>|<=|>=|==|!=|&&|\|\||\+=|-=|\*=|/=|%=|&=|\|=|\^=|[-+*/%&|^~!<>=?:;,.(){}\[\]])
""", re.X)


def tokenize(text):
    out, i = [], 0
    while i < len(text):
        m = TOK.match(text, i)
        if not m:
            raise Shape("cannot tokenise at %r" % text[i:i + 30])
        i = m.end()
        k = m.lastgroup
        if k == "ws":
            continue
        if text[m.start()] == "#":
            raise Shape("preprocessor line inside a function body")
        out.append((k, m.group()))
    return out


# ---- parser ------------------------------------------------------------------------------
class Parser:
    def __init__(self, toks, fname):
        self.t, self.i, self.fn = toks, 0, fname

    def peek(self, k=0):
        return self.t[self.i + k] if self.i + k < len(self.t) else ("eof", "")

    def nxt(self):
        tok = self.peek()
        self.i += 1
        return tok

    def accept(self, v):
        if self.peek()[1] == v and self.peek()[0] in ("op", "id"):
            self.i += 1
            return True
        return False

    def expect(self, v):
        if not self.accept(v):
            raise Shape("%s: expected %r, found %r" % (self.fn, v, self.peek()[1]))

    # statements
    def block_items(self, top=False):
        items = []
        while self.peek()[1] != "}" or self.peek()[0] != "op":
            if self.peek()[0] == "eof":
                if top:
                    return items
                raise Shape("%s: unterminated block" % self.fn)
            items.append(self.statement())
        return items

    def statement(self):
        k, v = self.peek()
        if k == "op" and v == "{":
            self.nxt()
            items = self.block_items()
            self.expect("}")
            return ("block", items)
        if k == "op" and v == ";":
            self.nxt()
            return ("block", [])
        if k == "id":
            if v == "if":
                self.nxt()
                self.expect("(")
                c = self.expr()
                self.expect(")")
                a = self.statement()
                b = ("block", [])
                if self.accept("else"):
                    b = self.statement()
                return ("if", c, a, b)
            if v == "switch":
                self.nxt()
                self.expect("(")
                c = self.expr()
                self.expect(")")
                self.expect("{")
                items = self.block_items()
                self.expect("}")
                return ("switch", c, items)
            if v in ("case", "default"):
                self.nxt()
                if v == "case":
                    self.expr_noternary()
                self.expect(":")
                return ("case", v == "default")
            if v == "for":
                self.nxt()
                self.expect("(")
                if self.peek()[0] == "id" and self.peek()[1] in TYPES:
                    init = self.declaration()           # consumes the ';'
                else:
                    init = None if self.peek()[1] == ";" else ("expr", self.expr())
                    self.expect(";")
                cond = None if self.peek()[1] == ";" else self.expr()
                self.expect(";")
                step = None if self.peek()[1] == ")" else self.expr()
                self.expect(")")
                return ("for", init, cond, step, self.statement())
            if v == "while":
                self.nxt()
                self.expect("(")
                c = self.expr()
                self.expect(")")
                return ("for", None, c, None, self.statement())
            if v == "goto":
                self.nxt()
                lab = self.nxt()
                self.expect(";")
                return ("goto", lab[1])
            if v == "return":
                self.nxt()
                e = None if self.peek()[1] == ";" else self.expr()
                self.expect(";")
                return ("return", e)
            if v == "break":
                self.nxt()
                self.expect(";")
                return ("break",)
            if v == "continue":
                self.nxt()
                self.expect(";")
                return ("continue",)
            if v in ("Py_RETURN_TRUE", "Py_RETURN_FALSE", "Py_RETURN_NONE") and self.peek(1) == ("op", ";"):
                self.nxt()
                self.nxt()
                obj = ("id", {"Py_RETURN_TRUE": "Py_True", "Py_RETURN_FALSE": "Py_False", "Py_RETURN_NONE": "Py_None"}[v])
                return ("block", [("expr", ("call", ("id", "Py_INCREF"), [obj])), ("return", obj)])
            if v in ("do", "typedef", "union", "enum", "asm", "__asm__"):
                raise Shape("%s: statement form %r is not understood" % (self.fn, v))
            if self.peek(1) == ("op", ":") and v not in TYPES:
                self.nxt()
                self.nxt()
                return ("label", v)
            if v in TYPES:
                return self.declaration()
            if self.peek(1)[0] == "id":
                raise Shape("%s: unknown type name %r in a declaration" % (self.fn, v))
        e = self.expr()
        self.expect(";")
        return ("expr", e)

    def declaration(self):
        is_obj = False
        while self.peek()[0] == "id" and self.peek()[1] in TYPES:
            if self.peek()[1] in OBJ_TYPES:
                is_obj = True
            self.nxt()
        decls = []
        while True:
            stars = 0
            while self.accept("*"):
                stars += 1
            k, name = self.nxt()
            if k != "id":
                raise Shape("%s: declarator expected, found %r" % (self.fn, name))
            if self.peek()[1] in ("[", "("):
                raise Shape("%s: array / function declarator %r is not understood" % (self.fn, name))
            init = None
            if self.accept("="):
                init = self.assign()
            decls.append((name, bool(stars) and is_obj, init))
            if self.accept(","):
                continue
            self.expect(";")
            return ("decl", decls)

    # expressions
    def expr(self):
        e = self.assign()
        while self.accept(","):
            e = ("comma", e, self.assign())
        return e

    def expr_noternary(self):
        return self.binary(0)

    def assign(self):
        lhs = self.ternary()
        k, v = self.peek()
        if k == "op" and v in ("=", "+=", "-=", "*=", "/=", "%=", "&=", "|=", "^=", "<<=", ">>="):
            self.nxt()
            return ("asg", v, lhs, self.assign())
        return lhs

    def ternary(self):
        c = self.binary(0)
        if self.accept("?"):
            a = self.expr()
            self.expect(":")
            b = self.ternary()
            return ("tern", c, a, b)
        return c

    LEVELS = [["||"], ["&&"], ["|"], ["^"], ["&"], ["==", "!="], ["<", ">", "<=", ">="], ["<<", ">>"],
              ["+", "-"], ["*", "/", "%"]]

    def binary(self, lvl):
        if lvl == len(self.LEVELS):
            return self.unary()
        a = self.binary(lvl + 1)
        while self.peek()[0] == "op" and self.peek()[1] in self.LEVELS[lvl]:
            op = self.nxt()[1]
            a = ("bin", op, a, self.binary(lvl + 1))
        return a

    def is_cast(self):
        if self.peek()[1] != "(" or self.peek()[0] != "op":
            return False
        return self.peek(1)[0] == "id" and self.peek(1)[1] in TYPES

    def unary(self):
        k, v = self.peek()
        if k == "op" and v in ("!", "~", "-", "+", "*", "&", "++", "--"):
            self.nxt()
            return ("un", v, self.unary())
        if k == "id" and v == "sizeof":
            raise Shape("%s: sizeof is not understood" % self.fn)
        if self.is_cast():
            self.nxt()
            while self.peek()[0] == "id" and self.peek()[1] in TYPES:
                self.nxt()
            while self.accept("*"):
                pass
            self.expect(")")
            return self.unary()
        return self.postfix()

    def postfix(self):
        e = self.primary()
        while True:
            k, v = self.peek()
            if k != "op":
                return e
            if v == "(":
                self.nxt()
                args = []
                if not self.accept(")"):
                    while True:
                        args.append(self.assign())
                        if self.accept(","):
                            continue
                        self.expect(")")
                        break
                e = ("call", e, args)
            elif v == "[":
                self.nxt()
                ix = self.expr()
                self.expect("]")
                e = ("idx", e, ix)
            elif v in ("->", "."):
                self.nxt()
                k2, f = self.nxt()
                if k2 != "id":
                    raise Shape("%s: member name expected" % self.fn)
                e = ("mem", e, f, v)
            elif v in ("++", "--"):
                self.nxt()
                e = ("un", v, e)
            else:
                return e

    def primary(self):
        k, v = self.nxt()
        if k == "id":
            return ("id", v)
        if k == "num":
            return ("num", v)
        if k in ("str", "chr"):
            while self.peek()[0] == "str":
                self.nxt()
            return ("str",)
        if k == "op" and v == "(":
            e = self.expr()
            self.expect(")")
            return e
        raise Shape("%s: unexpected token %r" % (self.fn, v))


def text_of(e):
    k = e[0]
    if k == "id" or k == "num":
        return e[1]
    if k == "str":
        return '"..."'
    if k == "mem":
        return text_of(e[1]) + e[3] + e[2]
    if k == "idx":
        return text_of(e[1]) + "[" + text_of(e[2]) + "]"
    if k == "call":
        return text_of(e[1]) + "(...)"
    if k == "un":
        return e[1] + text_of(e[2])
    if k == "bin":
        return "(" + text_of(e[2]) + " " + e[1] + " " + text_of(e[3]) + ")"
    if k == "asg":
        return "(" + text_of(e[2]) + " " + e[1] + " " + text_of(e[3]) + ")"
    if k == "tern":
        return "(" + text_of(e[1]) + " ? " + text_of(e[2]) + " : " + text_of(e[3]) + ")"
    if k == "comma":
        return text_of(e[1]) + ", " + text_of(e[2])
    raise Shape("text_of %r" % (k,))


def has_call(e):
    if not isinstance(e, tuple):
        return False
    if e[0] == "call":
        return True
    return any(has_call(x) for x in e[1:] if isinstance(x, tuple))


# ---- abstract states ----------------------------------------------------------------------
NULLV = ("null",)
OPQ = ("opq",)


class TooLarge(Shape):
    """The function is understood but too large to enumerate: it is left out and listed in `refused`."""


class St:
    __slots__ = ("env", "nul", "cnt", "ev", "org")

    def __init__(self):
        self.env, self.nul, self.cnt, self.ev, self.org = {}, {}, {}, (), {}

    def copy(self):
        s = St()
        s.env, s.nul, s.cnt, s.ev, s.org = dict(self.env), dict(self.nul), dict(self.cnt), self.ev, dict(self.org)
        return s

    def key(self):
        return (tuple(sorted(self.env.items())), tuple(sorted(self.nul.items())),
                tuple(sorted(self.cnt.items())), self.ev, tuple(sorted(self.org.items())))


def merge(states):
    seen, out = set(), []
    for s in states:
        k = s.key()
        if k not in seen:
            seen.add(k)
            out.append(s)
    return out


class Out:
    def __init__(self):
        self.normal, self.ret, self.brk, self.cont, self.gotos = [], [], [], [], {}

    def absorb(self, o):
        self.ret += o.ret
        self.brk += o.brk
        self.cont += o.cont
        for lab, ss in o.gotos.items():
            self.gotos.setdefault(lab, []).extend(ss)


class Interp:
    def __init__(self, fname, ret_obj, params, obj_fields, body, local_kinds=None):
        self.fn, self.ret_obj, self.obj_fields = fname, ret_obj, obj_fields
        self.local_kinds = local_kinds or {}
        self.local_calls = set()
        self.bmode = False            # stale-borrow mode: st.ev carries fborrow / protect / unprotect / acall / use
        self.acall_locals = set()
        self.track_params = False     # (bmode, summary runs) parameters count as field-borrowed
        self.stale_params = {}        # (bmode) callee -> indices of parameters it uses after arbitrary code
        self.locals = set()
        self.stores = set()
        self.body = body
        self.params = params

    # -- values
    def fresh(self, st, base, nullness):
        n = st.cnt.get(base, 0) + 1
        st.cnt[base] = n
        name = base if n == 1 else "%s~%d" % (base, n)
        st.nul[name] = nullness
        st.org[name] = base          # where the value comes from: `f()`, a parameter, a global, a field
        return ("ptr", name)

    def emit(self, st, name, ev):
        if self.bmode:
            if ev == "inc" and self.tracked(st, name):
                st.ev = st.ev + ((name, "protect"),)
            elif ev in ("fborrow", "use", "acall", "unprotect", "protect") or ev.startswith("fborrow<"):
                st.ev = st.ev + ((name, ev),)
            return
        st.ev = st.ev + ((name, ev),)

    def tracked(self, st, name):
        return any(a == name and b.startswith("fborrow") for (a, b) in st.ev)

    def buse(self, st, v):
        """(bmode) value v is used here."""
        if self.bmode and v[0] == "ptr" and self.tracked(st, v[1]):
            self.emit(st, v[1], "use")

    def bacall(self, st):
        """(bmode) a call that can run arbitrary code: cached field contents are forgotten (a later read is a new load)."""
        self.emit(st, "*", "acall")
        for k in [k for k in st.env if "->" in k or "." in k]:
            del st.env[k]

    def refine_null(self, st, name):
        st = st.copy()
        for k, v in list(st.env.items()):
            if v == ("ptr", name):
                st.env[k] = NULLV
        st.nul.pop(name, None)
        st.org.pop(name, None)
        st.ev = tuple(e for e in st.ev if e[0] != name)
        return st

    def refine_nn(self, st, name):
        st = st.copy()
        st.nul[name] = "nn"
        return st

    def truth(self, st, v):
        if v == NULLV:
            return [(st, False)]
        if v[0] == "int":
            return [(st, v[1] != 0)]
        if v[0] == "ptr":
            if st.nul.get(v[1]) in ("nn", "fresh"):
                return [(st, True)]
            return [(self.refine_nn(st, v[1]), True), (self.refine_null(st, v[1]), False)]
        return [(st, True), (st, False)]

    def new_value(self, st, base, may_null=True, alloc=False):
        """Fork: the call returned NULL / returned a new reference."""
        out = []
        if may_null:
            out.append((st, NULLV))
        s2 = st.copy()
        v = self.fresh(s2, base, "fresh" if alloc else "nn")
        self.emit(s2, v[1], "new")
        out.append((s2, v))
        return out

    def base_is_null(self, st, e):
        return e[1][0] == "id" and st.env.get(e[1][1]) == NULLV

    def base_is_fresh(self, st, e):
        b = e[1]
        if b[0] != "id":
            return False
        v = st.env.get(b[1])
        return v is not None and v[0] == "ptr" and st.nul.get(v[1]) == "fresh"

    # -- lvalues
    def lkey(self, e):
        if e[0] == "id":
            return e[1]
        if e[0] == "mem" and not has_call(e[1]):
            return self.lkey(e[1]) + e[3] + e[2]
        raise Shape("%s: lvalue %s is not understood" % (self.fn, text_of(e)))

    def assign(self, st, lhs, val):
        """Returns (state, value): a value fresh from a call takes the name of the variable it is bound to."""
        st = st.copy()
        key = self.lkey(lhs)
        if lhs[0] == "id":
            if key not in self.locals and key not in self.params:
                raise Shape("%s: assignment to the global %s" % (self.fn, key))
            for k in [k for k in st.env if k.startswith(key + "->") or k.startswith(key + ".")]:
                del st.env[k]
            if val[0] == "ptr" and "()" in val[1]:
                val = ("ptr", self.rename(st, val[1], key))
            st.env[key] = val
            return st, val
        field = lhs[2]
        if self.obj_fields.get(field) is True:
            old = st.env.get(key)
            if old is None and self.base_is_null(st, lhs):
                self.emit(st, "NULL:" + lhs[1][1], "bad")
                old = NULLV
            elif old is None:
                old = NULLV if self.base_is_fresh(st, lhs) else self.fresh(st, key, "unk")
            if old[0] == "ptr":
                self.emit(st, old[1], "take")
            elif old != NULLV:
                raise Shape("%s: object field %s held an untracked value" % (self.fn, key))
            if val[0] == "ptr":
                self.emit(st, val[1], "store")
                self.stores.add((key, st.org[val[1]]))
            elif val != NULLV:
                raise Shape("%s: untracked value stored into the object field %s" % (self.fn, key))
        st.env[key] = val
        return st, val

    # -- expressions: returns [(state, value)]
    def ev(self, e, st):
        k = e[0]
        if k == "id":
            name = e[1]
            if name == "NULL":
                return [(st, NULLV)]
            if name in st.env:
                return [(st, st.env[name])]
            if name in self.locals:
                return [(st, OPQ)]
            if re.match(r"^[A-Z][A-Z0-9_]*$", name):
                return [(st, OPQ)]
            st = st.copy()
            v = self.fresh(st, name, "nn")       # a global object (Py_None, Undefined, TraitError, ...)
            st.env[name] = v
            return [(st, v)]
        if k == "num":
            try:
                return [(st, ("int", int(e[1].rstrip("uUlL"), 0)))]
            except ValueError:
                return [(st, OPQ)]
        if k == "str":
            return [(st, OPQ)]
        if k == "comma":
            return [r for (s, _) in self.ev(e[1], st) for r in self.ev(e[2], s)]
        if k == "mem":
            if has_call(e[1]):
                return [(s, OPQ) for (s, _) in self.ev(e[1], st)]
            key = self.lkey(e)
            if key in st.env:
                return [(st, st.env[key])]
            st = st.copy()
            if self.base_is_null(st, e):
                self.emit(st, "NULL:" + e[1][1], "bad")      # field access through a pointer known to be NULL
                return [(st, NULLV if self.obj_fields.get(e[2]) is True else OPQ)]
            if self.base_is_fresh(st, e) and self.obj_fields.get(e[2]) is True:
                st.env[key] = NULLV
                return [(st, NULLV)]
            if self.bmode:
                self.buse(st, st.env.get(e[1][1], OPQ) if e[1][0] == "id" else OPQ)
            v = self.fresh(st, key, "unk")
            st.env[key] = v
            if self.bmode and self.obj_fields.get(e[2]) is True:
                self.emit(st, v[1], "fborrow")
                if key in CALLER_PROTECTS.get(self.fn, ()):
                    self.emit(st, v[1], "protect")
            return [(st, v)]
        if k == "idx":
            return [(s2, OPQ) for (s, _) in self.ev(e[1], st) for (s2, _) in self.ev(e[2], s)]
        if k == "un":
            op = e[1]
            if op == "!":
                return [(s2, ("int", 0 if b else 1)) for (s, v) in self.ev(e[2], st) for (s2, b) in self.truth(s, v)]
            if op == "-":
                return [(s, ("int", -v[1]) if v[0] == "int" else OPQ) for (s, v) in self.ev(e[2], st)]
            if op in ("~", "+"):
                return [(s, OPQ) for (s, v) in self.ev(e[2], st)]
            if op in ("++", "--"):
                out = []
                for (s, _) in self.ev(e[2], st):
                    if e[2][0] != "id":
                        raise Shape("%s: %s on %s" % (self.fn, op, text_of(e[2])))
                    out.append((self.assign(s, e[2], OPQ)[0], OPQ))
                return out
            raise Shape("%s: unary %s outside a known call is not understood" % (self.fn, op))
        if k == "bin":
            op = e[1]
            if op in ("&&", "||"):
                out = []
                for (s, va) in self.ev(e[2], st):
                    for (s2, b) in self.truth(s, va):
                        if (op == "&&") != b:
                            out.append((s2, ("int", 1 if b else 0)))
                        else:
                            for (s3, vb) in self.ev(e[3], s2):
                                for (s4, b2) in self.truth(s3, vb):
                                    out.append((s4, ("int", 1 if b2 else 0)))
                return out
            out = []
            for (s, va) in self.ev(e[2], st):
                for (s2, vb) in self.ev(e[3], s):
                    out += self.binop(op, s2, va, vb)
            return out
        if k == "tern":
            out = []
            for (s, vc) in self.ev(e[1], st):
                for (s2, b) in self.truth(s, vc):
                    out += self.ev(e[2] if b else e[3], s2)
            return out
        if k == "asg":
            out = []
            for (s, v) in self.ev(e[3], st):
                if e[1] != "=":
                    v = OPQ
                    if e[2][0] == "mem" and self.obj_fields.get(e[2][2]) is True:
                        raise Shape("%s: compound assignment to an object field" % self.fn)
                out.append(self.assign(s, e[2], v))
            return out
        if k == "call":
            return self.call(e, st)
        raise Shape("%s: expression %r is not understood" % (self.fn, k))

    def binop(self, op, st, a, b):
        if op in ("==", "!="):
            eq = None
            res = None
            if a == NULLV and b == NULLV:
                eq = True
            elif a[0] == "ptr" and b[0] == "ptr":
                eq = True if a[1] == b[1] else None
            elif a[0] == "int" and b[0] == "int":
                eq = a[1] == b[1]
            elif (a == NULLV and b[0] == "ptr") or (b == NULLV and a[0] == "ptr"):
                p = a if a[0] == "ptr" else b
                res = [(s, ("int", 1 if (not t) == (op == "==") else 0)) for (s, t) in self.truth(st, p)]
            if res is not None:
                return res
            if eq is None:
                return [(st, OPQ)]
            return [(st, ("int", 1 if eq == (op == "==") else 0))]
        if a[0] == "int" and b[0] == "int":
            x, y = a[1], b[1]
            if op in ("<", ">", "<=", ">="):
                r = {"<": x < y, ">": x > y, "<=": x <= y, ">=": x >= y}[op]
                return [(st, ("int", 1 if r else 0))]
            if op == "+":
                return [(st, ("int", x + y))]
            if op == "-":
                return [(st, ("int", x - y))]
        return [(st, OPQ)]

    def callee(self, f):
        while f[0] == "un" and f[1] == "*":
            f = f[2]
        if f[0] == "id":
            if f[1] in self.locals or f[1] in self.params:
                return None, f[1]       # a local function pointer: classified like the field of that name
            return f[1], None
        if f[0] == "mem":
            return None, f[2]
        raise Shape("%s: callee %s is not understood" % (self.fn, text_of(f)))

    def args_eval(self, args, st, skip=()):
        """[(state, [values])]; arguments at positions in `skip` are not evaluated."""
        res = [(st, [])]
        for i, a in enumerate(args):
            nxt = []
            for (s, vs) in res:
                if i in skip:
                    nxt.append((s, vs + [OPQ]))
                else:
                    for (s2, v) in self.ev(a, s):
                        nxt.append((s2, vs + [v]))
            res = nxt
        return res

    def refop(self, st, v, what, arg):
        """Py_INCREF & co applied to value v."""
        st = st.copy()
        x_variant = what in ("Py_XINCREF", "Py_XDECREF", "Py_CLEAR")
        if v == NULLV:
            if not x_variant:
                self.emit(st, "NULL:" + text_of(arg), "bad")
            return st
        if v[0] != "ptr":
            raise Shape("%s: %s of the untracked value %s" % (self.fn, what, text_of(arg)))
        if not x_variant and st.nul.get(v[1]) == "unk":
            st.nul[v[1]] = "nn"
        if self.bmode and what in ("Py_DECREF", "Py_XDECREF", "Py_CLEAR") and self.tracked(st, v[1]):
            self.emit(st, v[1], "use")
            self.emit(st, v[1], "unprotect")
        if what == "Py_CLEAR" and arg[0] == "mem" and self.obj_fields.get(arg[2]) is True:
            self.emit(st, v[1], "take")      # the field is emptied: the struct's reference is released here
        self.emit(st, v[1], {"Py_INCREF": "inc", "Py_XINCREF": "inc", "Py_DECREF": "dec",
                             "Py_XDECREF": "xdec", "Py_CLEAR": "xdec"}[what])
        if what == "Py_CLEAR":
            st.env[self.lkey(arg)] = NULLV
        return st

    def call(self, e, st):
        name, field = self.callee(e[1])
        args = e[2]
        if name in ("Py_INCREF", "Py_XINCREF", "Py_DECREF", "Py_XDECREF", "Py_CLEAR"):
            if len(args) != 1:
                raise Shape("%s: %s with %d arguments" % (self.fn, name, len(args)))
            return [(self.refop(s, v, name, args[0]), OPQ) for (s, v) in self.ev(args[0], st)]
        if name == "assert":
            return [(s2, OPQ) for (s, v) in self.ev(args[0], st) for (s2, b) in self.truth(s, v) if b]
        if name in INOUT_KEEP:
            for a in args:
                if not (a[0] == "un" and a[1] == "&" and a[2][0] == "id"):
                    raise Shape("%s: argument of %s" % (self.fn, name))
            return [(st, OPQ)]
        if name in OUT_BORROWED or name in OUT_NEW:
            outs = [i for i, a in enumerate(args) if a[0] == "un" and a[1] == "&"]
            res = []
            for (s, vs) in self.args_eval(args, st, skip=outs):
                cur = [s]
                for n, i in enumerate(outs):
                    target = args[i][2]
                    if target[0] != "id":
                        raise Shape("%s: out-parameter %s" % (self.fn, text_of(target)))
                    nxt = []
                    for c in cur:
                        if name in OUT_BORROWED:
                            c2 = c.copy()
                            v = self.fresh(c2, target[1], "nn")
                            c2.org[v[1]] = name + "()"
                            nxt.append(self.assign(c2, target, v)[0])
                        else:
                            for (c2, v) in self.new_value(c, target[1], may_null=(n > 0)):
                                if v != NULLV:
                                    c2.org[v[1]] = name + "()"
                                nxt.append(self.assign(c2, target, v)[0])
                    cur = nxt
                res += [(c, OPQ) for c in cur]
            return res
        for a in args:
            if a[0] == "un" and a[1] == "&":
                raise Shape("%s: address-of in a call to %s" % (self.fn, name or field))
        res = []
        for (s, vs) in self.args_eval(args, st):
            if self.bmode:
                s = s.copy()
                f = e[1]
                while f[0] == "un" and f[1] == "*":
                    f = f[2]
                if f[0] == "mem" and f[1][0] == "id":
                    self.buse(s, s.env.get(f[1][1], OPQ))        # called through a field of this value
                for v in vs:
                    self.buse(s, v)
                if (name in ACALL) or (field in ACALL_FIELDS) or (name in self.acall_locals):
                    self.bacall(s)
                    for i in sorted(self.stale_params.get(name, ())):
                        if i < len(vs):
                            self.buse(s, vs[i])          # the callee uses this argument after it ran arbitrary code
            if name in STEAL or name in STORE_MACROS:
                tbl = STEAL if name in STEAL else STORE_MACROS
                idxs = tbl[name] if tbl[name] is not None else range(len(vs))
                s = s.copy()
                for i in idxs:
                    v = vs[i]
                    if v[0] == "ptr":
                        self.emit(s, v[1], "steal" if name in STEAL else "store")
                    elif v != NULLV:
                        raise Shape("%s: untracked value handed to %s" % (self.fn, name))
                res.append((s, OPQ))
            elif (name in NEW) or (field in NEW_FIELDS):
                res += self.new_value(s, (name or ("->" + field)) + "()",
                                      alloc=(name in ALLOCATORS or field in ALLOC_FIELDS))
            elif name in BORROWED:
                s = s.copy()
                v = self.fresh(s, name + "()", "nn" if name == "Py_TYPE" else "unk")
                if self.bmode and vs and vs[0][0] == "ptr":
                    if name in TUPLE_ITEM and self.tracked(s, vs[0][1]):
                        self.emit(s, v[1], "fborrow<" + vs[0][1])
                    elif name in MUTABLE_ITEM:
                        self.emit(s, v[1], "fborrow")
                res.append((s, v))
            elif name in ALWAYS_NULL:
                res.append((s, NULLV))
            elif (name in NEUTRAL) or (field in NEUTRAL_FIELDS):
                res.append((s, OPQ))
            elif name in self.local_kinds:
                # a function of ctraits.c itself: classified by its return type; sound only if that function is
                # read and balanced (emit() moves callers of unread functions to `unread`)
                self.local_calls.add(name)
                if self.local_kinds[name]:
                    res += self.new_value(s, name + "()")
                else:
                    res.append((s, OPQ))
            elif name and NEUTRAL_RE.match(name):
                res.append((s, OPQ))
            else:
                raise Shape("unknown call %s" % (name or ("->" + field)))
        return res

    # -- naming of values produced by calls: a value assigned to a variable takes the variable's name
    def rename(self, st, old, new_base):
        """In place (st is already a private copy)."""
        n = st.cnt.get(new_base, 0) + 1
        st.cnt[new_base] = n
        new = new_base if n == 1 else "%s~%d" % (new_base, n)
        for k, v in list(st.env.items()):
            if v == ("ptr", old):
                st.env[k] = ("ptr", new)
        st.nul[new] = st.nul.pop(old)
        st.org[new] = st.org.pop(old)
        st.ev = tuple((new if a == old else a, ("fborrow<" + new) if b == "fborrow<" + old else b) for (a, b) in st.ev)
        base = old.split("~")[0]
        st.cnt[base] = st.cnt.get(base, 1) - 1
        if st.cnt[base] <= 0:
            del st.cnt[base]
        return new

    def collect(self, st):
        """Forget values that no variable, field or event refers to (their names can be used again)."""
        live = {v[1] for v in st.env.values() if v[0] == "ptr"} | {a for (a, _) in st.ev}
        if all(n in live for n in st.nul) and all(c in live or any(x.startswith(c + "~") for x in live) for c in st.cnt):
            return st
        st = st.copy()
        st.nul = {n: x for n, x in st.nul.items() if n in live}
        st.org = {n: x for n, x in st.org.items() if n in live}
        cnt = {}
        for n in live:
            base, _, k = n.partition("~")
            cnt[base] = max(cnt.get(base, 0), int(k) if k else 1)
        st.cnt = cnt
        return st

    # -- statements
    def guard(self, states):
        states = merge([self.collect(s) for s in states])
        if len(states) > MAX_STATES:
            raise TooLarge("%s: more than %d abstract states" % (self.fn, MAX_STATES))
        return states

    def run_expr(self, e, states):
        return self.guard([s for st in states for (s, _) in self.ev(e, st)])

    def split(self, cond, states):
        t, f = [], []
        for st in states:
            for (s, v) in self.ev(cond, st):
                for (s2, b) in self.truth(s, v):
                    (t if b else f).append(s2)
        return self.guard(t), self.guard(f)

    def exec(self, stmt, states):
        o = Out()
        k = stmt[0]
        if not states:
            return o
        if k == "block":
            return self.exec_items(stmt[1], states)
        if k == "expr":
            o.normal = self.run_expr(stmt[1], states)
            return o
        if k == "decl":
            cur = states
            for (name, is_obj, init) in stmt[1]:
                self.locals.add(name)
                if init is not None:
                    cur = self.run_expr(("asg", "=", ("id", name), init), cur)
                else:
                    nxt = []
                    for s in cur:
                        if name in s.env:
                            s = s.copy()
                            del s.env[name]
                        nxt.append(s)
                    cur = nxt
            o.normal = cur
            return o
        if k == "if":
            t, f = self.split(stmt[1], states)
            a = self.exec(stmt[2], t)
            b = self.exec(stmt[3], f)
            o.absorb(a)
            o.absorb(b)
            o.normal = self.guard(a.normal + b.normal)
            return o
        if k == "return":
            for st in states:
                if stmt[1] is None:
                    o.ret.append(("return", False, st))
                    continue
                for (s, v) in self.ev(stmt[1], st):
                    o.ret.append(self.ret_kind(stmt[1], s, v))
            return o
        if k == "break":
            o.brk = list(states)
            return o
        if k == "continue":
            o.cont = list(states)
            return o
        if k == "goto":
            o.gotos[stmt[1]] = list(states)
            return o
        if k == "for":
            cur = states
            if stmt[1] is not None:
                cur = self.exec(stmt[1], cur).normal
            for it in range(3):
                if stmt[2] is not None:
                    enter, leave = self.split(stmt[2], cur)
                else:
                    enter, leave = cur, []
                o.normal += leave
                if it == 2:
                    break
                b = self.exec(stmt[4], enter)
                o.normal += b.brk
                b.brk = []
                cur = self.guard(b.normal + b.cont)
                b.cont = []
                o.absorb(b)
                if stmt[3] is not None:
                    cur = self.run_expr(stmt[3], cur)
            o.normal = self.guard(o.normal)
            return o
        if k == "switch":
            states = self.run_expr(stmt[1], states)
            items = stmt[2]
            if any(it[0] == "label" for it in items):
                raise Shape("%s: goto label inside a switch body" % self.fn)
            if not items or items[0][0] != "case":
                raise Shape("%s: switch body does not start with a case label" % self.fn)
            entries = [i for i, it in enumerate(items) if it[0] == "case" and (i == 0 or items[i - 1][0] != "case")]
            if not any(it[0] == "case" and it[1] for it in items):
                o.normal += states                  # no default: the body may be skipped
            for p in entries:
                b = self.exec_items([it for it in items[p:] if it[0] != "case"], states)
                o.normal += b.normal + b.brk
                b.brk = []
                o.absorb(b)
            o.normal = self.guard(o.normal)
            return o
        if k == "case":
            raise Shape("%s: case label outside a switch" % self.fn)
        if k == "label":
            raise Shape("%s: label %s in an unexpected position" % (self.fn, stmt[1]))
        raise Shape("%s: statement %r is not understood" % (self.fn, k))

    def exec_items(self, items, states):
        o = Out()
        cur = states
        pend = {}
        labels = [it[1] for it in items if it[0] == "label"]
        passed = set()
        for it in items:
            if it[0] == "label":
                passed.add(it[1])
                cur = self.guard(cur + pend.pop(it[1], []))
                continue
            b = self.exec(it, cur)
            cur = b.normal
            for lab, ss in list(b.gotos.items()):
                if lab in passed:
                    raise Shape("%s: backward goto %s" % (self.fn, lab))
                if lab in labels:
                    pend.setdefault(lab, []).extend(ss)
                    del b.gotos[lab]
            o.absorb(b)
        o.normal = cur
        return o

    def ret_kind(self, e, st, v):
        txt = text_of(e)
        err = False
        if e[0] == "call":
            nm = self.callee(e[1])[0] or ""
            err = bool(NEUTRAL_RE.match(nm)) or nm in ALWAYS_NULL
        if v == NULLV:
            err = True
            if txt != "NULL":
                txt += "=NULL"
        elif v[0] == "int":
            if v[1] < 0:
                err = True
            if e[0] != "num" and not (e[0] == "un" and e[2][0] == "num"):
                txt += "=%d" % v[1]
        if self.bmode and v[0] == "ptr":
            st = st.copy()
            self.buse(st, v)
        if self.ret_obj:
            if v[0] == "ptr":
                st = st.copy()
                self.emit(st, v[1], "ret")
            elif v != NULLV:
                raise Shape("%s: returns the untracked value %s" % (self.fn, txt))
        return ("return " + txt, err, st)

    def run(self):
        st = St()
        self.param_order = [p for (p, _) in self.params]
        for (p, is_ptr) in self.params:
            st.env[p] = self.fresh(st, p, "unk") if is_ptr else OPQ
            if self.bmode and self.track_params and is_ptr:
                self.emit(st, p, "fborrow")
        self.params = {p for (p, _) in self.params}
        o = self.exec_items(self.body, [st])
        if o.gotos:
            raise Shape("%s: goto to unknown label(s) %s" % (self.fn, sorted(o.gotos)))
        if o.brk or o.cont:
            raise Shape("%s: break / continue outside a loop" % self.fn)
        rets = list(o.ret)
        if o.normal:
            if self.ret_is_void:
                rets += [("end", False, s) for s in o.normal]
            else:
                raise Shape("%s: control reaches the end of a non-void function" % self.fn)
        return rets


def read_obj_fields(src):
    """field name -> True (object pointer) / False (anything else), from every `typedef struct {...} x;`"""
    fields = {}
    for m in re.finditer(r"typedef\s+struct\s*\w*\s*\{", src):
        a = m.end() - 1
        depth, i = 0, a
        while True:
            if src[i] == "{":
                depth += 1
            elif src[i] == "}":
                depth -= 1
                if depth == 0:
                    break
            i += 1
        body = src[a + 1:i]
        for decl in body.split(";"):
            d = decl.strip()
            if not d or d == "PyObject_HEAD":
                continue
            d = re.sub(r"^PyObject_HEAD\s+", "", d)
            mm = re.match(r"^((?:\w+\s+)+)(\**)\s*(\w+)(\s*\[[^\]]*\])?$", d, flags=re.S)
            if not mm:
                continue      # function-pointer members etc.: never object fields
            tys = mm.group(1).split()
            is_obj = bool(mm.group(2)) and any(t in OBJ_TYPES for t in tys) and not mm.group(4)
            name = mm.group(3)
            if name in fields and fields[name] != is_obj:
                raise Shape("field %s is an object pointer in one struct and not in another" % name)
            fields[name] = is_obj
    for must in ("obj_dict", "py_validate", "handler", "default_value"):
        if fields.get(must) is not True:
            raise Shape("object field %s not found in the struct definitions" % must)
    if fields.get("flags") is not False:
        raise Shape("scalar field flags not found in the struct definitions")
    return fields


def header_of(src, name, body_open):
    """(returns object pointer?, returns void?, [(param, is object pointer)])"""
    # walk back from the '{' to the start of the definition
    close = src.rfind(")", 0, body_open)
    depth, i = 0, close
    while True:
        if src[i] == ")":
            depth += 1
        elif src[i] == "(":
            depth -= 1
            if depth == 0:
                break
        i -= 1
    plist = src[i + 1:close]
    pre = src[:i].rstrip()
    if not pre.endswith(name):
        raise Shape("%s: definition header not understood" % name)
    pre = pre[:-len(name)].rstrip()
    rt = pre[pre.rfind("\n") + 1:].strip()
    rt_toks = rt.replace("*", " * ").split()
    if not rt_toks or any(t != "*" and t not in TYPES for t in rt_toks):
        raise Shape("%s: return type %r not understood" % (name, rt))
    ret_obj = "*" in rt_toks and any(t in OBJ_TYPES for t in rt_toks)
    ret_void = rt_toks == ["void"] or rt_toks == ["static", "void"]
    params = []
    for p in plist.split(","):
        p = re.sub(r"Py_UNUSED\(\s*(\w+)\s*\)", r"\1", p.strip())
        if p == "void" or not p:
            continue
        mm = re.match(r"^((?:\w+\s+)+)(\**)\s*(\w+)$", p, flags=re.S)
        if not mm:
            mm2 = re.match(r"^(\w+)\s*(\*+)\s*(\w+)$", p, flags=re.S)
            if not mm2:
                raise Shape("%s: parameter %r not understood" % (name, p))
            tys, stars, pn = [mm2.group(1)], mm2.group(2), mm2.group(3)
        else:
            tys, stars, pn = mm.group(1).split(), mm.group(2), mm.group(3)
        if any(t not in TYPES for t in tys):
            raise Shape("%s: parameter type %r not understood" % (name, p))
        params.append((pn, bool(stars) and any(t in OBJ_TYPES for t in tys)))
    return ret_obj, ret_void, params


def local_kinds_of(src, funcs):
    """function of ctraits.c -> does it return an object pointer (header unreadable: not listed)."""
    kinds = {}
    for (n, a, _) in funcs:
        try:
            kinds[n] = header_of(src, n, a)[0]
        except Shape:
            pass
    return kinds


def analyse(src, funcs, fields, name, local_kinds=None, want_calls=False, bmode=False, acall_locals=(),
            track_params=False, stale_params=None, want_params=False):
    hits = [(a, b) for (n, a, b) in funcs if n == name]
    if len(hits) != 1:
        raise Shape("%s: %d definitions found" % (name, len(hits)))
    a, b = hits[0]
    ret_obj, ret_void, params = header_of(src, name, a)
    p = Parser(tokenize(src[a + 1:b]), name)
    body = p.block_items(top=True)
    if p.peek()[0] != "eof":
        raise Shape("%s: trailing tokens" % name)
    it = Interp(name, ret_obj, params, fields, body, local_kinds)
    it.ret_is_void = ret_void
    it.bmode = bmode
    it.acall_locals = set(acall_locals)
    it.track_params = track_params
    it.stale_params = stale_params or {}
    rets = it.run()
    raw = len(rets)
    seen, paths = set(), []
    for (kind, err, st) in rets:
        k = (kind, st.ev)
        if k not in seen:
            seen.add(k)
            paths.append((kind, err, st.ev))
    paths.sort(key=lambda p: (p[0], p[2]))
    if len(paths) > (MAX_PATHS if not bmode else 20 * MAX_PATHS):
        raise TooLarge("%s: %d distinct paths (limit %d)" % (name, len(paths), MAX_PATHS))
    if want_params:
        return raw, paths, it.param_order
    if want_calls:
        return raw, paths, sorted(it.stores), set(it.local_calls)
    return raw, paths, sorted(it.stores)


def read_all(src):
    """([(function, end states, paths, stores)], [(function, reason)]) over EVERY function definition of the file,
    in source order.  A function the reader cannot handle is `unread` with the reason; so is, transitively, every
    function that calls an unread function of ctraits.c whose reference behaviour is therefore not established
    (calls listed in the explicit API tables excepted)."""
    funcs = functions(src)
    fields = read_obj_fields(src)
    kinds = local_kinds_of(src, funcs)
    seen, results, calls, unread = set(), {}, {}, {}
    order = []
    for (name, _, _) in funcs:
        if name in seen:
            unread[name] = "defined more than once"
            results.pop(name, None)
            continue
        seen.add(name)
        order.append(name)
        if name in FORCED_UNREAD:
            unread[name] = FORCED_UNREAD[name]
            continue
        try:
            raw, paths, stores, lc = analyse(src, funcs, fields, name, kinds, want_calls=True)
            results[name] = (raw, paths, stores)
            calls[name] = lc
        except RecursionError:
            unread[name] = "too deeply nested"
        except Shape as e:
            msg = str(e)
            unread[name] = msg[len(name) + 2:] if msg.startswith(name + ": ") else msg
    changed = True
    while changed:
        changed = False
        for name in order:
            if name in results:
                bad = sorted(c for c in calls[name] if c in unread and not NEUTRAL_RE.match(c))
                if bad:
                    del results[name]
                    unread[name] = "calls the unread function %s" % bad[0]
                    changed = True
    for must in REQUIRED:
        if must not in results:
            raise Shape("required function %s is unread: %s" % (must, unread.get(must, "not found")))
    return ([(n,) + results[n] for n in order if n in results], [(n, unread[n]) for n in order if n in unread])


def lean_str(s):
    return '"' + s.replace("\\", "\\\\").replace('"', '\\"') + '"'


def emit(traits_dir):
    src = strip_comments(open(os.path.join(traits_dir, "ctraits.c")).read())
    results, unread = read_all(src)
    names = []
    for (_, _, paths, _) in results:
        for (_, _, evs) in paths:
            for (v, _) in evs:
                if v not in names:
                    names.append(v)
    names.sort()
    vid = {v: i for i, v in enumerate(names)}
    L = []
    L.append("/- GENERATED by harness/translate/crefpaths.py from traits/ctraits.c of the working tree - do not edit. -/")
    L.append("import TraitsVerif.Model.RefPaths")
    L.append("namespace TraitsVerif.Generated.RefPaths")
    L.append("open TraitsVerif.Model.RefPaths")
    L.append("")
    L.append("/-! Reference-count events of every control-flow path (loops unrolled 0-2 times) of the functions")
    L.append("listed in `covered`; paths with the same end and the same events are listed once. -/")
    L.append("")
    L.append("/-- Functions read (every definition of the file that is not in `unread`), in source order. -/")
    L.append("def covered : List String := [%s]" % ", ".join(lean_str(r[0]) for r in results))
    L.append("")
    L.append("/-- Function definitions of ctraits.c that are NOT covered: (function, why the reader gave up). -/")
    L.append("def unread : List (String × String) := [\n%s\n]" % ",\n".join("  (%s, %s)" % (lean_str(a), lean_str(b)) for a, b in unread))
    L.append("")
    L.append("/-- Names of the values the events speak about (index = the number used in `paths`). A value is named")
    L.append("after the variable / field / global it was first seen in, or after the call that produced it. -/")
    L.append("def values : List String := [%s]" % ", ".join(lean_str(v) for v in names))
    L.append("")
    L.append("/-- (function, abstract end states reached, distinct (end, events) pairs listed below). -/")
    L.append("def pathCounts : List (String × Nat × Nat) := [%s]"
             % ", ".join("(%s, %d, %d)" % (lean_str(r[0]), r[1], len(r[2])) for r in results))
    L.append("")
    L.append("/-- Every assignment of a tracked value to an object field: (function, field, where the value comes from:")
    L.append("the call that produced it, a parameter, a global or a field). -/")
    L.append("def stores : List (String × String × String) := [")
    rows = ["  (%s, %s, %s)" % (lean_str(r[0]), lean_str(k), lean_str(v)) for r in results for (k, v) in r[3]]
    L.append(",\n".join(rows))
    L.append("]")
    L.append("")
    all_defs = []
    for (fname, raw, paths, _) in results:
        d = "paths_" + re.sub(r"\W", "_", fname)
        all_defs.append(d)
        L.append("def %s : List Path := [" % d)
        rows = []
        for n, (kind, err, evs) in enumerate(paths):
            evtxt = ", ".join("(%d, .%s)" % (vid[v], e) for (v, e) in evs)
            cmt = " ".join("%s:%s" % (v, e) for (v, e) in evs)
            rows.append("  /- %s -/\n  ⟨%s, %d, %s, %s, [%s]⟩"
                        % (cmt.replace("-/", "- /"), lean_str(fname), n, lean_str(kind), "true" if err else "false", evtxt))
        L.append(",\n".join(rows))
        L.append("]")
        L.append("")
    L.append("def paths : List Path := %s" % " ++ ".join(all_defs))
    L.append("")
    L.append("end TraitsVerif.Generated.RefPaths")
    return "\n".join(L) + "\n"


if __name__ == "__main__":
    import sys
    sys.stdout.write(emit(sys.argv[1] if len(sys.argv) > 1 else "/repo/traits"))
