"""Translator: the SOURCE TEXT of the observer-graph walk -> a term of the ObsL language (Model/ObsL.lean).

Translated, from the working tree (emits Generated/ObsProg.lean):
  * traits/observation/_observe.py: the module-level functions `add_or_remove_notifiers` and `undo_processed`,
    and the class `_AddOrRemoveNotifier` (`__init__` into the `initParams` / `init` rows, every other method
    into `methods`, in source order),
  * traits/observation/observe.py: the function `apply_observers`.

The translation is purely syntactic (one ObsL constructor per Python construct).  Keyword arguments are put in
the callee's parameter order (the argument expressions of the subset have no effect); an omitted parameter
takes its default if that is the literal None.  Fails closed (raises) on anything outside the subset.
Parameter defaults are part of the term (`defaults` / `initDefaults`; an omitted argument is `none` at the
call site and the interpreter takes the callee's default): they must be the
literals None / True / False.
"""
import ast
import os

TARGET = "ObsProg.lean"

FNS = ["add_or_remove_notifiers", "undo_processed"]
CLASS = "_AddOrRemoveNotifier"
APPLY = "apply_observers"
HELPERS_MOD = "_has_traits_helpers.py"
CHANGE_HANDLER = "observer_change_handler"     # the maintainer of named / filtered links
UNOBS = "UNOBSERVABLE_VALUES"
EXC_ONLY = {"NotifierNotFound": ".notifierNotFound"}
EVENT_ATTRS = {"old": "evOld", "new": "evNew", "removed": "evRemoved", "added": "evAdded"}
ITEM_HANDLER = "_observer_change_handler"      # the maintainers of list / dict / set items, one per module
ITEM_MODS = [("list", "_list_item_observer.py"), ("dict", "_dict_item_observer.py"), ("set", "_set_item_observer.py")]
OBSERVE_MOD = "traits.observation._observe"
FLD = {"object": ".object", "graph": ".graph", "handler": ".handler", "target": ".target",
       "dispatcher": ".dispatcher", "remove": ".remove", "_owns_processed": ".ownsProcessed",
       "_processed": ".processed"}
NODE_CALLS = {"get_notifier": ("getNotifier", ["handler", "target", "dispatcher"]),
              "get_maintainer": ("getMaintainer", ["graph", "handler", "target", "dispatcher"])}
NODE_ITERS = {"iter_observables": "forObservables", "iter_objects": "forObjects",
              "iter_extra_graphs": "forExtraGraphs"}


class Unknown(Exception):
    pass


def is_name(n, s):
    return isinstance(n, ast.Name) and n.id == s


def is_none(n):
    return isinstance(n, ast.Constant) and n.value is None


def is_docstring(s):
    return isinstance(s, ast.Expr) and isinstance(s.value, ast.Constant) and isinstance(s.value.value, str)


def short(n):
    return ast.dump(n)[:80]


def node_attr(n, attrs):
    """`<g>.node.<attr>` with attr in attrs -> (g, attr)"""
    if isinstance(n, ast.Attribute) and n.attr in attrs and isinstance(n.value, ast.Attribute) \
            and n.value.attr == "node":
        return n.value.value, n.attr


def signature(fn, is_method):
    """[(name, is positional, default node or None)] of a def, without self"""
    a = fn.args
    if a.vararg or a.kwarg or a.posonlyargs or fn.decorator_list:
        raise Unknown("%s: *args / **kwargs / positional-only parameters / decorators" % fn.name)
    defaults = [None] * (len(a.args) - len(a.defaults)) + list(a.defaults)
    sig = [(x.arg, True, d) for x, d in zip(a.args, defaults)]
    sig += [(x.arg, False, d) for x, d in zip(a.kwonlyargs, a.kw_defaults)]
    for name, _, d in sig:      # the terms have no defaults: only immutable literals (callers outside see them)
        if d is not None and not (isinstance(d, ast.Constant) and (d.value is None or isinstance(d.value, bool))):
            raise Unknown("%s: default of %s is not None / True / False" % (fn.name, name))
    if is_method:
        if not sig or sig[0][0] != "self" or not sig[0][1]:
            raise Unknown("%s: first parameter is not self" % fn.name)
        sig = sig[1:]
    return sig


class Fn:
    """Translation of one function body.  kind: "function" | "method" | "init"."""

    def __init__(self, fn, kind, fn_sigs, init_sig, methods):
        self.fn = fn
        self.kind = kind
        self.fn_sigs = fn_sigs        # callable module-level functions: name -> signature
        self.init_sig = init_sig      # signature of _AddOrRemoveNotifier.__init__ (None: class not in scope)
        self.methods = methods        # names of the methods of the class
        self.reserved = set(fn_sigs) | {"self", CLASS}
        self.sig = signature(fn, kind != "function")
        self.params = [s[0] for s in self.sig]
        self.slots = {}
        for p in self.params:
            self.slot(p)

    def slot(self, name):
        if name in self.reserved:
            raise Unknown("%s: binding of the name %s" % (self.fn.name, name))
        if name not in self.slots:
            self.slots[name] = len(self.slots)
        return self.slots[name]

    def defaults(self):
        """the parameter defaults, as a Lean list of `Option Ex` (literals None / True / False only)"""
        return "[%s]" % ", ".join("none" if d is None else "(some %s)" % self.ex(d) for _, _, d in self.sig)

    def comment(self):
        return "slots" + "".join(" %d=%s" % (i, n) for n, i in sorted(self.slots.items(), key=lambda kv: kv[1]))

    # -- expressions ---------------------------------------------------------
    def ex(self, n):
        E = self.ex
        if isinstance(n, ast.Constant):
            if n.value is None:
                return ".noneLit"
            if isinstance(n.value, bool):
                return "(.boolLit %s)" % ("true" if n.value else "false")
            raise Unknown("constant %r" % (n.value,))
        if isinstance(n, ast.Name):
            if n.id in self.slots:
                return "(.var %d)" % self.slots[n.id]
            raise Unknown("name %s used before assignment" % n.id)
        if isinstance(n, ast.Attribute):
            if is_name(n.value, "self") and self.kind == "method" and n.attr in FLD:
                return "(.selfF %s)" % FLD[n.attr]
            na = node_attr(n, ("notify",))
            if na:
                return "(.nodeNotify %s)" % E(na[0])
            if n.attr in EVENT_ATTRS and isinstance(n.value, ast.Name) and n.value.id in self.slots \
                    and self.kind == "function":
                return "(.%s %s)" % (EVENT_ATTRS[n.attr], E(n.value))
            raise Unknown("attribute %s" % short(n))
        if isinstance(n, ast.List):
            if not n.elts:
                return ".newList"
            if self.kind == "method" and all(isinstance(x, ast.Attribute) and is_name(x.value, "self")
                                             and x.attr in self.methods for x in n.elts):
                return "(.meths [%s])" % ", ".join('"%s"' % x.attr for x in n.elts)
            raise Unknown("list display %s" % short(n))
        if isinstance(n, ast.Tuple) and len(n.elts) == 2:
            return "(.tuple2 %s %s)" % (E(n.elts[0]), E(n.elts[1]))
        if isinstance(n, ast.Compare) and len(n.ops) == 1 and isinstance(n.ops[0], (ast.Is, ast.IsNot)):
            if not is_none(n.comparators[0]):
                raise Unknown("`is` with something other than None")
            r = "(.isNone %s)" % E(n.left)
            return r if isinstance(n.ops[0], ast.Is) else "(.not %s)" % r
        if isinstance(n, ast.UnaryOp) and isinstance(n.op, ast.Not):
            return "(.not %s)" % E(n.operand)
        if isinstance(n, ast.IfExp):
            return "(.ite %s %s %s)" % (E(n.test), E(n.body), E(n.orelse))
        if isinstance(n, ast.Subscript) and isinstance(n.slice, ast.Slice):
            k = n.slice
            if (k.lower is None and k.upper is None and isinstance(k.step, ast.UnaryOp)
                    and isinstance(k.step.op, ast.USub) and isinstance(k.step.operand, ast.Constant)
                    and type(k.step.operand.value) is int and k.step.operand.value == 1):
                return "(.rev %s)" % E(n.value)
        if isinstance(n, ast.Call):
            na = node_attr(n.func, NODE_CALLS)
            if na:
                ctor, names = NODE_CALLS[na[1]]
                return "(.%s %s %s)" % (ctor, E(na[0]), " ".join(self.bind(n, [(x, True, None) for x in names], opt=False)))
            if (not n.args and not n.keywords and isinstance(n.func, ast.Attribute) and n.func.attr == "values"
                    and self.kind == "function"):
                return "(.valuesOf %s)" % E(n.func.value)
            raise Unknown("call %s" % short(n))
        raise Unknown("expression %s" % short(n))

    def unobservable_test(self, t):
        """`all(<e> is not skipped for skipped in UNOBSERVABLE_VALUES)` -> e"""
        if (isinstance(t, ast.Call) and is_name(t.func, "all") and len(t.args) == 1 and not t.keywords
                and isinstance(t.args[0], ast.GeneratorExp) and len(t.args[0].generators) == 1):
            g, c = t.args[0].generators[0], t.args[0].elt
            if (not g.ifs and not g.is_async and isinstance(g.target, ast.Name) and is_name(g.iter, UNOBS)
                    and isinstance(c, ast.Compare) and len(c.ops) == 1 and isinstance(c.ops[0], ast.IsNot)
                    and is_name(c.comparators[0], g.target.id) and g.target.id not in self.slots):
                return c.left
        return None

    def bind(self, call, sig, opt=True):
        """the arguments of a call, in the callee's parameter order"""
        names = [s[0] for s in sig]
        if len(call.args) > sum(1 for s in sig if s[1]):
            raise Unknown("too many positional arguments in %s" % short(call))
        given = dict(zip(names, call.args))            # positional parameters come first in a signature
        for k in call.keywords:
            if k.arg is None or k.arg not in names or k.arg in given:
                raise Unknown("keyword argument %s in %s" % (k.arg, short(call)))
            given[k.arg] = k.value
        out = []
        for name, _, default in sig:
            if name in given:
                out.append(("(some %s)" if opt else "%s") % self.ex(given[name]))
            elif default is not None:
                out.append("none")          # omitted: the interpreter takes the callee's default (part of its term)
            else:
                raise Unknown("parameter %s not supplied in %s" % (name, short(call)))
        return out

    # -- statements ----------------------------------------------------------
    def st(self, s):
        """One statement -> list of ObsL statements."""
        if isinstance(s, ast.Pass) or is_docstring(s):
            return []
        if isinstance(s, ast.Expr) and isinstance(s.value, ast.Call):
            v, f = s.value, s.value.func
            if isinstance(f, ast.Name):
                if f.id in self.fn_sigs:
                    return ['(.callFn "%s" [%s])' % (f.id, ", ".join(self.bind(v, self.fn_sigs[f.id])))]
                if f.id in self.slots and not v.args and not v.keywords:
                    return ["(.callVar %d)" % self.slots[f.id]]
            if isinstance(f, ast.Attribute) and not v.keywords:
                two = {"add_to": "addTo", "remove_from": "removeFrom", "append": "append"}
                if f.attr in two and len(v.args) == 1:
                    return ["(.%s %s %s)" % (two[f.attr], self.ex(f.value), self.ex(v.args[0]))]
                if f.attr == "clear" and not v.args:
                    return ["(.clear %s)" % self.ex(f.value)]
            raise Unknown("expression statement %s" % short(v))
        if isinstance(s, ast.Assign) and len(s.targets) == 1 and isinstance(s.targets[0], ast.Name):
            t, v = s.targets[0], s.value
            if isinstance(v, ast.Call) and is_name(v.func, CLASS):
                if self.init_sig is None:
                    raise Unknown("%s is not in scope" % CLASS)
                args = "[%s]" % ", ".join(self.bind(v, self.init_sig))      # arguments first, then the target
                return ["(.construct %d %s)" % (self.slot(t.id), args)]
            e = self.ex(v)
            return ["(.assign %d %s)" % (self.slot(t.id), e)]
        if isinstance(s, ast.If) and self.unobservable_test(s.test) is not None:
            if s.orelse:
                raise Unknown("else branch of an UNOBSERVABLE_VALUES test")
            return ["(.ifObservable %s %s)" % (self.ex(self.unobservable_test(s.test)), self.block(s.body))]
        if isinstance(s, ast.If):
            return ["(.ifS %s %s %s)" % (self.ex(s.test), self.block(s.body), self.block(s.orelse))]
        if isinstance(s, ast.Return) and s.value is None:
            return [".ret"]
        if isinstance(s, ast.For):
            if s.orelse or not isinstance(s.target, ast.Name):
                raise Unknown("for statement shape")
            it = s.iter
            na = node_attr(it.func, NODE_ITERS) if isinstance(it, ast.Call) else None
            if na:
                if len(it.args) != 1 or it.keywords:
                    raise Unknown("arguments of %s" % na[1])
                if na[1] == "iter_extra_graphs" and ast.dump(na[0]) != ast.dump(it.args[0]):
                    # the interpreter takes the graph whose node is asked as the graph passed (Model/ObsL.lean)
                    raise Unknown("iter_extra_graphs called with a graph other than the node's own")
                head =".%s %%d %s %s" % (NODE_ITERS[na[1]], self.ex(na[0]), self.ex(it.args[0]))
            elif isinstance(it, ast.Attribute) and it.attr == "children":
                head = ".forChildren %%d %s" % self.ex(it.value)
            else:
                head = ".forIn %%d %s" % self.ex(it)
            i = self.slot(s.target.id)
            return ["(%s %s)" % (head % i, self.block(s.body))]
        if isinstance(s, ast.While):
            p = s.body[0] if s.body else None
            if (s.orelse or not isinstance(p, ast.Assign) or len(p.targets) != 1
                    or not isinstance(p.targets[0], ast.Tuple) or len(p.targets[0].elts) != 2
                    or not all(isinstance(x, ast.Name) for x in p.targets[0].elts)
                    or not isinstance(p.value, ast.Call) or p.value.args or p.value.keywords
                    or not isinstance(p.value.func, ast.Attribute) or p.value.func.attr != "pop"
                    or ast.dump(p.value.func.value) != ast.dump(s.test)):
                raise Unknown("while statement shape")
            l = self.ex(s.test)
            a, b = [self.slot(x.id) for x in p.targets[0].elts]
            if a == b:
                raise Unknown("while: the two targets of pop() are the same name")
            return ["(.whilePop %s %d %d %s)" % (l, a, b, self.block(s.body[1:]))]
        if isinstance(s, ast.Try):
            hs = s.handlers
            if (not s.finalbody and not s.orelse and len(hs) == 1 and isinstance(hs[0].type, ast.Name)
                    and hs[0].type.id in EXC_ONLY and hs[0].name is None):
                return ["(.tryOnly %s %s %s)" % (self.block(s.body), EXC_ONLY[hs[0].type.id], self.block(hs[0].body))]
            if s.finalbody or len(hs) != 1 or not is_name(hs[0].type, "Exception") or hs[0].name is not None:
                raise Unknown("try statement shape")
            return ["(.tryS %s %s %s)" % (self.block(s.body), self.block(hs[0].body), self.block(s.orelse))]
        if isinstance(s, ast.Raise) and s.exc is None and s.cause is None:
            return [".reraise"]
        raise Unknown("statement %s" % short(s))

    def block(self, stmts):
        out = [x for s in stmts for x in self.st(s)]
        r = out.pop() if out else ".skip"
        for x in reversed(out):
            r = "(.seq %s %s)" % (x, r)
        return r

    def init_rows(self):
        """`__init__`: straight-line `self.<attr> = <expr>`, each attribute once"""
        rows, seen = [], set()
        for s in self.fn.body:
            if is_docstring(s):
                continue
            if not (isinstance(s, ast.Assign) and len(s.targets) == 1 and isinstance(s.targets[0], ast.Attribute)
                    and is_name(s.targets[0].value, "self") and s.targets[0].attr in FLD):
                raise Unknown("__init__: statement %s" % short(s))
            a = s.targets[0].attr
            if a in seen:
                raise Unknown("__init__: self.%s assigned twice" % a)
            seen.add(a)
            rows.append("    (%s, %s)" % (FLD[a], self.ex(s.value)))
        if seen != set(FLD):
            raise Unknown("__init__: attributes not assigned: %s" % sorted(set(FLD) - seen))
        return rows


def toplevel(path, wanted):
    """the module-level definitions of the wanted names, each bound exactly once in the module"""
    tree = ast.parse(open(path).read())
    bound, defs = [], {}
    for n in ast.walk(tree):
        if isinstance(n, (ast.FunctionDef, ast.AsyncFunctionDef, ast.ClassDef)):
            bound.append(n.name)
            if any(n is x for x in tree.body):
                defs[n.name] = n
        elif isinstance(n, ast.alias):
            bound.append(n.asname or n.name)
        elif isinstance(n, ast.Name) and not isinstance(n.ctx, ast.Load):
            bound.append(n.id)
        elif isinstance(n, (ast.Global, ast.Nonlocal)):
            bound.extend(n.names)
    for w in wanted:
        if bound.count(w) != 1:
            raise Unknown("%s: %s is bound %d times" % (path, w, bound.count(w)))
    return tree, defs


def emit(traits_dir):
    obs = os.path.join(traits_dir, "observation")
    _, defs = toplevel(os.path.join(obs, "_observe.py"), FNS + [CLASS])
    if not all(isinstance(defs.get(f), ast.FunctionDef) for f in FNS):
        raise Unknown("functions %s not found" % FNS)
    cls = defs.get(CLASS)
    if not isinstance(cls, ast.ClassDef) or cls.bases or cls.keywords or cls.decorator_list:
        raise Unknown("class %s not found (or has bases / decorators)" % CLASS)
    fn_sigs = {f: signature(defs[f], False) for f in FNS}
    body = [n for n in cls.body if not is_docstring(n)]
    if not all(isinstance(n, ast.FunctionDef) for n in body) or len({n.name for n in body}) != len(body):
        raise Unknown("class %s: something other than distinct method definitions" % CLASS)
    inits = [n for n in body if n.name == "__init__"]
    meths = [n for n in body if n.name != "__init__"]
    if len(inits) != 1:
        raise Unknown("class %s: no __init__" % CLASS)
    init_sig = signature(inits[0], True)
    names = [m.name for m in meths]
    if any(signature(m, True) for m in meths):
        raise Unknown("class %s: a method has parameters other than self" % CLASS)

    tree2, defs2 = toplevel(os.path.join(obs, "observe.py"), FNS + [APPLY])
    if not isinstance(defs2.get(APPLY), ast.FunctionDef):
        raise Unknown("function %s not found" % APPLY)
    imps = [n for n in tree2.body if isinstance(n, ast.ImportFrom) and n.module == OBSERVE_MOD and n.level == 0]
    if len(imps) != 1 or sorted((a.name, a.asname) for a in imps[0].names) != sorted((f, None) for f in FNS):
        raise Unknown("observe.py does not import exactly %s from %s" % (FNS, OBSERVE_MOD))

    tree3, defs3 = toplevel(os.path.join(obs, HELPERS_MOD), [FNS[0], CHANGE_HANDLER, UNOBS] + list(EXC_ONLY))
    if not isinstance(defs3.get(CHANGE_HANDLER), ast.FunctionDef):
        raise Unknown("function %s not found" % CHANGE_HANDLER)
    imps3 = [n for n in tree3.body if isinstance(n, ast.ImportFrom) and n.module == OBSERVE_MOD and n.level == 0]
    if len(imps3) != 1 or [(a.name, a.asname) for a in imps3[0].names] != [(FNS[0], None)]:
        raise Unknown("%s does not import exactly %s from %s" % (HELPERS_MOD, FNS[0], OBSERVE_MOD))
    unobs = [n for n in tree3.body if isinstance(n, ast.Assign) and len(n.targets) == 1 and is_name(n.targets[0], UNOBS)]
    if len(unobs) != 1 or not isinstance(unobs[0].value, ast.List):
        raise Unknown("%s is not a module-level list display" % UNOBS)
    unames = []
    for e in unobs[0].value.elts:
        if is_none(e):
            unames.append("None")
        elif isinstance(e, ast.Name):
            unames.append(e.id)
        else:
            raise Unknown("element of %s: %s" % (UNOBS, short(e)))

    fns = [Fn(defs[f], "function", fn_sigs, init_sig, names) for f in FNS]
    fns.append(Fn(defs2[APPLY], "function", fn_sigs, None, []))
    fns.append(Fn(defs3[CHANGE_HANDLER], "function", {FNS[0]: fn_sigs[FNS[0]]}, None, []))
    renamed = {}
    for kind, mod in ITEM_MODS:
        tree4, defs4 = toplevel(os.path.join(obs, mod), [FNS[0], ITEM_HANDLER])
        if not isinstance(defs4.get(ITEM_HANDLER), ast.FunctionDef):
            raise Unknown("%s: function %s not found" % (mod, ITEM_HANDLER))
        imps4 = [n for n in tree4.body if isinstance(n, ast.ImportFrom) and n.module == OBSERVE_MOD and n.level == 0]
        if len(imps4) != 1 or [(a.name, a.asname) for a in imps4[0].names] != [(FNS[0], None)]:
            raise Unknown("%s does not import exactly %s from %s" % (mod, FNS[0], OBSERVE_MOD))
        f = Fn(defs4[ITEM_HANDLER], "function", {FNS[0]: fn_sigs[FNS[0]]}, None, [])
        renamed[id(f)] = "%s%s" % (kind, ITEM_HANDLER)       # e.g. list_observer_change_handler
        fns.append(f)
    frows = []
    for f in fns:
        b = f.block(f.fn.body)          # before comment(): the body allocates the slots of the locals
        name = renamed.get(id(f), f.fn.name)
        frows.append('    -- %s: %s\n    ("%s", { nparams := %d, defaults := %s, body :=\n      %s })' % (
            name, f.comment(), name, len(f.params), f.defaults(), b))
    init = Fn(inits[0], "init", {}, None, [])
    irows = init.init_rows()
    mrows = []
    for m in meths:
        f = Fn(m, "method", fn_sigs, init_sig, names)
        b = f.block(m.body)
        mrows.append('    -- %s: %s\n    ("%s",\n      %s)' % (m.name, f.comment(), m.name, b))
    lines = ["/- GENERATED by harness/translate/obsl.py from the working tree - do not edit. -/",
             "import TraitsVerif.Model.ObsL",
             "namespace TraitsVerif.Generated",
             "open TraitsVerif TraitsVerif.Model.ObsL", "",
             "/-- traits/observation/_observe.py and apply_observers of traits/observation/observe.py -/",
             "def observeProg : Prog := {",
             "  fns := [", ",\n".join(frows), "  ],",
             "  -- %s.__init__: %s" % (CLASS, init.comment()),
             "  initParams := %d," % len(init.params),
             "  initDefaults := %s," % init.defaults(),
             "  init := [", ",\n".join(irows), "  ],",
             "  methods := [", ",\n".join(mrows), "  ],",
             "  -- %s of traits/observation/%s" % (UNOBS, HELPERS_MOD),
             "  unobservable := [%s] }" % ", ".join('"%s"' % u for u in unames), "",
             "end TraitsVerif.Generated"]
    return "\n".join(lines) + "\n"


if __name__ == "__main__":
    import sys
    print(emit(sys.argv[1] if len(sys.argv) > 1 else "/repo/traits"), end="")
