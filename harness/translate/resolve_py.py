"""Translator for C13: the Python half of the name-resolution code (traits/has_traits.py, class HasTraits) as terms
of the deep-embedded language ResL (lean/TraitsVerif/Model/ResL.lean):

    __prefix_trait__, add_trait, remove_trait, trait, base_trait

Reads the source with `ast`.  Statements: if / return / raise <Exc>(...) / assignment to a local, to `d[k]`, to
`self.trait_added` / `del d[k]` / for <local> in <expr> / expression statements.  Expressions: locals, None / True /
False / int / short str constants, comparisons (== != is is-not < <= > >= in not-in), and / or / not, the slices
`x[:e]` and `x[e:]`, `d[k]`, the attributes `.__prefix_traits__` `.__dict__` `.type` `.handler`, calls of `len`,
`_clone_trait`, `self._trait`, `self._instance_traits`, `self.add_trait`, `self.remove_trait`.

Statements that only concern what the cluster does not model (static change handlers, `_items` / mapped companion
traits, normalisation of add_trait's `*trait` argument) are listed in GHOST with their exact `ast.unparse` text: a
statement whose text equals a pinned one is emitted as `Stmt.ghost i` (a no-op in the interpreter, justified by the
cluster's ASSUMPTIONS); any other statement that cannot be translated is emitted as `Stmt.opaque "<text>"`, on which
the interpreter is stuck - so an edit of a ghost statement, or a new statement, breaks the equality proofs."""
import ast
import os

TARGET = "ResolvePy.lean"

FUNCS = ["__prefix_trait__", "add_trait", "remove_trait", "trait", "base_trait"]
LEAN_FUN = {"__prefix_trait__": "prefix_trait", "add_trait": "add_trait", "remove_trait": "remove_trait",
            "trait": "trait_method", "base_trait": "base_trait"}

# (function, canonical text) of the ghost statements; the index in this list is the number of the `Stmt.ghost`.
# The texts are `ast.unparse` of the statement AFTER the canonical renaming (see `canonicalise`).
GHOST = [
    # __prefix_trait__ (p0 self, p1 name; l0 trait, l1 prefix_traits, l2 prefix, l3 cls, l4 handlers):
    # static handlers of the class (none in this cluster)
    ("__prefix_trait__", "l3 = p0.__class__"),
    ("__prefix_trait__", "l4 = [_get_method(l3, '_%s_changed' % p1), _get_method(l3, '_%s_fired' % p1)]"),
    ("__prefix_trait__", "_add_event_handlers(l0, l3, l4)"),
    ("__prefix_trait__", "l4.append(l1.get('@'))"),
    ("__prefix_trait__", "l4 = [l5 for l5 in l4 if l5 is not None]"),
    ("__prefix_trait__", "if len(l4) > 0:\n    l0 = _clone_trait(l0)\n    _add_notifiers(l0._notifiers(True), l4)"),
    # add_trait (p0 self, p1 name, p2 *trait; l0 handler, l1 old_trait, l2 itrait_dict, ...):
    # argument normalisation, companion traits, notifiers
    ("add_trait", "if len(p2) == 0:\n    raise ValueError('No trait definition was specified.')"),
    ("add_trait", "if len(p2) > 1:\n    p2 = Trait(*p2)\nelse:\n    p2 = trait_for(p2[0])"),
    ("add_trait", "l0 = p2.handler"),
    ("add_trait", "if l0 is not None:\n    if l0.has_items:\n        p0.add_trait(p1 + '_items', l0.items_event())\n"
                  "    if l0.is_mapped:\n        p0.add_trait(p1 + '_', mapped_trait_for(p2, p1))"),
    ("add_trait", "if l1 is not None:\n    l3 = l1._notifiers(False)\n    if l3 is not None:\n"
                  "        p2._notifiers(True).extend(l3)\nelse:\n    l4 = p0.__class__\n"
                  "    l5 = [_get_method(l4, '_%s_changed' % p1), _get_method(l4, '_%s_fired' % p1)]\n"
                  "    _add_event_handlers(p2, l4, l5)\n    l5.append(p0.__prefix_traits__.get('@'))\n"
                  "    l5 = [l6 for l6 in l5 if l6 is not None]\n    if len(l5) > 0:\n"
                  "        _add_notifiers(p2._notifiers(True), l5)"),
    # remove_trait (p0 self, p1 name; l0 trait, l1 handler, l2 itrait_dict): companion traits
    ("remove_trait", "l1 = l0.handler"),
    ("remove_trait", "if l1 is not None:\n    if l1.has_items:\n        p0.remove_trait(p1 + '_items')\n"
                     "    if l1.is_mapped:\n        p0.remove_trait(p1 + '_')"),
]

# Parameters and locals are *numbered* (p0, p1, ... by position; l0, l1, ... by the position of their first binding
# occurrence in the source), so that renaming a parameter or a local changes neither the emitted program nor the
# text a ghost statement is compared with.
NPARAMS, NLOCALS = 5, 8
VARS = dict([("p%d" % i, "p%d" % i) for i in range(NPARAMS)] + [("l%d" % i, "l%d" % i) for i in range(NLOCALS)])
GLOBALS = {"generic_trait": "(.trait genericTrait)", "any_trait": "(.trait anyTrait)"}
EXCS = {"AttributeError": ".attributeError", "SystemError": ".other", "ValueError": ".valueError",
        "TraitError": ".traitError", "KeyError": ".keyError", "TypeError": ".typeError"}
ATTRS = {"__prefix_traits__": "prefix_traits", "__dict__": "pydict", "type": "type", "handler": "handler"}
METHODS = {"_trait": "m_trait", "_instance_traits": "m_instance_traits", "add_trait": "m_add_trait",
           "remove_trait": "m_remove_trait"}
BUILTINS = {"len": "len", "_clone_trait": "clone_trait"}
CMP = {ast.Eq: "eq", ast.NotEq: "ne", ast.Is: "eq", ast.IsNot: "ne", ast.Lt: "lt", ast.LtE: "le", ast.Gt: "gt",
       ast.GtE: "ge"}


class Unreadable(Exception):
    pass


def lean_string(s):
    return '"' + s.replace("\\", "\\\\").replace('"', '\\"').replace("\n", " ") + '"'


def lean_list(items):
    return "[" + ", ".join(items) + "]"


def name_lit(s):
    if len(s) > 24 or any(c in "'\\\n" for c in s):
        raise Unreadable("string constant %r" % s)
    return "(.lit (.name [%s]))" % ", ".join("'%s'" % c for c in s)


def var(v):
    if v not in VARS:
        raise Unreadable("unknown name %r" % v)
    return VARS[v]


def expr(e):
    if isinstance(e, ast.Name):
        if e.id in GLOBALS:
            return "(.lit %s)" % GLOBALS[e.id]
        return "(.var .%s)" % var(e.id)
    if isinstance(e, ast.Constant):
        if e.value is None:
            return "(.lit .none)"
        if isinstance(e.value, bool):
            return "(.lit (.bool %s))" % ("true" if e.value else "false")
        if isinstance(e.value, int):
            return "(.lit (.int %d))" % e.value
        if isinstance(e.value, str):
            return name_lit(e.value)
        raise Unreadable("constant %r" % (e.value,))
    if isinstance(e, ast.UnaryOp) and isinstance(e.op, ast.USub) and isinstance(e.operand, ast.Constant) \
            and isinstance(e.operand.value, int):
        return "(.lit (.int (-%d)))" % e.operand.value
    if isinstance(e, ast.UnaryOp) and isinstance(e.op, ast.Not):
        return "(.not %s)" % expr(e.operand)
    if isinstance(e, ast.BoolOp):
        parts = [expr(v) for v in e.values]
        ctor = ".and" if isinstance(e.op, ast.And) else ".or"
        out = parts[-1]
        for p in reversed(parts[:-1]):
            out = "(%s %s %s)" % (ctor, p, out)
        return out
    if isinstance(e, ast.Compare) and len(e.ops) == 1:
        op, a, b = e.ops[0], expr(e.left), expr(e.comparators[0])
        if type(op) in CMP:
            return "(.call .%s [%s, %s])" % (CMP[type(op)], a, b)
        if isinstance(op, ast.In):
            return "(.call .contains [%s, %s])" % (b, a)
        if isinstance(op, ast.NotIn):
            return "(.not (.call .contains [%s, %s]))" % (b, a)
    if isinstance(e, ast.Subscript):
        v = expr(e.value)
        s = e.slice
        if isinstance(s, ast.Slice):
            if s.step is None and s.lower is None and s.upper is not None:
                return "(.call .slice_to [%s, %s])" % (v, expr(s.upper))
            if s.step is None and s.upper is None and s.lower is not None:
                return "(.call .slice_from [%s, %s])" % (v, expr(s.lower))
            raise Unreadable("slice %s" % ast.unparse(e))
        return "(.call .getitem [%s, %s])" % (v, expr(s))
    if isinstance(e, ast.Attribute):
        if e.attr in ATTRS:
            return "(.fld %s .%s)" % (expr(e.value), ATTRS[e.attr])
        raise Unreadable("attribute .%s" % e.attr)
    if isinstance(e, ast.Call) and not e.keywords:
        f = e.func
        args = [expr(a) for a in e.args]
        if isinstance(f, ast.Name) and f.id in BUILTINS:
            return "(.call .%s %s)" % (BUILTINS[f.id], lean_list(args))
        if isinstance(f, ast.Attribute) and isinstance(f.value, ast.Name) and f.value.id == "p0" \
                and f.attr in METHODS:
            return "(.call .%s %s)" % (METHODS[f.attr], lean_list(["(.var .p0)"] + args))
        raise Unreadable("call %s" % ast.unparse(f))
    raise Unreadable("expression %s" % ast.unparse(e))


def free_names(e):
    return {n.id for n in ast.walk(e) if isinstance(n, ast.Name)}


CURRENT = [None]          # the function being translated (ghost texts are per function)


def stmt(s):
    """-> list of Lean Stmt terms."""
    text = ast.unparse(s)
    if (CURRENT[0], text) in GHOST:
        return ["(.ghost %d)" % GHOST.index((CURRENT[0], text))]
    try:
        return stmt_inner(s)
    except Unreadable:
        return ["(.opaque %s)" % lean_string(text)]


def stmts(body):
    out = []
    for s in body:
        if isinstance(s, ast.Expr) and isinstance(s.value, ast.Constant) and isinstance(s.value.value, str):
            continue                                     # docstring
        out += stmt(s)
    return out


def stmt_inner(s):
    if isinstance(s, ast.If):
        return ["(.ite %s %s %s)" % (expr(s.test), lean_list(stmts(s.body)), lean_list(stmts(s.orelse)))]
    if isinstance(s, ast.Return):
        return ["(.ret %s)" % ("(.lit .none)" if s.value is None else expr(s.value))]
    if isinstance(s, ast.Raise) and s.cause is None and isinstance(s.exc, ast.Call) \
            and isinstance(s.exc.func, ast.Name) and s.exc.func.id in EXCS:
        return ["(.raise %s)" % EXCS[s.exc.func.id]]
    if isinstance(s, ast.For) and not s.orelse and isinstance(s.target, ast.Name):
        return ["(.forIn .%s %s %s)" % (var(s.target.id), expr(s.iter), lean_list(stmts(s.body)))]
    if isinstance(s, ast.Delete) and len(s.targets) == 1 and isinstance(s.targets[0], ast.Subscript) \
            and not isinstance(s.targets[0].slice, ast.Slice):
        t = s.targets[0]
        return ["(.expr (.call .delitem [%s, %s]))" % (expr(t.value), expr(t.slice))]
    if isinstance(s, ast.Expr):
        return ["(.expr %s)" % expr(s.value)]
    if isinstance(s, ast.Assign):
        names = [t for t in s.targets if isinstance(t, ast.Name)]
        others = [t for t in s.targets if not isinstance(t, ast.Name)]
        if len(names) > 1 or len(others) > 1:
            raise Unreadable("assignment targets")
        out = []
        if names:
            x = names[0].id
            out.append("(.expr (.asg .%s %s))" % (var(x), expr(s.value)))
            value = "(.var .%s)" % var(x)
            for t in others:                       # `d[k] = x = e` read as `x = e; d[k] = x`
                if x in free_names(t):
                    raise Unreadable("assignment order")
        else:
            value = expr(s.value)
        for t in others:
            if isinstance(t, ast.Subscript) and not isinstance(t.slice, ast.Slice):
                out.append("(.expr (.call .setitem [%s, %s, %s]))" % (expr(t.value), expr(t.slice), value))
            elif isinstance(t, ast.Attribute) and isinstance(t.value, ast.Name) and t.value.id == "p0" \
                    and t.attr == "trait_added":
                out.append("(.expr (.call .setattr_self [(.lit .traitAdded), %s]))" % value)
            else:
                raise Unreadable("assignment target")
        return out
    raise Unreadable("statement")


def canonicalise(fn):
    """Rename the parameters of `fn` to p0, p1, ... and every other name bound in it (assignment / for / comprehension
    / with / except targets) to l0, l1, ... in the order of the first binding occurrence; in place."""
    ps, _ = params_of(fn)
    mapping = {p: "p%d" % i for i, p in enumerate(ps)}
    stores = [n for n in ast.walk(fn) if isinstance(n, ast.Name) and isinstance(n.ctx, ast.Store)]
    for n in ast.walk(fn):
        if isinstance(n, (ast.FunctionDef, ast.Lambda, ast.Global, ast.Nonlocal, ast.ClassDef)) and n is not fn:
            raise Unreadable("%s: nested scope" % fn.name)
        if isinstance(n, ast.ExceptHandler) and n.name:
            raise Unreadable("%s: except ... as" % fn.name)
    k = 0
    for n in sorted(stores, key=lambda n: (n.lineno, n.col_offset)):
        if n.id not in mapping:
            mapping[n.id] = "l%d" % k
            k += 1
    for n in ast.walk(fn):
        if isinstance(n, ast.Name) and n.id in mapping:
            n.id = mapping[n.id]
        elif isinstance(n, ast.arg) and n.arg in mapping:
            n.arg = mapping[n.arg]
    return mapping


def find_method(tree, cls, name):
    for n in tree.body:
        if isinstance(n, ast.ClassDef) and n.name == cls:
            found = [m for m in n.body if isinstance(m, ast.FunctionDef) and m.name == name]
            if len(found) == 1:
                return found[0]
    raise Unreadable("method %s.%s not found (or defined twice)" % (cls, name))


def params_of(fn):
    a = fn.args
    if a.kwonlyargs or a.kwarg or a.posonlyargs:
        raise Unreadable("%s: signature" % fn.name)
    ps = [x.arg for x in a.args]
    if a.vararg is not None:
        ps.append(a.vararg.arg)
    defaults = [ast.unparse(d) for d in a.defaults]
    return ps, defaults


def emit(traits_dir):
    tree = ast.parse(open(os.path.join(traits_dir, "has_traits.py")).read())
    lines = ["/- GENERATED by harness/translate/resolve_py.py from the working tree - do not edit. -/",
             "import TraitsVerif.Model.ResL",
             "namespace TraitsVerif.Generated.ResolvePy",
             "open TraitsVerif TraitsVerif.Model.Resolve TraitsVerif.Model.ResL", ""]
    for name in FUNCS:
        fn = find_method(tree, "HasTraits", name)
        if fn.decorator_list:
            raise Unreadable("%s: decorated" % name)
        canonicalise(fn)
        CURRENT[0] = name
        ps, defaults = params_of(fn)
        lines.append("def %s : Fun :=" % LEAN_FUN[name])
        lines.append("  { params := [%s], py := true" % ", ".join("." + var(p) for p in ps))
        lines.append("    body := [")
        lines.append(",\n".join("      " + s for s in stmts(fn.body)))
        lines.append("    ] }")
        lines.append("def %s_defaults : List String := [%s]" % (LEAN_FUN[name], ", ".join(lean_string(d) for d in defaults)))
        lines.append("")
    lines += ["end TraitsVerif.Generated.ResolvePy"]
    return "\n".join(lines) + "\n"


if __name__ == "__main__":
    import sys
    print(emit(sys.argv[1] if len(sys.argv) > 1 else "/repo/traits"), end="")
