"""Translator: the SOURCE TEXT of the object-level methods of the trait-bound containers -> terms of
the PyLO language (Model/PyLObj.lean).

Translated, from traits/trait_list_object.py, trait_dict_object.py, trait_set_object.py of the working tree:
  * TraitListObject._item_validator, ._validate_length, .notifier
  * TraitDictObject._key_validator, ._value_validator, .notifier
  * TraitSetObject._validator, .notifier
These decide WHEN an item is validated (trait None / owner dead / inner validate None), when the length is
checked, and when the `<name>_items` event is delivered (trait None, name_items None, owner dead, the
`getattr(object, name) is not self` workaround) and from which arguments the event is built.
Emits Generated/ObjProg.lean.  Props/C04, C06, C07 prove that the hand-written gates of
Model/ContainerObject.lean are the interpretation of these terms for every state of `self`.

Purely syntactic, one PyLO constructor per Python construct, with three normalisations that preserve the
meaning: `a or b or c` is folded to the right; a comparison chain `a <= b <= c` whose middle operand is a plain
name becomes `(a <= b) and (b <= c)`; a bare `raise` inside `except E as x:` (whose body does not rebind `x`)
becomes `raise x`.  The message of `raise TraitError(<message>)` is not translated.  Fails closed (raises) on
anything else, in particular on calls of helper methods.
"""
import ast
import os
import sys

TARGET = "ObjProg.lean"

EXCS = {"ValueError": ".valueError", "IndexError": ".indexError", "TypeError": ".typeError",
        "KeyError": ".keyError", "TraitError": ".traitError", "AttributeError": ".attributeError"}

METHODS = [
    ("trait_list_object.py", "TraitListObject", [("_item_validator", "traitListObjectItemValidator"),
                                                 ("_validate_length", "traitListObjectValidateLength"),
                                                 ("notifier", "traitListObjectNotifier")]),
    ("trait_dict_object.py", "TraitDictObject", [("_key_validator", "traitDictObjectKeyValidator"),
                                                 ("_value_validator", "traitDictObjectValueValidator"),
                                                 ("notifier", "traitDictObjectNotifier")]),
    ("trait_set_object.py", "TraitSetObject", [("_validator", "traitSetObjectItemValidator"),
                                               ("notifier", "traitSetObjectNotifier")]),
]


class Unknown(Exception):
    pass


def is_name(n, s):
    return isinstance(n, ast.Name) and n.id == s


def is_none(n):
    return isinstance(n, ast.Constant) and n.value is None


def lean_str(s):
    return '"%s"' % s.replace("\\", "\\\\").replace('"', '\\"')


class Fn:
    def __init__(self, fn):
        self.fn = fn
        a = fn.args
        if a.kwarg or a.vararg or a.posonlyargs or a.kwonlyargs or a.defaults:
            raise Unknown("%s: parameter list" % fn.name)
        names = [x.arg for x in a.args]
        if not names or names[0] != "self":
            raise Unknown("%s: first parameter is not self" % fn.name)
        self.params = names[1:]
        self.slots = {n: i for i, n in enumerate(self.params)}
        self.handler_names = []

    def slot(self, name):
        if name == "self":
            raise Unknown("assignment to self")
        if name not in self.slots:
            self.slots[name] = len(self.slots)
        return self.slots[name]

    def ex(self, n):
        E = self.ex
        if isinstance(n, ast.Constant):
            if n.value is None:
                return ".noneLit"
            if isinstance(n.value, bool):
                return "(.boolLit %s)" % ("true" if n.value else "false")
            if isinstance(n.value, int):
                return "(.intLit %d)" % n.value
            raise Unknown("constant %r" % (n.value,))
        if isinstance(n, ast.Name):
            if n.id == "self":
                return ".self"
            if n.id in self.slots:
                return "(.var %d)" % self.slots[n.id]
            raise Unknown("name %s used before assignment" % n.id)
        if isinstance(n, ast.Lambda):
            a = n.args
            if (not (a.args or a.vararg or a.kwarg or a.kwonlyargs or a.posonlyargs)) and is_none(n.body):
                return ".lambdaNone"
            raise Unknown("lambda")
        if isinstance(n, ast.Attribute):
            if is_name(n.value, "self"):
                return "(.selfAttr %s)" % lean_str(n.attr)
            return "(.attr %s %s)" % (E(n.value), lean_str(n.attr))
        if isinstance(n, ast.Call):
            f = n.func
            if isinstance(f, ast.Name) and f.id.endswith("Event") and f.id not in self.slots:
                if n.args or not n.keywords or any(k.arg is None for k in n.keywords):
                    raise Unknown("event constructor call shape")
                kws = [(k.arg, E(k.value)) for k in n.keywords]
                if len(kws) not in (2, 3):
                    raise Unknown("event constructor with %d keywords" % len(kws))
                return "(.mkEvent%d %s %s)" % (len(kws), lean_str(f.id),
                                               " ".join("%s %s" % (lean_str(k), v) for k, v in kws))
            if n.keywords:
                raise Unknown("keyword arguments in %s" % ast.dump(n)[:60])
            if isinstance(f, ast.Name) and f.id not in self.slots:
                if f.id == "getattr" and len(n.args) == 3 and is_name(n.args[0], "self") \
                        and isinstance(n.args[1], ast.Constant) and isinstance(n.args[1].value, str):
                    return "(.getattrSelf %s %s)" % (lean_str(n.args[1].value), E(n.args[2]))
                if f.id == "getattr" and len(n.args) == 2:
                    return "(.getattrDyn %s %s)" % (E(n.args[0]), E(n.args[1]))
                if f.id == "hasattr" and len(n.args) == 2 and is_name(n.args[0], "self") \
                        and isinstance(n.args[1], ast.Constant) and isinstance(n.args[1].value, str):
                    return "(.hasattrSelf %s)" % lean_str(n.args[1].value)
                raise Unknown("call of %s" % f.id)
            if isinstance(f, ast.Attribute) and not is_name(f.value, "self") and len(n.args) == 0:
                return "(.method0 %s %s)" % (E(f.value), lean_str(f.attr))
            if isinstance(f, ast.Attribute) and is_name(f.value, "self") and f.attr in ("object",) and len(n.args) == 0:
                return "(.call0 (.selfAttr %s))" % lean_str(f.attr)
            if isinstance(f, ast.Attribute) and is_name(f.value, "self"):
                raise Unknown("call of the helper method self.%s" % f.attr)
            if len(n.args) == 0:
                return "(.call0 %s)" % E(f)
            if len(n.args) == 3:
                return "(.call3 %s %s %s %s)" % ((E(f),) + tuple(E(a) for a in n.args))
            raise Unknown("call %s" % ast.dump(n)[:80])
        if isinstance(n, ast.UnaryOp) and isinstance(n.op, ast.Not):
            return "(.not %s)" % E(n.operand)
        if isinstance(n, ast.BoolOp):
            c = ".or" if isinstance(n.op, ast.Or) else ".and"
            vals = [E(v) for v in n.values]
            r = vals[-1]
            for v in reversed(vals[:-1]):
                r = "(%s %s %s)" % (c, v, r)
            return r
        if isinstance(n, ast.Compare):
            if len(n.ops) == 1:
                a, b, op = n.left, n.comparators[0], n.ops[0]
                if isinstance(op, ast.Is):
                    return "(.isNone %s)" % E(a) if is_none(b) else "(.isSame %s %s)" % (E(a), E(b))
                if isinstance(op, ast.IsNot):
                    return "(.isNotNone %s)" % E(a) if is_none(b) else "(.isNotSame %s %s)" % (E(a), E(b))
                if isinstance(op, ast.LtE):
                    return "(.le %s %s)" % (E(a), E(b))
                raise Unknown("comparison %s" % type(op).__name__)
            if len(n.ops) == 2 and all(isinstance(o, ast.LtE) for o in n.ops) and isinstance(n.comparators[0], ast.Name):
                a, b, c = n.left, n.comparators[0], n.comparators[1]
                return "(.and (.le %s %s) (.le %s %s))" % (E(a), E(b), E(b), E(c))
            raise Unknown("comparison chain")
        raise Unknown("expression %s" % ast.dump(n)[:100])

    def st(self, s):
        if isinstance(s, ast.Pass):
            return []
        if isinstance(s, ast.Expr):
            v = s.value
            if isinstance(v, ast.Constant) and isinstance(v.value, str):
                return []
            if (isinstance(v, ast.Call) and isinstance(v.func, ast.Attribute) and v.func.attr == "set_prefix"
                    and isinstance(v.func.value, ast.Name) and v.func.value.id in self.slots and len(v.args) == 1
                    and isinstance(v.args[0], ast.Constant) and isinstance(v.args[0].value, str) and not v.keywords):
                return ["(.setPrefix %d)" % self.slots[v.func.value.id]]
            if (isinstance(v, ast.Call) and isinstance(v.func, ast.Attribute) and not is_name(v.func.value, "self")
                    and len(v.args) == 3 and not v.keywords):
                return ["(.send3 %s %s %s)" % (self.ex(v.func.value), lean_str(v.func.attr),
                                               " ".join(self.ex(a) for a in v.args))]
            raise Unknown("expression statement %s" % ast.dump(v)[:80])
        if isinstance(s, ast.Assign) and len(s.targets) == 1 and isinstance(s.targets[0], ast.Name):
            e = self.ex(s.value)
            if s.targets[0].id in self.handler_names:
                raise Unknown("assignment to the name bound by an except clause")
            return ["(.assign %d %s)" % (self.slot(s.targets[0].id), e)]
        if isinstance(s, ast.If):
            c = self.ex(s.test)
            return ["(.ifS %s %s %s)" % (c, self.block(s.body), self.block(s.orelse))]
        if isinstance(s, ast.Return):
            return ["(.ret %s)" % (".noneLit" if s.value is None else self.ex(s.value))]
        if isinstance(s, ast.Try):
            if (s.finalbody or s.orelse or len(s.handlers) != 1 or not isinstance(s.handlers[0].type, ast.Name)
                    or s.handlers[0].name is None or s.handlers[0].type.id not in EXCS):
                raise Unknown("try statement shape")
            b = self.block(s.body)
            i = self.slot(s.handlers[0].name)
            self.handler_names.append(s.handlers[0].name)
            h = self.block(s.handlers[0].body)
            self.handler_names.pop()
            return ["(.tryExcept %s %s %d %s)" % (b, EXCS[s.handlers[0].type.id], i, h)]
        if isinstance(s, ast.Raise):
            if s.cause is not None:
                raise Unknown("raise ... from")
            if s.exc is None:
                if not self.handler_names:
                    raise Unknown("bare raise outside an except clause")
                return ["(.raiseVar %d)" % self.slots[self.handler_names[-1]]]
            if isinstance(s.exc, ast.Name) and s.exc.id in self.slots:
                return ["(.raiseVar %d)" % self.slots[s.exc.id]]
            if isinstance(s.exc, ast.Call) and isinstance(s.exc.func, ast.Name) and s.exc.func.id in EXCS:
                return ["(.raiseNew %s)" % EXCS[s.exc.func.id]]
            raise Unknown("raise statement shape")
        raise Unknown("statement %s" % type(s).__name__)

    def block(self, stmts):
        out = []
        for s in stmts:
            out.extend(self.st(s))
        if not out:
            return ".skip"
        r = out[-1]
        for x in reversed(out[:-1]):
            r = "(.seq %s\n      %s)" % (x, r)
        return r

    def emit(self):
        body = self.block(self.fn.body)
        names = sorted(self.slots.items(), key=lambda kv: kv[1])
        comment = " ".join("%d=%s" % (i, n) for n, i in names)
        return ("  -- slots %s\n  { nparams := %d, nslots := %d, body :=\n      %s }"
                % (comment, len(self.params), len(self.slots), body))


def class_methods(tree, cname, fname):
    for n in tree.body:
        if isinstance(n, ast.ClassDef) and n.name == cname:
            out = {}
            for m in n.body:
                if isinstance(m, ast.FunctionDef):
                    if m.decorator_list:
                        raise Unknown("decorated method %s.%s" % (cname, m.name))
                    out[m.name] = m
                elif not isinstance(m, (ast.Expr, ast.Assign, ast.AnnAssign, ast.Pass)):
                    raise Unknown("statement %s in class body of %s" % (type(m).__name__, cname))
            return out
    raise Unknown("class %s not found in %s" % (cname, fname))


def emit(traits_dir):
    lines = ["/- GENERATED by harness/translate/pylobj.py from the working tree - do not edit. -/",
             "import TraitsVerif.Model.PyLObj",
             "namespace TraitsVerif.Generated.Obj",
             "open TraitsVerif TraitsVerif.Model.PyLO", ""]
    for fname, cname, wanted in METHODS:
        tree = ast.parse(open(os.path.join(traits_dir, fname)).read())
        ms = class_methods(tree, cname, fname)
        for m, dname in wanted:
            if m not in ms:
                raise Unknown("%s.%s not found" % (cname, m))
            lines += ["/-- `%s.%s` (%s) -/" % (cname, m, fname), "def %s : Func :=" % dname,
                      Fn(ms[m]).emit(), ""]
    lines.append("end TraitsVerif.Generated.Obj")
    return "\n".join(lines) + "\n"


if __name__ == "__main__":
    print(emit(sys.argv[1] if len(sys.argv) > 1 else "/repo/traits"), end="")
