"""Translator: the SOURCE TEXT of `HasTraits.sync_trait` (add path, remove path,
`mutual=`, reverse calls) and `HasTraits._is_list_trait` (traits/has_traits.py)
-> terms of the language of lean/TraitsVerif/Model/PyLLink.lean.

Read with `ast`.  Control flow (sequence, if/else, return) is translated
generically; the pure local bindings of `sync_trait` (`alias` normalisation,
`is_list`, `info`, `dic`, `key`, `callback`, `value`) are substituted into their
uses; every remaining condition / effect must be, textually after substitution,
one of the atoms of PyLLink.LCond / PyLLink.LAct.  The nested weak-reference
callback `_sync_trait_listener_deleted` is translated on its own into a PyLLink.CbStmt
(two snapshot loops, `key != ""`, `ref is value[0]`, `del dic[name]`, `len(dic) == 0`,
`del info[key]`); Props/C20 proves it is what Model.Sync.World.kill does to the
survivors' tables.  Anything else raises (fail closed).

Emits Generated/SyncLink.lean; Props/C20.lean proves (`C20_link_is_source`) that
the hand-written registration / removal functions of Model/SyncLive.lean are the
interpretation of these terms for every state.
"""
import ast
import copy
import os

TARGET = "SyncLink.lean"

BUILTINS = {"self", "object", "trait_name", "mutual", "remove", "id", "len", "any", "setattr", "getattr", "weakref",
            "None", "False", "True"}

LISTENER = '''
def _sync_trait_listener_deleted(ref, info):
    for key, dic in list(info.items()):
        if key != "":
            for name, value in list(dic.items()):
                if ref is value[0]:
                    del dic[name]
            if len(dic) == 0:
                del info[key]
'''


class Unknown(Exception):
    pass


class _Subst(ast.NodeTransformer):
    def __init__(self, env):
        self.env = env

    def visit_Name(self, node):
        v = self.env.get(node.id)
        if v is None:
            if node.id in BUILTINS:
                return node
            raise Unknown("unbound local %r" % node.id)
        return copy.deepcopy(v)

    def visit_Lambda(self, node):
        inner = dict(self.env)
        for a in node.args.args:
            inner[a.arg] = ast.Name(id=a.arg, ctx=ast.Load())
        node.body = _Subst(inner).visit(node.body)
        return node

    def visit_GeneratorExp(self, node):
        # comprehension variables are local to the generator
        inner = dict(self.env)
        for g in node.generators:
            for n in ast.walk(g.target):
                if isinstance(n, ast.Name):
                    inner[n.id] = ast.Name(id="GEN_" + n.id, ctx=ast.Load())
        sub = _Subst(inner)
        node.elt = sub.visit(node.elt)
        for g in node.generators:
            g.target = sub.visit(g.target)
            g.iter = _Subst(self.env).visit(g.iter)
            g.ifs = [sub.visit(i) for i in g.ifs]
        return node


def norm(node, env):
    n = _Subst(env).visit(copy.deepcopy(node))
    return ast.unparse(ast.fix_missing_locations(n))


def sym(text):
    return ast.parse(text, mode="eval").body


INFO = "self._get_sync_trait_info()"
ISLIST = "self._is_list_trait(trait_name) and object._is_list_trait(ALIAS)"
KEY = "(id(object), ALIAS)"
ANYLIST = ("any((GEN_other() is not None and GEN_other()._is_list_trait(GEN_other_alias) "
           "for GEN_other, GEN_other_alias in DIC.values()))")

ATOM_COND = {
    "remove": ".removeFlag",
    "mutual": ".mutualFlag",
    "DIC is not None": ".tableExists",
    "%s in DIC" % KEY: ".keyInTable",
    "len(DIC) == 0": ".tableEmpty",
    ISLIST: ".isList",
    ANYLIST: ".anyListPartner",
}

ATOM_ACT = {
    "del DIC[id(object), ALIAS]": ".delKey",
    "del %s[trait_name]" % INFO: ".delTable",
    "self._on_trait_change(self._sync_trait_modified, trait_name)": ".hookModified",
    "self._on_trait_change(self._sync_trait_modified, trait_name, remove=True)": ".unhookModified",
    "self._on_trait_change(self._sync_trait_items_modified, trait_name + '_items')": ".hookItems",
    "self._on_trait_change(self._sync_trait_items_modified, trait_name + '_items', remove=True)": ".unhookItems",
    "DIC[id(object), ALIAS] = VALUE": ".setKey",
    "setattr(object, ALIAS, getattr(self, trait_name))": ".assignPartner",
    "object.sync_trait(ALIAS, self, trait_name, False)": "(.reverse false)",
    "object.sync_trait(ALIAS, self, trait_name, False, True)": "(.reverse true)",
}

# pure right-hand sides (after substitution) and the symbol they are bound to
PURE = {
    INFO: None,
    ISLIST: None,
    KEY: None,
    "%s.get(trait_name)" % INFO: "DIC",              # remove path: the table, or None
    "%s.setdefault(trait_name, {})" % INFO: "DIC",   # add path: an empty table and no table are one state
    "lambda ref: LISTENER(ref, %s)" % INFO: "CALLBACK",
    "(weakref.ref(object, CALLBACK), ALIAS)": "VALUE",
}


def cond(node, env):
    t = norm(node, env)
    if t in ATOM_COND:
        return ATOM_COND[t]
    if isinstance(node, ast.UnaryOp) and isinstance(node.op, ast.Not):
        return "(.not %s)" % cond(node.operand, env)
    if isinstance(node, ast.BoolOp):
        k = ".or" if isinstance(node.op, ast.Or) else ".and"
        out = cond(node.values[-1], env)
        for v in reversed(node.values[:-1]):
            out = "(%s %s %s)" % (k, cond(v, env), out)
        return out
    if isinstance(node, ast.Compare) and len(node.ops) == 1 and isinstance(node.ops[0], ast.NotIn):
        pos = ast.Compare(left=node.left, ops=[ast.In()], comparators=node.comparators)
        return "(.not %s)" % cond(pos, env)
    if isinstance(node, ast.Compare) and len(node.ops) == 1 and isinstance(node.ops[0], ast.Is):
        # `x is None` = not (`x is not None`)
        pos = ast.Compare(left=node.left, ops=[ast.IsNot()], comparators=node.comparators)
        if norm(pos, env) in ATOM_COND:
            return "(.not %s)" % ATOM_COND[norm(pos, env)]
    raise Unknown("condition %r" % t)


def seq(items):
    items = [i for i in items if i is not None]
    if not items:
        return ".skip"
    out = items[-1]
    for i in reversed(items[:-1]):
        out = "(.seq %s %s)" % (i, out)
    return out


def block(stmts, env):
    return seq([stmt(s, env) for s in stmts])


def same_code(a, b):
    return ast.dump(a) == ast.dump(b)


def stmt(s, env):
    if isinstance(s, ast.Expr) and isinstance(s.value, ast.Constant) and isinstance(s.value.value, str):
        return None
    if isinstance(s, ast.Pass):
        return ".skip"
    if isinstance(s, ast.Return):
        if s.value is not None:
            raise Unknown("return with a value")
        return ".ret"
    if isinstance(s, ast.FunctionDef):
        # the weak-reference callback: translated on its own (CbStmt), see callback()
        if "LISTENER_DEF" in env:
            raise Unknown("second nested function %s" % s.name)
        env["LISTENER_DEF"] = s
        env[s.name] = sym("LISTENER")
        return None
    if isinstance(s, ast.If):
        # the alias normalisation
        if (ast.unparse(s.test) == "alias is None" and len(s.body) == 1 and not s.orelse
                and ast.unparse(s.body[0]) == "alias = trait_name" and "alias" not in env):
            env["alias"] = sym("ALIAS")
            return None
        return "(.ite %s %s %s)" % (cond(s.test, env), block(s.body, dict(env)), block(s.orelse, dict(env)))
    if isinstance(s, ast.Assign) and len(s.targets) == 1 and isinstance(s.targets[0], ast.Name):
        tgt = s.targets[0].id
        rhs = norm(s.value, env)
        if rhs in PURE:
            env[tgt] = sym(PURE[rhs] or rhs)
            return None
        raise Unknown("binding %s = %r" % (tgt, rhs))
    if isinstance(s, (ast.Assign, ast.Delete, ast.Expr)):
        t = norm(s, env)
        if t in ATOM_ACT:
            return "(.act %s)" % ATOM_ACT[t]
        raise Unknown("statement %r" % t)
    raise Unknown("statement kind %s" % type(s).__name__)


CB_COND = {
    "KEY != ''": ".keyNotLockTable",
    "REF is VALUE[0]": ".refIsEntry",
    "len(DIC) == 0": ".tableEmpty",
}


def cb_norm(node, env):
    class S(ast.NodeTransformer):
        def visit_Name(self, n):
            if n.id in env:
                return ast.Name(id=env[n.id], ctx=ast.Load())
            if n.id in ("list", "len"):
                return n
            raise Unknown("callback: unbound name %r" % n.id)
    return ast.unparse(ast.fix_missing_locations(S().visit(copy.deepcopy(node))))


def cb_block(stmts, env):
    return seq([cb_stmt(x, env) for x in stmts])


def cb_stmt(s, env):
    if isinstance(s, ast.Expr) and isinstance(s.value, ast.Constant) and isinstance(s.value.value, str):
        return None
    if isinstance(s, ast.Pass):
        return ".skip"
    if isinstance(s, ast.If):
        t = cb_norm(s.test, env)
        if t not in CB_COND:
            raise Unknown("callback: condition %r" % t)
        return "(.ite %s %s %s)" % (CB_COND[t], cb_block(s.body, dict(env)), cb_block(s.orelse, dict(env)))
    if isinstance(s, ast.For):
        if s.orelse:
            raise Unknown("callback: for/else")
        tg = s.target
        if not (isinstance(tg, ast.Tuple) and len(tg.elts) == 2 and all(isinstance(e, ast.Name) for e in tg.elts)):
            raise Unknown("callback: loop target %s" % ast.unparse(tg))
        it = cb_norm(s.iter, env)
        inner = dict(env)
        if it == "list(INFO.items())" and "KEY" not in env.values():
            inner[tg.elts[0].id], inner[tg.elts[1].id] = "KEY", "DIC"
            return "(.forTables %s)" % cb_block(s.body, inner)
        if it == "list(DIC.items())" and "NAME" not in env.values():
            inner[tg.elts[0].id], inner[tg.elts[1].id] = "NAME", "VALUE"
            return "(.forEntries %s)" % cb_block(s.body, inner)
        raise Unknown("callback: loop over %r" % it)
    if isinstance(s, ast.Delete):
        t = cb_norm(s, env)
        if t == "del DIC[NAME]":
            return ".delEntry"
        if t == "del INFO[KEY]":
            return ".delTable"
        raise Unknown("callback: statement %r" % t)
    raise Unknown("callback: statement kind %s" % type(s).__name__)


def callback(f):
    a = f.args
    if ([x.arg for x in a.args] != ["ref", "info"] or a.defaults or a.vararg or a.kwarg or a.kwonlyargs
            or f.decorator_list or f.name != "_sync_trait_listener_deleted"):
        raise Unknown("callback: unexpected signature")
    return cb_block(f.body, {"ref": "REF", "info": "INFO"})


def find_methods(tree, cls, names):
    for node in tree.body:
        if isinstance(node, ast.ClassDef) and node.name == cls:
            out = {}
            for f in node.body:
                if isinstance(f, ast.FunctionDef) and f.name in names:
                    if f.name in out:
                        raise Unknown("%s defined twice" % f.name)
                    out[f.name] = f
            return out
    raise Unknown("class %s not found" % cls)


def sync_trait(f):
    a = f.args
    got = [x.arg for x in a.args]
    dfl = [ast.unparse(d) for d in a.defaults]
    if (got != ["self", "trait_name", "object", "alias", "mutual", "remove"] or dfl != ["None", "True", "False"]
            or a.vararg or a.kwarg or a.kwonlyargs or a.posonlyargs or f.decorator_list):
        raise Unknown("sync_trait%s=%s: unexpected signature" % (got, dfl))
    env = {}
    out = block(f.body, env)
    if "alias" not in env:
        raise Unknown("alias is not normalised")
    if "LISTENER_DEF" not in env:
        raise Unknown("no weak-reference callback")
    return out, callback(env["LISTENER_DEF"])


def is_list_trait(f):
    a = f.args
    if [x.arg for x in a.args] != ["self", "trait_name"] or a.defaults or f.decorator_list:
        raise Unknown("_is_list_trait: unexpected signature")
    env = {}
    body = [s for s in f.body if not (isinstance(s, ast.Expr) and isinstance(s.value, ast.Constant))]
    ret = None
    for s in body:
        if isinstance(s, ast.Assign) and len(s.targets) == 1 and isinstance(s.targets[0], ast.Name):
            env[s.targets[0].id] = s.value
        elif isinstance(s, ast.Return) and s is body[-1]:
            ret = s.value
        else:
            raise Unknown("_is_list_trait: statement %s" % ast.unparse(s))
    if ret is None:
        raise Unknown("_is_list_trait: no return")

    class Sub(ast.NodeTransformer):
        def visit_Name(self, node):
            return copy.deepcopy(env[node.id]) if node.id in env else node
    atoms = {
        "self.base_trait(trait_name).handler is not None": ".handlerNotNone",
        "self.base_trait(trait_name).handler.default_value_type == DefaultValue.trait_list_object": ".handlerDvtIsList",
        "self.base_trait(trait_name).default_value()[0] == DefaultValue.trait_list_object": ".ctraitDvtIsList",
    }

    def expr(n):
        t = ast.unparse(ast.fix_missing_locations(Sub().visit(copy.deepcopy(n))))
        if t in atoms:
            return atoms[t]
        if isinstance(n, ast.BoolOp) and isinstance(n.op, ast.And):
            out = expr(n.values[-1])
            for v in reversed(n.values[:-1]):
                out = "(.and %s %s)" % (expr(v), out)
            return out
        raise Unknown("_is_list_trait: expression %r" % t)
    return expr(ret)


def emit(traits_dir):
    tree = ast.parse(open(os.path.join(traits_dir, "has_traits.py")).read())
    ms = find_methods(tree, "HasTraits", ("sync_trait", "_is_list_trait"))
    if len(ms) != 2:
        raise Unknown("methods not found: %s" % sorted(ms))
    return (
        "/- GENERATED by harness/translate/synclink.py from traits/has_traits.py\n"
        "   (HasTraits.sync_trait, HasTraits._is_list_trait). Do not edit. -/\n"
        "import TraitsVerif.Model.PyLLink\n"
        "namespace TraitsVerif.Generated.SyncLink\n"
        "open TraitsVerif.Model.PyLLink\n\n"
        "def syncTrait : LStmt :=\n  %s\n\n"
        "def listenerDeleted : CbStmt :=\n  %s\n\n"
        "def isListTrait : IsListExpr :=\n  %s\n\n"
        "end TraitsVerif.Generated.SyncLink\n" % (sync_trait(ms["sync_trait"]) + (is_list_trait(ms["_is_list_trait"]),)))


if __name__ == "__main__":
    import sys
    print(emit(sys.argv[1] if len(sys.argv) > 1 else "/repo/traits"))
