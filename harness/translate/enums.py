"""Translator: the enumerations of traits/constants.py and the flag / default-value
constants of traits/ctraits.c, as pure data (Generated/Enums.lean).

Read with `ast` and regular expressions only (nothing is imported from the tree
under translation).  Emits

  * ComparisonMode, DefaultValue, TraitKind, ValidateTrait members as (name, value)
    lists (DefaultValue members written as `traits.ctraits._X` are resolved through
    the `PyModule_AddIntConstant(module, "_X", X)` exports and the `#define X n`);
  * every `#define TRAIT_* / HASTRAITS_* / *_DEFAULT_VALUE / MAXIMUM_*` constant;
  * the `case n:` -> flag mapping of `_set_trait_comparison_mode` and the flag ->
    result mapping of `_get_trait_comparison_mode_int`;
  * the `case` labels of the `default_value_for` switch;
  * the first entries (one per TraitKind) of `getattr_handlers` / `setattr_handlers`;
  * the `clone_*_default_value` sets of trait_type.py.

Fails closed: a shape it does not recognise is emitted as a poisoned value of the
right type (`UNRECOGNISED …`, which no theorem in Props/C02, Props/C10 can match, so
the tie theorems stop checking and the check reports the broken proof obligation);
only a missing source file raises.
"""
import ast
import os
import re

TARGET = "Enums.lean"

ENUMS = ["TraitKind", "ValidateTrait", "ComparisonMode", "DefaultValue"]
CLONE_SETS = ["clone_copies_default_value", "clone_becomes_constant_default_value",
              "clone_no_override_default_value"]


def _defines(csrc):
    out = []
    for m in re.finditer(r"^#define[ \t]+([A-Z][A-Z0-9_]*)[ \t]+(0x[0-9A-Fa-f]+U?|\d+U?)[ \t]*$", csrc, flags=re.M):
        name, lit = m.group(1), m.group(2).rstrip("U")
        if not (name.startswith(("TRAIT_", "HASTRAITS_", "MAXIMUM_")) or name.endswith("_DEFAULT_VALUE")):
            continue
        out.append((name, int(lit, 16) if lit.lower().startswith("0x") else int(lit)))
    names = [n for n, _ in out]
    if len(set(names)) != len(names):
        raise ValueError("duplicate #define among %s" % names)
    for need in ("TRAIT_COMPARISON_MODE_MASK", "TRAIT_COMPARISON_MODE_NONE", "TRAIT_COMPARISON_MODE_IDENTITY",
                 "TRAIT_COMPARISON_MODE_EQUALITY", "TRAIT_SETATTR_ORIGINAL_VALUE",
                 "TRAIT_POST_SETATTR_ORIGINAL_VALUE", "HASTRAITS_NO_NOTIFY", "HASTRAITS_VETO_NOTIFY",
                 "CONSTANT_DEFAULT_VALUE", "DISALLOW_DEFAULT_VALUE", "MAXIMUM_DEFAULT_VALUE_TYPE"):
        if need not in names:
            raise ValueError("#define %s not found in ctraits.c" % need)
    return out


def _exports(csrc):
    """`PyModule_AddIntConstant(module, "_X", X)` -> {"_X": "X"}."""
    out = {}
    for m in re.finditer(r'PyModule_AddIntConstant\(\s*module,\s*"(\w+)",\s*(\w+)\s*\)', csrc):
        out[m.group(1)] = m.group(2)
    return out


def _function_body(csrc, name):
    m = re.search(r"^%s\([^)]*\)\s*\{" % re.escape(name), csrc, flags=re.M)
    if not m:
        raise ValueError("function %s not found in ctraits.c" % name)
    i = m.end()
    depth = 1
    while depth and i < len(csrc):
        c = csrc[i]
        if c == "{":
            depth += 1
        elif c == "}":
            depth -= 1
        i += 1
    if depth:
        raise ValueError("unbalanced braces in %s" % name)
    return csrc[m.end():i - 1]


def _enum_members(tree, cls_name, exports, defines):
    dv = dict(defines)
    for n in tree.body:
        if isinstance(n, ast.ClassDef) and n.name == cls_name:
            bases = [b.id for b in n.bases if isinstance(b, ast.Name)]
            if bases != ["IntEnum"]:
                raise ValueError("%s is not a plain IntEnum: %s" % (cls_name, bases))
            out = []
            for st in n.body:
                if isinstance(st, ast.Expr) and isinstance(st.value, ast.Constant) and isinstance(st.value.value, str):
                    continue  # docstring
                if not (isinstance(st, ast.Assign) and len(st.targets) == 1 and isinstance(st.targets[0], ast.Name)):
                    raise ValueError("unknown statement in enum %s: %s" % (cls_name, ast.dump(st)[:80]))
                v = st.value
                if isinstance(v, ast.Constant) and isinstance(v.value, int) and not isinstance(v.value, bool):
                    val = v.value
                elif (isinstance(v, ast.UnaryOp) and isinstance(v.op, ast.USub) and isinstance(v.operand, ast.Constant)
                      and isinstance(v.operand.value, int)):
                    val = -v.operand.value
                elif (isinstance(v, ast.Attribute) and isinstance(v.value, ast.Attribute)
                      and isinstance(v.value.value, ast.Name) and v.value.value.id == "traits"
                      and v.value.attr == "ctraits"):
                    cname = exports.get(v.attr)
                    if cname is None or cname not in dv:
                        raise ValueError("cannot resolve traits.ctraits.%s" % v.attr)
                    val = dv[cname]
                else:
                    raise ValueError("unknown enum value in %s.%s: %s" % (cls_name, st.targets[0].id, ast.dump(v)[:80]))
                out.append((st.targets[0].id, val))
            if not out:
                raise ValueError("enum %s has no members" % cls_name)
            return out
    raise ValueError("enum %s not found in constants.py" % cls_name)


def _clone_set(tree, name):
    for n in tree.body:
        if isinstance(n, ast.Assign) and len(n.targets) == 1 and isinstance(n.targets[0], ast.Name) \
                and n.targets[0].id == name:
            if not isinstance(n.value, ast.Set):
                raise ValueError("%s is not a set display" % name)
            out = []
            for e in n.value.elts:
                if not (isinstance(e, ast.Attribute) and isinstance(e.value, ast.Name) and e.value.id == "DefaultValue"):
                    raise ValueError("unknown element in %s: %s" % (name, ast.dump(e)[:80]))
                out.append(e.attr)
            return out
    raise ValueError("%s not found in trait_type.py" % name)


def _pairs(xs, neg=False):
    return "[" + ", ".join('("%s", %s)' % (a, ("(%d)" % b) if b < 0 else b) for a, b in xs) + "]"


def _strs(xs):
    return "[" + ", ".join('"%s"' % x for x in xs) + "]"


class _Section:
    """Runs one extraction; on ValueError emits a poisoned definition instead."""

    def __init__(self, out):
        self.out = out
        self.errors = []

    def add(self, fn, fallback):
        try:
            self.out.extend(fn())
        except (ValueError, KeyError, IndexError, AttributeError) as e:
            self.errors.append(str(e))
            msg = "UNRECOGNISED " + re.sub(r'[^A-Za-z0-9_ .:=(),-]', " ", str(e))[:120]
            self.out.append("/- translator: %s -/" % msg)
            self.out.extend(l.replace("@MSG@", msg) for l in fallback)


def emit(traits_dir):
    return _emit(traits_dir)[0]


def _emit(traits_dir):
    csrc = open(os.path.join(traits_dir, "ctraits.c")).read()
    consts = ast.parse(open(os.path.join(traits_dir, "constants.py")).read())
    ttype = ast.parse(open(os.path.join(traits_dir, "trait_type.py")).read())
    L = ["/- GENERATED by harness/translate/enums.py from the working tree - do not edit. -/",
         "namespace TraitsVerif.Generated", ""]
    S = _Section(L)
    exports = _exports(csrc)
    try:
        defines = _defines(csrc)
    except ValueError as e:
        # without the constants nothing downstream can be stated: poison every constant the models use
        S.errors.append(str(e))
        defines = []
        L.append("/- translator: UNRECOGNISED #define block: %s -/" % re.sub(r"[^A-Za-z0-9_ ]", " ", str(e))[:100])
        for i, n in enumerate(["HASTRAITS_NO_NOTIFY", "HASTRAITS_VETO_NOTIFY", "TRAIT_SETATTR_ORIGINAL_VALUE",
                               "TRAIT_POST_SETATTR_ORIGINAL_VALUE", "TRAIT_COMPARISON_MODE_MASK",
                               "TRAIT_COMPARISON_MODE_NONE", "TRAIT_COMPARISON_MODE_IDENTITY",
                               "TRAIT_COMPARISON_MODE_EQUALITY", "CONSTANT_DEFAULT_VALUE", "MISSING_DEFAULT_VALUE",
                               "OBJECT_DEFAULT_VALUE", "LIST_COPY_DEFAULT_VALUE", "DICT_COPY_DEFAULT_VALUE",
                               "TRAIT_LIST_OBJECT_DEFAULT_VALUE", "TRAIT_DICT_OBJECT_DEFAULT_VALUE",
                               "CALLABLE_AND_ARGS_DEFAULT_VALUE", "CALLABLE_DEFAULT_VALUE",
                               "TRAIT_SET_OBJECT_DEFAULT_VALUE", "DISALLOW_DEFAULT_VALUE"]):
            L.append("def %s : Nat := %d" % (n, 7777000 + i))
    L.append("/-- `#define` constants of ctraits.c (flags, default-value types, maxima). -/")
    for name, val in defines:
        L.append("def %s : Nat := %d" % (name, val))
    L.append("def cDefines : List (String × Nat) := %s" % _pairs(defines))
    L.append("")
    for e in ENUMS:
        def members(e=e):
            mem = _enum_members(consts, e, exports, defines)
            return ["/-- members of `traits.constants.%s` -/" % e,
                    "def %sMembers : List (String × Int) := %s" % (e[0].lower() + e[1:], _pairs(mem))]
        S.add(members, ['def %sMembers : List (String × Int) := [("@MSG@", 0)]' % (e[0].lower() + e[1:])])
    L.append("")

    def set_cases():
        body = _function_body(csrc, "_set_trait_comparison_mode")
        cases = re.findall(r"case\s+(\d+):\s*trait->flags\s*&=\s*~TRAIT_COMPARISON_MODE_MASK;\s*"
                           r"trait->flags\s*\|=\s*(TRAIT_COMPARISON_MODE_\w+);\s*break;", body)
        if len(cases) != len(re.findall(r"\bcase\b", body)) or not cases:
            raise ValueError("unknown shape of _set_trait_comparison_mode")
        return ["/-- `_set_trait_comparison_mode`: ComparisonMode value -> flag stored under the mask -/",
                "def comparisonModeSetCases : List (Nat × String) := [%s]" % ", ".join('(%s, "%s")' % c for c in cases)]
    S.add(set_cases, ['def comparisonModeSetCases : List (Nat × String) := [(0, "@MSG@")]'])

    def get_cases():
        body = _function_body(csrc, "_get_trait_comparison_mode_int")
        gets = re.findall(r"compare_flag\s*==\s*(TRAIT_COMPARISON_MODE_\w+)\)\s*\{\s*i_comparison_mode\s*=\s*(\d+);", body)
        tail = re.findall(r"else\s*\{\s*assert\(compare_flag\s*==\s*(TRAIT_COMPARISON_MODE_\w+)\);\s*"
                          r"i_comparison_mode\s*=\s*(\d+);", body)
        if len(gets) != 2 or len(tail) != 1:
            raise ValueError("unknown shape of _get_trait_comparison_mode_int")
        return ["/-- `_get_trait_comparison_mode_int`: tested flag -> result; last entry is the `else` branch -/",
                "def comparisonModeGetCases : List (String × Nat) := [%s]" % ", ".join(
                    '("%s", %s)' % c for c in gets + tail)]
    S.add(get_cases, ['def comparisonModeGetCases : List (String × Nat) := [("@MSG@", 0)]'])

    def seed():
        body = _function_body(csrc, "setattr_trait")
        seed = re.findall(r"changed\s*=\s*\(traitd->flags\s*&\s*(\w+)\);", body)
        if len(seed) != 1:
            raise ValueError("setattr_trait: changed = (traitd->flags & X) not found exactly once")
        return ["/-- flag `setattr_trait` seeds `changed` from -/",
                'def setattrChangedSeedFlag : String := "%s"' % seed[0]]
    S.add(seed, ['def setattrChangedSeedFlag : String := "@MSG@"'])

    def idcmp():
        body = _function_body(csrc, "setattr_trait")
        cmps = re.findall(r"changed\s*=\s*\((\w+)\s*!=\s*(\w+)\);", body)
        if len(cmps) != 2:
            raise ValueError("setattr_trait: expected two identity comparisons, found %d" % len(cmps))
        return ["/-- the two identity comparisons of `setattr_trait` (delete path, assignment path) -/",
                "def setattrIdentityComparisons : List (String × String) := [%s]" % ", ".join(
                    '("%s", "%s")' % c for c in cmps)]
    S.add(idcmp, ['def setattrIdentityComparisons : List (String × String) := [("@MSG@", "")]'])

    def dvf():
        body = _function_body(csrc, "default_value_for")
        labels = re.findall(r"case\s+(\w+):", body)
        if not labels or "default:" in body:
            raise ValueError("unknown shape of default_value_for")
        return ["/-- `case` labels of the `default_value_for` switch, in source order -/",
                "def defaultValueForCases : List String := %s" % _strs(labels)]
    S.add(dvf, ['def defaultValueForCases : List String := ["@MSG@"]'])

    for tab in ("getattr_handlers", "setattr_handlers"):
        def table(tab=tab):
            nk = len(_enum_members(consts, "TraitKind", exports, defines))
            m = re.search(r"static\s+trait_\w+\s+%s\[\]\s*=\s*\{(.*?)\};" % tab, csrc, flags=re.S)
            if not m:
                raise ValueError("%s not found" % tab)
            ents = [x.strip() for x in re.sub(r"/\*.*?\*/", "", m.group(1), flags=re.S).split(",") if x.strip()]
            if len(ents) < nk:
                raise ValueError("%s shorter than TraitKind" % tab)
            return ["/-- `%s[kind]` for kind = 0..%d -/" % (tab, nk - 1),
                    "def %sByKind : List String := %s" % (tab.split("_")[0], _strs(ents[:nk]))]
        S.add(table, ['def %sByKind : List String := ["@MSG@"]' % tab.split("_")[0]])
    L.append("")
    for s in CLONE_SETS:
        parts = s.split("_")
        lean = parts[0] + "".join(p.capitalize() for p in parts[1:])

        def cs(s=s, lean=lean):
            return ["/-- `traits.trait_type.%s` -/" % s,
                    "def %s : List String := %s" % (lean, _strs(_clone_set(ttype, s)))]
        S.add(cs, ['def %s : List String := ["@MSG@"]' % lean])
    L += ["", "end TraitsVerif.Generated"]
    return "\n".join(L) + "\n", S.errors


if __name__ == "__main__":
    import sys
    print(emit(sys.argv[1] if len(sys.argv) > 1 else "/repo/traits"), end="")
