"""Translator: the COMPILER of the observe mini-language -> Generated/DslProg.lean.

Reads with Python's `ast` the source text of

  traits/observation/parsing.py        the _handle_* functions, _handle_tree (dispatch dict), parse, compile_str
  traits/observation/expression.py     ObserverExpression (__or__, then, match, anytrait, metadata, dict_items,
                                       list_items, set_items, trait, _as_graphs, _create_graphs),
                                       Single/Series/ParallelObserverExpression (__init__, _create_graphs),
                                       dict_items, list_items, match, anytrait, metadata, set_items, trait, compile_expr
  traits/observation/_observer_graph.py                ObserverGraph.__init__
  _named_trait_observer.py, _list_item_observer.py, _dict_item_observer.py, _set_item_observer.py,
  _filtered_trait_observer.py, _metadata_filter.py     __init__ of the observer / filter classes

and writes them as a term `dslProg : Prog` of the deep-embedded language of
lean/TraitsVerif/Model/DslPy.lean.  Statement for statement, expression for
expression: nothing is evaluated or simplified here.  Names are resolved
statically (parameter/local, function or class of the module, imported class,
`expression_module.<f>`, builtin).  What the subset does not cover - any other
statement or expression form, *args/**kwargs, decorators other than
lru_cache(...), a local that shadows a global, an import that moved - raises:
the translator fails closed and the proof obligations break.

Not translated here: __eq__/__hash__ of the classes (translate/eqrows.py reads them as rows), __repr__,
exception messages (the argument of `raise X(...)` is dropped), docstrings.
"""
import ast
import os

TARGET = "DslProg.lean"

OBS = "observation"

# module key -> (file, functions to translate, {class: methods to translate})
EXPR_METHODS = ["__or__", "then", "match", "anytrait", "metadata", "dict_items", "list_items", "set_items", "trait",
                "_as_graphs", "_create_graphs"]
MODULES = [
    ("parsing", "parsing.py",
     ["_handle_series", "_handle_parallel", "_handle_trait", "_handle_anytrait", "_handle_metadata", "_handle_items",
      "_handle_tree", "parse", "compile_str"], {}),
    ("expression", "expression.py",
     ["join", "dict_items", "list_items", "match", "anytrait", "metadata", "set_items", "trait", "compile_expr"],
     {"ObserverExpression": EXPR_METHODS,
      "SingleObserverExpression": ["__init__", "_create_graphs"],
      "SeriesObserverExpression": ["__init__", "_create_graphs"],
      "ParallelObserverExpression": ["__init__", "_create_graphs"]}),
    ("_observer_graph", "_observer_graph.py", [], {"ObserverGraph": ["__init__"]}),
    ("_named_trait_observer", "_named_trait_observer.py", [], {"NamedTraitObserver": ["__init__"]}),
    ("_list_item_observer", "_list_item_observer.py", [], {"ListItemObserver": ["__init__"]}),
    ("_dict_item_observer", "_dict_item_observer.py", [], {"DictItemObserver": ["__init__"]}),
    ("_set_item_observer", "_set_item_observer.py", [], {"SetItemObserver": ["__init__"]}),
    ("_filtered_trait_observer", "_filtered_trait_observer.py", [], {"FilteredTraitObserver": ["__init__"]}),
    ("_metadata_filter", "_metadata_filter.py", [], {"MetadataFilter": ["__init__"]}),
]
# class -> module that must define it (an import of the class from anywhere else is refused)
CLASS_HOME = {c: key for key, _, _, classes in MODULES for c in classes}
# methods that a subclass must not override silently: every class's own definitions of these are translated
BUILTINS = {"list", "len", "set", "dict"}
EXCEPTIONS = {"ValueError", "NotImplementedError", "KeyError", "TypeError", "LarkError"}


class Unsupported(ValueError):
    pass


def _s(x):
    out = ['"']
    for ch in x:
        if ch == "\\":
            out.append("\\\\")
        elif ch == '"':
            out.append('\\"')
        elif ch == "\n":
            out.append("\\n")
        elif 32 <= ord(ch) < 127:
            out.append(ch)
        else:
            raise Unsupported("non-printable character in a string constant: %r" % x)
    return "".join(out) + '"'


class Module:
    def __init__(self, key, path):
        self.key = key
        self.path = path
        self.tree = ast.parse(open(path, encoding="utf-8").read(), path)
        self.funcs, self.classes = {}, {}
        self.imported_classes = {}     # local name -> class name
        self.module_aliases = {}       # local name -> module key
        self.prims = {}                # local name -> prim
        self.lark_parser = None
        for node in self.tree.body:
            if isinstance(node, ast.FunctionDef):
                self.funcs[node.name] = node
            elif isinstance(node, ast.ClassDef):
                self.classes[node.name] = node
            elif isinstance(node, ast.ImportFrom):
                for a in node.names:
                    local = a.asname or a.name
                    mod = (node.module or "")
                    if a.name in CLASS_HOME:
                        if mod != "traits.%s.%s" % (OBS, CLASS_HOME[a.name]):
                            raise Unsupported("%s: class %s imported from %s" % (key, a.name, mod))
                        if local != a.name:
                            raise Unsupported("%s: class %s imported under another name" % (key, a.name))
                        self.imported_classes[local] = a.name
                    elif a.name == "anytrait_filter":
                        if mod != "traits.%s._anytrait_filter" % OBS or local != a.name:
                            raise Unsupported("%s: anytrait_filter imported from %s" % (key, mod))
                        self.prims[local] = "anytrait_filter"
                    elif mod == "traits.%s" % OBS and a.name == "_generated_parser":
                        self.module_aliases[local] = "_generated_parser"
                    elif mod == "functools" and a.name == "lru_cache":
                        self.module_aliases[local] = "functools.lru_cache"
            elif isinstance(node, ast.Import):
                for a in node.names:
                    if a.name == "traits.%s.expression" % OBS and a.asname:
                        self.module_aliases[a.asname] = "expression"
                    elif a.name == "functools" and not a.asname:
                        self.module_aliases["functools"] = "functools"
            elif isinstance(node, ast.Assign):
                # _LARK_PARSER = _generated_parser.Lark_StandAlone()
                if (len(node.targets) == 1 and isinstance(node.targets[0], ast.Name)
                        and isinstance(node.value, ast.Call) and not node.value.args and not node.value.keywords
                        and isinstance(node.value.func, ast.Attribute) and node.value.func.attr == "Lark_StandAlone"
                        and isinstance(node.value.func.value, ast.Name)
                        and self.module_aliases.get(node.value.func.value.id) == "_generated_parser"):
                    self.lark_parser = node.targets[0].id


class FuncTranslator:
    def __init__(self, mod, mods, node, where):
        self.mod, self.mods, self.node, self.where = mod, mods, node, where
        self.locals = set()
        a = node.args
        if a.kwarg or a.posonlyargs:
            raise Unsupported("%s: **kwargs / positional-only parameters" % where)
        for p in a.args + a.kwonlyargs + ([a.vararg] if a.vararg else []):
            self.locals.add(p.arg)
        for n in ast.walk(node):
            if isinstance(n, ast.Name) and isinstance(n.ctx, ast.Store):
                self.locals.add(n.id)
            elif isinstance(n, ast.ExceptHandler) and n.name:
                self.locals.add(n.name)
            elif isinstance(n, ast.Lambda):
                la = n.args
                if len(la.args) != 2 or la.vararg or la.kwarg or la.kwonlyargs or la.defaults or la.posonlyargs:
                    raise Unsupported("%s: lambda that is not `lambda x, y: ...`" % where)
                if {p.arg for p in la.args} & self.locals:
                    raise Unsupported("%s: lambda parameter shadows a local" % where)
            elif isinstance(n, (ast.ListComp, ast.GeneratorExp, ast.SetComp, ast.DictComp, ast.Global,
                                ast.Nonlocal, ast.FunctionDef, ast.ClassDef)) and n is not node:
                raise Unsupported("%s: nested scope" % where)
        for x in self.locals:
            if x in BUILTINS or x in mod.funcs or x in mod.classes or x in mod.imported_classes \
                    or x in mod.module_aliases or x in mod.prims:
                raise Unsupported("%s: local %s shadows a global" % (where, x))

    def bad(self, node, what):
        raise Unsupported("%s:%d: %s (%s)" % (self.where, getattr(node, "lineno", 0), what, type(node).__name__))

    # ---- signature
    def params(self):
        a = self.node.args
        out = []
        ndef = len(a.defaults)
        npos = len(a.args)
        for i, p in enumerate(a.args):
            d = a.defaults[i - (npos - ndef)] if i >= npos - ndef else None
            out.append((p.arg, False, d))
        for p, d in zip(a.kwonlyargs, a.kw_defaults):
            out.append((p.arg, True, d))
        res = []
        for name, kwonly, d in out:
            if d is not None and not (isinstance(d, ast.Constant) and (d.value is None or isinstance(d.value, (bool, str)))):
                self.bad(d, "default that is not a constant")
            res.append("⟨%s, %s, %s⟩" % (_s(name), "true" if kwonly else "false",
                                         "none" if d is None else "some " + self.expr(d)))
        return "[" + ", ".join(res) + "]"

    # ---- expressions
    def expr(self, e):
        if isinstance(e, ast.Constant):
            if e.value is None:
                return ".cNone"
            if e.value is True or e.value is False:
                return "(.cBool %s)" % ("true" if e.value else "false")
            if isinstance(e.value, str):
                return "(.cStr %s)" % _s(e.value)
            self.bad(e, "constant %r" % (e.value,))
        if isinstance(e, ast.Name):
            if not isinstance(e.ctx, ast.Load):
                self.bad(e, "store context")
            x = e.id
            if x in self.locals:
                return "(.name %s)" % _s(x)
            if x in self.mod.funcs:
                return "(.glob %s)" % _s(self.mod.key + "." + x)
            if x in self.mod.classes:
                if x not in CLASS_HOME or CLASS_HOME[x] != self.mod.key:
                    self.bad(e, "class %s is not translated" % x)
                return "(.cls %s)" % _s(x)
            if x in self.mod.imported_classes:
                return "(.cls %s)" % _s(self.mod.imported_classes[x])
            if x in self.mod.prims:
                return "(.prim %s)" % _s(self.mod.prims[x])
            if x in BUILTINS:
                return "(.builtin %s)" % _s(x)
            self.bad(e, "unresolved name %s" % x)
        if isinstance(e, ast.Attribute):
            if isinstance(e.value, ast.Name) and e.value.id not in self.locals:
                base = e.value.id
                alias = self.mod.module_aliases.get(base)
                if alias == "functools" and e.attr == "reduce":
                    return "(.builtin \"functools.reduce\")"
                if alias is not None:
                    if alias not in self.mods:
                        self.bad(e, "attribute of module %s" % alias)
                    m = self.mods[alias]
                    if e.attr in m.funcs:
                        return "(.glob %s)" % _s(alias + "." + e.attr)
                    if e.attr in m.classes and CLASS_HOME.get(e.attr) == alias:
                        return "(.cls %s)" % _s(e.attr)
                    self.bad(e, "%s.%s is not a translated function or class" % (alias, e.attr))
                if base == self.mod.lark_parser and base is not None:
                    if e.attr != "parse":
                        self.bad(e, "attribute of the parser other than parse")
                    return "(.prim \"lark_parser.parse\")"
            return "(.attr %s %s)" % (self.expr(e.value), _s(e.attr))
        if isinstance(e, ast.Compare):
            if len(e.ops) != 1:
                self.bad(e, "chained comparison")
            op, a, b = e.ops[0], e.left, e.comparators[0]
            if isinstance(op, ast.Eq):
                return "(.eq %s %s)" % (self.expr(a), self.expr(b))
            if isinstance(op, ast.NotEq):
                return "(.ne %s %s)" % (self.expr(a), self.expr(b))
            if isinstance(op, ast.IsNot) and isinstance(b, ast.Constant) and b.value is None:
                return "(.isNotNone %s)" % self.expr(a)
            self.bad(e, "comparison operator")
        if isinstance(e, ast.BoolOp):
            if not isinstance(e.op, ast.And):
                self.bad(e, "or")
            out = self.expr(e.values[-1])
            for v in reversed(e.values[:-1]):
                out = "(.and %s %s)" % (self.expr(v), out)
            return out
        if isinstance(e, ast.IfExp):
            return "(.ifExp %s %s %s)" % (self.expr(e.test), self.expr(e.body), self.expr(e.orelse))
        if isinstance(e, ast.BinOp):
            if isinstance(e.op, ast.BitOr):
                return "(.bitor %s %s)" % (self.expr(e.left), self.expr(e.right))
            if isinstance(e.op, ast.Add):
                return "(.add %s %s)" % (self.expr(e.left), self.expr(e.right))
            self.bad(e, "binary operator")
        if isinstance(e, ast.Call):
            return "(.call %s %s)" % (self.expr(e.func), self.args(e.args, e.keywords))
        if isinstance(e, ast.Subscript):
            if isinstance(e.slice, ast.Slice) or not isinstance(e.ctx, ast.Load):
                self.bad(e, "slice / store subscript")
            return "(.subscript %s %s)" % (self.expr(e.value), self.expr(e.slice))
        if isinstance(e, ast.Lambda):
            x, y = [p.arg for p in e.args.args]
            # the body may only mention its own parameters and globals: no closure over locals
            for n in ast.walk(e.body):
                if isinstance(n, ast.Name) and n.id in self.locals:
                    self.bad(e, "lambda refers to the local %s" % n.id)
                if isinstance(n, ast.Lambda):
                    self.bad(e, "nested lambda")
            if x == y or any(v in BUILTINS or v in self.mod.funcs or v in self.mod.classes
                             or v in self.mod.imported_classes or v in self.mod.module_aliases
                             or v in self.mod.prims for v in (x, y)):
                self.bad(e, "lambda parameter shadows a global")
            saved = self.locals
            self.locals = {x, y}
            try:
                body = self.expr(e.body)
            finally:
                self.locals = saved
            return "(.lam2 %s %s %s)" % (_s(x), _s(y), body)
        if isinstance(e, ast.Dict):
            kws = []
            for k, v in zip(e.keys, e.values):
                if not (isinstance(k, ast.Constant) and isinstance(k.value, str)):
                    self.bad(e, "dict key that is not a string constant")
                kws.append(ast.keyword(arg=k.value, value=v))
            if len({k.arg for k in kws}) != len(kws):
                self.bad(e, "duplicate dict key")
            return "(.dict %s)" % self.args([], kws)
        if isinstance(e, ast.List):
            if not isinstance(e.ctx, ast.Load):
                self.bad(e, "store context")
            return "(.list %s)" % self.args(e.elts, [])
        self.bad(e, "expression form")

    def args(self, pos, kws):
        # positional arguments are evaluated before keyword arguments, both left to right
        out = ".nil"
        for k in reversed(kws):
            if k.arg is None:
                self.bad(k, "**kwargs")
            out = "(.kw %s %s %s)" % (_s(k.arg), self.expr(k.value), out)
        for a in reversed(pos):
            if isinstance(a, ast.Starred):
                self.bad(a, "*args")
            out = "(.pos %s %s)" % (self.expr(a), out)
        return out

    # ---- statements
    def exc_name(self, e):
        """`X(...)` / `X` / `mod.X` of a raise or except clause -> exception name (arguments dropped)."""
        if isinstance(e, ast.Call):
            e = e.func
        if isinstance(e, ast.Name) and e.id in EXCEPTIONS and e.id not in self.locals:
            return e.id
        if isinstance(e, ast.Attribute) and isinstance(e.value, ast.Name) \
                and self.mod.module_aliases.get(e.value.id) == "_generated_parser" and e.attr == "LarkError":
            return "LarkError"
        self.bad(e, "exception class")

    def stmts(self, body, top=False):
        out = []
        for i, st in enumerate(body):
            if isinstance(st, ast.Expr) and isinstance(st.value, ast.Constant) and isinstance(st.value.value, str):
                if top and i == 0:
                    continue       # docstring
                self.bad(st, "string statement")
            if isinstance(st, ast.Assign):
                if len(st.targets) != 1:
                    self.bad(st, "chained assignment")
                t = st.targets[0]
                if isinstance(t, ast.Name):
                    out.append("(.assign %s %s)" % (_s(t.id), self.expr(st.value)))
                elif isinstance(t, ast.Tuple) and all(isinstance(x, ast.Name) for x in t.elts):
                    names = [x.id for x in t.elts]
                    if len(set(names)) != len(names):
                        self.bad(st, "repeated unpack target")
                    out.append("(.unpack [%s] %s)" % (", ".join(_s(x) for x in names), self.expr(st.value)))
                elif isinstance(t, ast.Attribute) and isinstance(t.value, ast.Name) and t.value.id == "self" \
                        and self.node.args.args and self.node.args.args[0].arg == "self":
                    out.append("(.setattr %s %s)" % (_s(t.attr), self.expr(st.value)))
                else:
                    self.bad(st, "assignment target")
            elif isinstance(st, ast.If):
                if st.orelse or len(st.body) != 1 or not isinstance(st.body[0], ast.Raise):
                    self.bad(st, "if other than `if c: raise X(...)`")
                r = st.body[0]
                if r.cause is not None or r.exc is None:
                    self.bad(r, "raise form")
                out.append("(.ifRaise %s %s)" % (self.expr(st.test), _s(self.exc_name(r.exc))))
            elif isinstance(st, ast.Raise):
                if st.cause is not None or st.exc is None:
                    self.bad(st, "raise form")
                out.append("(.ifRaise (.cBool true) %s)" % _s(self.exc_name(st.exc)))
                if i != len(body) - 1:
                    self.bad(st, "statements after raise")
            elif isinstance(st, ast.Try):
                if st.orelse or st.finalbody or len(st.handlers) != 1 or len(st.body) != 1:
                    self.bad(st, "try form")
                b, h = st.body[0], st.handlers[0]
                if not (isinstance(b, ast.Assign) and len(b.targets) == 1 and isinstance(b.targets[0], ast.Name)):
                    self.bad(b, "try body")
                if h.type is None or len(h.body) != 1 or not isinstance(h.body[0], ast.Raise) \
                        or h.body[0].exc is None:
                    self.bad(h, "except form")
                r = h.body[0]
                if r.cause is not None and not (isinstance(r.cause, ast.Name) and r.cause.id == h.name):
                    self.bad(r, "raise ... from")
                out.append("(.tryAssign %s %s %s %s)" % (_s(b.targets[0].id), self.expr(b.value),
                                                         _s(self.exc_name(h.type)), _s(self.exc_name(r.exc))))
            elif isinstance(st, ast.Return):
                if st.value is None:
                    self.bad(st, "bare return")
                out.append("(.ret %s)" % self.expr(st.value))
                if i != len(body) - 1:
                    self.bad(st, "statements after return")
            else:
                self.bad(st, "statement form")
        return out

    def decorators(self):
        for d in self.node.decorator_list:
            f = d.func if isinstance(d, ast.Call) else None
            ok = False
            if isinstance(f, ast.Name) and self.mod.module_aliases.get(f.id) == "functools.lru_cache":
                ok = True
            if isinstance(f, ast.Attribute) and isinstance(f.value, ast.Name) and f.attr == "lru_cache" \
                    and self.mod.module_aliases.get(f.value.id) == "functools":
                ok = True
            if not ok:
                self.bad(d, "decorator other than lru_cache(...)")

    def emit(self):
        self.decorators()
        body = self.stmts(self.node.body, top=True)
        va = self.node.args.vararg
        return "{ params := %s,%s\n      body := [\n        %s] }" % (
            self.params(), ("\n      vararg := some %s," % _s(va.arg)) if va else "", ",\n        ".join(body))


def emit(traits_dir):
    obs_dir = os.path.join(traits_dir, OBS)
    mods = {}
    for key, fname, _, _ in MODULES:
        mods[key] = Module(key, os.path.join(obs_dir, fname))
    if mods["parsing"].lark_parser is None:
        raise Unsupported("parsing.py: no `X = _generated_parser.Lark_StandAlone()`")
    if mods["parsing"].module_aliases.get("expression_module") != "expression":
        raise Unsupported("parsing.py: expression_module is not traits.observation.expression")
    funcs, classes = [], []
    for key, fname, fnames, cls in MODULES:
        m = mods[key]
        for fn in fnames:
            if fn not in m.funcs:
                raise Unsupported("%s: function %s not found" % (fname, fn))
            funcs.append("  (%s,\n    %s)" % (_s(key + "." + fn),
                                           FuncTranslator(m, mods, m.funcs[fn], "%s:%s" % (fname, fn)).emit()))
        for cname, wanted in cls.items():
            if cname not in m.classes:
                raise Unsupported("%s: class %s not found" % (fname, cname))
            cnode = m.classes[cname]
            bases = []
            for b in cnode.bases:
                if not isinstance(b, ast.Name):
                    raise Unsupported("%s: base of %s" % (fname, cname))
                bases.append(b.id)
            if cnode.keywords:
                raise Unsupported("%s: metaclass of %s" % (fname, cname))
            defined = {n.name: n for n in cnode.body if isinstance(n, ast.FunctionDef)}
            # an expression class that defines one of the combinators is translated with it
            if any(b in CLASS_HOME for b in bases):
                wanted = list(wanted) + [x for x in EXPR_METHODS if x in defined and x not in wanted]
            ms = []
            for mn in wanted:
                if mn not in defined:
                    raise Unsupported("%s: method %s.%s not found" % (fname, cname, mn))
                ms.append("(%s,\n    %s)" % (_s(mn), FuncTranslator(m, mods, defined[mn],
                                                                   "%s:%s.%s" % (fname, cname, mn)).emit()))
            classes.append("  { name := %s, bases := [%s], methods := [\n    %s] }" % (
                _s(cname), ", ".join(_s(b) for b in bases if b in CLASS_HOME), ",\n    ".join(ms)))
    out = ["/- GENERATED by harness/translate/dslprog.py from traits/observation/{parsing,expression,_observer_graph,"
           "_*_observer,_metadata_filter}.py - do not edit. -/",
           "import TraitsVerif.Model.DslPy",
           "namespace TraitsVerif.Generated",
           "open TraitsVerif.Model.DslPy",
           "",
           "def dslProg : Prog := {",
           "  funcs := [",
           ",\n".join(funcs) + "],",
           "  classes := [",
           ",\n".join(classes) + "] }",
           "",
           "end TraitsVerif.Generated"]
    return "\n".join(out) + "\n"


if __name__ == "__main__":
    import sys
    print(emit(sys.argv[1] if len(sys.argv) > 1 else "/repo/traits"), end="")
