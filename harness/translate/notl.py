"""Translator: the SOURCE TEXT of the notifier reference counting -> terms of the NotL language (Model/NotL.lean).

Translated, from traits/observation/ of the working tree (emits Generated/NotifierProg.lean):
  * _trait_event_notifier.py     TraitEventNotifier.add_to / remove_from (NSt) and equals (List EqRow),
  * _observer_change_notifier.py ObserverChangeNotifier.add_to / remove_from (NSt) and equals (List EqRow),
  * _observer_graph.py           ObserverGraph.__eq__ (List EqRow) and __hash__ (the hashed tuple, List String).

The translation is purely syntactic (one NotL constructor per Python construct).  A method body is a statement
over ONE list `<L> = observable._notifiers(True)` (the binding is dropped; nothing else may mention the
parameter), `self`, and the variable of at most one `for <v> in <L>[:] / <L>:` loop at the top level of the body
(<v> is in scope in the loop body only).  `x -= n` becomes `x += -n`, `a > b` becomes `b < a`; comparisons take
ints, conditions are bools; the arguments of a raised exception (constants, names, attributes only) are dropped.
An `equals` / `__eq__` is guards and one returned conjunction, as a table of rows; the guard `if other is self:
return True` is dropped (every row is reflexive).  The builtins the subset reads must not be bound anywhere in the
module, NotifierNotFound only by its import.  Fails closed (raises) on anything outside the subset.
"""
import ast
import os

TARGET = "NotifierProg.lean"

OBS_DIR = "traits/observation/"
P, R = "prog", "rows"
SOURCES = [     # file, class, [(method, emitted definition, kind)]
    ("_trait_event_notifier.py", "TraitEventNotifier",
     [("add_to", "userAddProg", P), ("remove_from", "userRemoveProg", P), ("equals", "userEqualsRows", R)]),
    ("_observer_change_notifier.py", "ObserverChangeNotifier",
     [("add_to", "maintAddProg", P), ("remove_from", "maintRemoveProg", P), ("equals", "maintEqualsRows", R)]),
    ("_observer_graph.py", "ObserverGraph", [("__eq__", "graphEqRows", R), ("__hash__", "graphHashFields", "hash")]),
]
BUILTINS = ["type", "set", "frozenset", "hash", "RuntimeError", "ValueError"]
EXCS = {"RuntimeError": ".runtimeError", "ValueError": ".valueError", "NotifierNotFound": ".notifierNotFound"}
IMPORTED = ("NotifierNotFound", "traits.observation.exceptions")
RC = "_ref_count"
CMP = {ast.Eq: "(.eq %s %s)", ast.NotEq: "(.ne %s %s)", ast.Lt: "(.lt %s %s)", ast.Gt: "(.lt %s %s)"}
ROW_OPS = {ast.Is: ".is", ast.Eq: ".eq"}
ARG_NODES = (ast.Constant, ast.JoinedStr, ast.FormattedValue, ast.Name, ast.Attribute, ast.Load)


class Unknown(Exception):
    pass


def is_name(n, s):
    return isinstance(n, ast.Name) and n.id == s


def is_docstring(s):
    return isinstance(s, ast.Expr) and isinstance(s.value, ast.Constant) and isinstance(s.value.value, str)


def short(n):
    return ast.dump(n)[:80]


def attr_of(n, who, attr=None):
    """`<who>.<attr>` (any attribute if attr is None) -> the attribute name"""
    if isinstance(n, ast.Attribute) and is_name(n.value, who) and attr in (None, n.attr):
        return n.attr


def plain_call(n, nargs):
    return (isinstance(n, ast.Call) and len(n.args) == nargs and not n.keywords
            and not any(isinstance(a, ast.Starred) for a in n.args))


def call1(n, fname):
    """`<fname>(<x>)`, fname a plain name -> x"""
    if plain_call(n, 1) and is_name(n.func, fname):
        return n.args[0]


def method_call(n, who, meth, nargs):
    """`<who>.<meth>(a1, .., an)` without keywords -> [a1, .., an]"""
    if plain_call(n, nargs) and attr_of(n.func, who, meth):
        return n.args


def int_lit(n):
    """an int literal (not a bool), possibly negated -> its value"""
    if isinstance(n, ast.UnaryOp) and isinstance(n.op, ast.USub):
        v = int_lit(n.operand)
        return None if v is None else -v
    if isinstance(n, ast.Constant) and type(n.value) is int:
        return n.value


def lean_int(v):
    return "(%d)" % v if v < 0 else "%d" % v


def params(fn, n):
    """the n positional parameters of an undecorated plain method; the first one is `self`"""
    a = fn.args
    if fn.decorator_list or a.vararg or a.kwarg or a.posonlyargs or a.kwonlyargs or a.defaults:
        raise Unknown("%s: decorators / defaults / non-positional parameters" % fn.name)
    names = [x.arg for x in a.args]
    if len(names) != n or names[0] != "self" or len(set(names)) != n:
        raise Unknown("%s: parameters %s" % (fn.name, names))
    return names


class Prog:
    """Translation of the body of add_to / remove_from: `.term`."""

    def __init__(self, fn, excs):
        self.excs = excs
        self.obs = params(fn, 2)[1]
        self.v, self.nfor = None, 0     # v: the loop variable while in the loop body (no name is None)
        body = [s for s in fn.body if not is_docstring(s)]
        b = body[0] if body else None
        if not (isinstance(b, ast.Assign) and len(b.targets) == 1 and isinstance(b.targets[0], ast.Name)
                and method_call(b.value, self.obs, "_notifiers", 1)
                and isinstance(b.value.args[0], ast.Constant) and b.value.args[0].value is True):
            raise Unknown("%s: the first statement is not <L> = %s._notifiers(True)" % (fn.name, self.obs))
        self.lst = b.targets[0].id
        if self.lst in ("self", self.obs) or any(is_name(n, self.obs) for s in body[1:] for n in ast.walk(s)):
            raise Unknown("%s: the list is named %s, or %s is used again" % (fn.name, self.lst, self.obs))
        self.term = self.block(body[1:], True, False)

    # -- expressions: (term, "int" | "bool") -----------------------------------
    def ex(self, n):
        v = int_lit(n)
        if v is not None:
            return "(.int %s)" % lean_int(v), "int"
        if attr_of(n, "self", RC):
            return ".rcSelf", "int"
        if attr_of(n, self.v, RC):
            return ".rcOther", "int"
        a = method_call(n, "self", "equals", 1)
        if a and is_name(a[0], self.v):
            return ".equalsOther", "bool"
        if isinstance(n, ast.Compare) and len(n.ops) == 1 and type(n.ops[0]) in CMP:
            (x, tx), (y, ty) = self.ex(n.left), self.ex(n.comparators[0])
            if (tx, ty) != ("int", "int"):
                raise Unknown("comparison of something other than two ints: %s" % short(n))
            if isinstance(n.ops[0], ast.Gt):
                x, y = y, x
            return CMP[type(n.ops[0])] % (x, y), "bool"
        raise Unknown("expression %s" % short(n))

    # -- statements ------------------------------------------------------------
    def st(self, s, top, in_loop):
        """One statement -> list of NotL statements."""
        if isinstance(s, ast.Pass) or is_docstring(s):
            return []
        if isinstance(s, ast.For):
            if not top or self.nfor or not isinstance(s.target, ast.Name) \
                    or s.target.id in ("self", self.obs, self.lst):
                raise Unknown("for statement: nested, a second one, or its target %s" % short(s.target))
            self.nfor += 1
            it, k = s.iter, getattr(s.iter, "slice", None)
            copy = isinstance(it, ast.Subscript) and isinstance(k, ast.Slice) and k.lower is k.upper is k.step is None
            if not is_name(it.value if copy else it, self.lst):
                raise Unknown("for statement: iterates over %s" % short(it))
            self.v = s.target.id
            body = self.block(s.body, False, True)
            self.v = None
            return ["(.forOther %s %s %s)" % (str(copy).lower(), body, self.block(s.orelse, False, False))]
        if isinstance(s, ast.If):
            c, ty = self.ex(s.test)
            if ty != "bool":
                raise Unknown("condition is not a bool: %s" % short(s.test))
            return ["(.ifS %s %s %s)" % (c, self.block(s.body, False, in_loop), self.block(s.orelse, False, in_loop))]
        if isinstance(s, ast.AugAssign) and isinstance(s.op, (ast.Add, ast.Sub)) and int_lit(s.value) is not None:
            d = int_lit(s.value) if isinstance(s.op, ast.Add) else -int_lit(s.value)
            if attr_of(s.target, "self", RC):
                return ["(.addRcSelf %s)" % lean_int(d)]
            if attr_of(s.target, self.v, RC):
                return ["(.addRcOther %s)" % lean_int(d)]
        if isinstance(s, ast.Expr):
            a = method_call(s.value, self.lst, "remove", 1)
            if a and is_name(a[0], self.v):
                return [".removeOther"]
            a = method_call(s.value, self.lst, "append", 1)
            if a and is_name(a[0], "self"):
                return [".appendSelf"]
        if isinstance(s, ast.Raise) and s.cause is None and s.exc is not None:
            e = s.exc
            f, args = (e.func, e.args + [k.value for k in e.keywords]) if isinstance(e, ast.Call) else (e, [])
            if isinstance(f, ast.Name) and f.id in self.excs \
                    and all(isinstance(x, ARG_NODES) for a in args for x in ast.walk(a)):
                return ["(.raise %s)" % self.excs[f.id]]
        if isinstance(s, ast.Break) and in_loop:
            return [".brk"]
        raise Unknown("statement %s" % short(s))

    def block(self, stmts, top, in_loop):
        out = [x for s in stmts for x in self.st(s, top, in_loop)]
        r = out.pop() if out else ".skip"
        for x in reversed(out):
            r = "(.seq %s %s)" % (x, r)
        return r


def field(n, who):
    """`<who>.<f>` or `<who>.<f>()` -> (f, called)"""
    called = plain_call(n, 0)
    f = attr_of(n.func if called else n, who)
    return (f, called) if f else None


def name_pair(a, b, x, y):
    """the (distinct) names x and y, in either order"""
    return isinstance(a, ast.Name) and isinstance(b, ast.Name) and {a.id, b.id} == {x, y}


def type_pair(a, b, x, y):
    """`type(x)` and `type(y)`, in either order"""
    return name_pair(call1(a, "type"), call1(b, "type"), x, y)


def row(n, other):
    """one conjunct of an `equals` / `__eq__`"""
    if not (isinstance(n, ast.Compare) and len(n.ops) == 1):
        raise Unknown("conjunct %s" % short(n))
    op, a, b = n.ops[0], n.left, n.comparators[0]
    if type_pair(a, b, "self", other):
        if isinstance(op, ast.Is):
            return '⟨"type", .is⟩'
        raise Unknown("the types are not compared with `is`")
    sa, sb = call1(a, "set"), call1(b, "set")
    if sa is not None and sb is not None and isinstance(op, ast.Eq):
        fa, fb = attr_of(sa, "self"), attr_of(sb, other)
        if fa and fa == fb:
            return '⟨"%s", .setEq⟩' % fa
    fa, fb = field(a, "self"), field(b, other)
    if fa and fa == fb and type(op) in ROW_OPS:
        return '⟨"%s", %s⟩' % (fa[0], ROW_OPS[type(op)])
    raise Unknown("conjunct %s" % short(n))


def rows(fn):
    """`equals` / `__eq__`: guards, then one returned conjunction -> rows"""
    _, other = params(fn, 2)
    body = [s for s in fn.body if not is_docstring(s)]
    if not body or not isinstance(body[-1], ast.Return) or body[-1].value is None:
        raise Unknown("%s: the last statement is not a return of a value" % fn.name)
    out = []
    for s in body[:-1]:
        r = s.body[0] if isinstance(s, ast.If) and len(s.body) == 1 and not s.orelse else None
        t = s.test if r is not None else None
        if not (isinstance(r, ast.Return) and isinstance(r.value, ast.Constant) and type(r.value.value) is bool
                and isinstance(t, ast.Compare) and len(t.ops) == 1):
            raise Unknown("%s: guard %s" % (fn.name, short(s)))
        ret, a, b, op = r.value.value, t.left, t.comparators[0], t.ops[0]
        if not ret and isinstance(op, ast.IsNot) and type_pair(a, b, "self", other):
            out.append('⟨"type", .is⟩')                 # `if type(other) is not type(self): return False`
        elif not (ret and isinstance(op, ast.Is) and name_pair(a, b, "self", other)):
            raise Unknown("%s: guard %s" % (fn.name, short(s)))     # else `if other is self: return True`: dropped
    v = body[-1].value
    conj = v.values if isinstance(v, ast.BoolOp) and isinstance(v.op, ast.And) else [v]
    return "[%s]" % ", ".join(out + [row(c, other) for c in conj])


def hash_fields(fn):
    """`__hash__`: `return hash((e1, e2, ...))` -> the elements"""
    params(fn, 1)
    body = [s for s in fn.body if not is_docstring(s)]
    t = call1(body[0].value, "hash") if len(body) == 1 and isinstance(body[0], ast.Return) else None
    if not isinstance(t, ast.Tuple):
        raise Unknown("%s: the body is not `return hash((...))`" % fn.name)
    out = []
    for e in t.elts:
        fz = call1(e, "frozenset")
        if isinstance(e, ast.Attribute) and e.attr == "__name__" and is_name(call1(e.value, "type"), "self"):
            out.append("type:name")
        elif is_name(call1(e, "type"), "self"):
            out.append("type")
        elif attr_of(e, "self"):
            out.append(e.attr)
        elif fz is not None and attr_of(fz, "self"):
            out.append(fz.attr + ":frozenset")
        else:
            raise Unknown("%s: element %s" % (fn.name, short(e)))
    return "[%s]" % ", ".join('"%s"' % x for x in out)


DEFS = (ast.FunctionDef, ast.AsyncFunctionDef, ast.ClassDef)


def bound(tree):
    """every name bound anywhere in the tree (with repetitions)"""
    out = []
    for n in ast.walk(tree):
        out += ([n.name] if isinstance(n, DEFS) or (isinstance(n, ast.ExceptHandler) and n.name) else
                [(n.asname or n.name).split(".")[0]] if isinstance(n, ast.alias) else
                [n.id] if isinstance(n, ast.Name) and not isinstance(n.ctx, ast.Load) else
                [n.arg] if isinstance(n, ast.arg) else
                n.names if isinstance(n, (ast.Global, ast.Nonlocal)) else [])
    return out


def load(path, cname, mnames):
    """the undecorated top-level class, its wanted methods (each bound once in the class body), the exceptions"""
    tree = ast.parse(open(path).read())
    names = bound(tree)
    bad = [b for b in BUILTINS + ["*"] if b in names]
    if bad:
        raise Unknown("%s: binds %s" % (path, bad))
    ename, emod = IMPORTED
    imps = [n for n in tree.body if isinstance(n, ast.ImportFrom) and n.module == emod and n.level == 0
            and any((a.name, a.asname) == (ename, None) for a in n.names)]
    if names.count(ename) != len(imps) or len(imps) > 1:
        raise Unknown("%s: %s is bound other than by its import from %s" % (path, ename, emod))
    excs = {k: v for k, v in EXCS.items() if k != ename or imps}
    cls = [n for n in tree.body if isinstance(n, ast.ClassDef) and n.name == cname]
    if names.count(cname) != 1 or len(cls) != 1 or cls[0].decorator_list:
        raise Unknown("%s: class %s not found exactly once, undecorated" % (path, cname))
    inner = [x for s in cls[0].body for x in ([s.name] if isinstance(s, DEFS) else bound(s))]
    fns = {}
    for m in mnames:
        d = [s for s in cls[0].body if isinstance(s, ast.FunctionDef) and s.name == m]
        if inner.count(m) != 1 or len(d) != 1 or d[0].decorator_list:
            raise Unknown("%s: method %s.%s not found exactly once, undecorated" % (path, cname, m))
        fns[m] = d[0]
    return fns, excs


def emit(traits_dir):
    lines = ["/- GENERATED by harness/translate/notl.py from the working tree - do not edit. -/",
             "import TraitsVerif.Model.NotL",
             "namespace TraitsVerif.Generated",
             "open TraitsVerif TraitsVerif.Model.NotL", ""]
    for fname, cname, meths in SOURCES:
        fns, excs = load(os.path.join(traits_dir, "observation", fname), cname, [m[0] for m in meths])
        for m, dname, kind in meths:
            ty, term = {"prog": lambda: ("NSt", Prog(fns[m], excs).term), "rows": lambda: ("List EqRow", rows(fns[m])),
                        "hash": lambda: ("List String", hash_fields(fns[m]))}[kind]()
            doc = ": the hashed tuple" if kind == "hash" else " (%s%s)" % (OBS_DIR, fname)
            lines += ["/-- %s.%s%s -/" % (cname, m, doc), "def %s : %s :=" % (dname, ty), "  " + term, ""]
    lines.append("end TraitsVerif.Generated")
    return "\n".join(lines) + "\n"


if __name__ == "__main__":
    import sys
    print(emit(sys.argv[1] if len(sys.argv) > 1 else "/repo/traits"), end="")
