"""Translator: the SOURCE TEXT of the Python-level `validate` methods of the trait types that have a
compiled fast path (traits/trait_types.py) -> terms of the PyV language (lean/TraitsVerif/Model/PyVSrc.lean).

Translated with `ast`, statement by statement (one PyV constructor per Python construct): the module function
`_validate_int` and the methods listed in METHODS.  Emits Generated/PyValidators.lean.  Props/C03.lean proves
(`C03_py_is_source`) that the arms of the hand-written `pyValidate` (Model/PyValidate.lean) for these trait types
are the interpretation of these terms, for every value and every environment.

Subset: `return`, expression statements, assignment to a local, `if`/`elif`/`else`, `try`/`except` (class names or
bare; no `else`/`finally`), `pass`; docstrings, local `from … import …` and `warnings.warn(...)` are skipped.
Expressions: names (locals are numbered in order of first appearance, parameters first, so renaming a local does not
change the term; any other name is a global), None / int constants, `self.attr`, `e.attr`, calls of builtins and
module functions by name, `self.m(...)`, `super().m(...)` (resolved statically through the class's first base),
`getattr(self, self.attr)(...)`, `is` / `is not` / `not` / `and` / `or` / `< <= > >= ==` / `in`, `e[n]`, `e[n:]`.
Anything else inside an expression becomes `.unsupported "…"` (the interpreter does not evaluate it, so a proof
goes through only if the expression is unreachable); anything else at statement level raises (fail closed)."""
import ast
import os

TARGET = "PyValidators.lean"

FUNCTIONS = ["_validate_int"]
METHODS = [("BaseInt", "validate"), ("BaseFloat", "validate"), ("BaseComplex", "validate"),
           ("BaseStr", "validate"), ("BaseBytes", "validate"), ("BaseBool", "validate"),
           ("BaseCInt", "validate"), ("BaseCFloat", "validate"), ("BaseCComplex", "validate"),
           ("BaseCStr", "validate"), ("BaseCBytes", "validate"), ("BaseCBool", "validate"),
           ("BaseCallable", "validate"), ("Callable", "validate"),
           ("This", "validate"), ("This", "validate_none"),
           ("BaseRange", "validate"), ("BaseRange", "float_validate"), ("BaseRange", "int_validate"),
           ("BaseEnum", "validate"), ("Map", "validate"),
           ("BaseInstance", "validate"), ("Type", "validate"), ("_NoneTrait", "validate"),
           ("Tuple", "validate"), ("Union", "validate"), ("BaseTuple", "validate")]
# methods of traits/trait_handlers.py
HANDLER_METHODS = [("TraitCompound", "validate"), ("TraitCompound", "slow_validate"),
                   ("TraitCoerceType", "validate"), ("TraitCastType", "validate"), ("TraitInstance", "validate"), ("TraitFunction", "validate"),
                   ("TraitEnum", "validate"), ("TraitMap", "validate")]


class Unknown(Exception):
    pass


def lstr(s):
    return '"%s"' % s.replace("\\", "\\\\").replace('"', '\\"')


class Fn:
    def __init__(self, cls, fn, bases):
        self.cls = cls
        self.fn = fn
        self.bases = bases
        a = fn.args
        if a.vararg or a.kwarg or a.kwonlyargs or a.posonlyargs or a.defaults:
            raise Unknown("%s: unsupported signature" % fn.name)
        self.slots = {}
        for x in a.args:
            self.slot(x.arg)
        self.nparams = len(a.args)
        self.is_method = cls is not None
        if self.is_method and (not a.args or a.args[0].arg != "self"):
            raise Unknown("%s.%s: first parameter is not self" % (cls, fn.name))

    def slot(self, name):
        if name not in self.slots:
            self.slots[name] = len(self.slots)
        return self.slots[name]

    # -- expressions
    def args(self, xs):
        return "[" + ", ".join(self.ex(x) for x in xs) + "]"

    def margs(self, xs):
        """arguments of a method call: `self` first"""
        return "[" + ", ".join([".self_"] + [self.ex(x) for x in xs]) + "]"

    def ex(self, n):
        E = self.ex
        if isinstance(n, ast.Constant):
            if n.value is None:
                return ".none"
            if type(n.value) is int:
                return "(.intLit %d)" % n.value
            if type(n.value) is bool:
                return "(.boolLit %s)" % ("true" if n.value else "false")
            return "(.unsupported %s)" % lstr(ast.unparse(n)[:60])
        if isinstance(n, ast.Name):
            if n.id in self.slots:
                if self.is_method and n.id == "self":
                    return ".self_"
                return "(.loc %d)" % self.slots[n.id]
            return "(.glob %s)" % lstr(n.id)
        if isinstance(n, ast.Attribute):
            if isinstance(n.value, ast.Name) and n.value.id == "self" and self.is_method:
                return "(.selfAttr %s)" % lstr(n.attr)
            return "(.attr %s %s)" % (E(n.value), lstr(n.attr))
        if isinstance(n, ast.Call):
            if n.keywords or any(isinstance(a, ast.Starred) for a in n.args):
                return "(.unsupported %s)" % lstr(ast.unparse(n)[:60])
            f = n.func
            if (isinstance(f, ast.Name) and f.id == "tuple" and len(n.args) == 1
                    and isinstance(n.args[0], ast.GeneratorExp)):
                g = n.args[0]
                if (len(g.generators) == 1 and not g.generators[0].ifs and not g.generators[0].is_async
                        and isinstance(g.generators[0].target, ast.Tuple) and len(g.generators[0].target.elts) == 2
                        and all(isinstance(x, ast.Name) for x in g.generators[0].target.elts)
                        and isinstance(g.generators[0].iter, ast.Call)
                        and isinstance(g.generators[0].iter.func, ast.Name) and g.generators[0].iter.func.id == "zip"
                        and len(g.generators[0].iter.args) == 2 and not g.generators[0].iter.keywords):
                    a, b = g.generators[0].target.elts
                    xs, ys = g.generators[0].iter.args
                    ex, ey = E(xs), E(ys)
                    i, j = self.slot(a.id), self.slot(b.id)
                    return "(.tupleZip %d %d %s %s %s)" % (i, j, ex, ey, E(g.elt))
                return "(.unsupported %s)" % lstr(ast.unparse(n)[:60])
            if isinstance(f, ast.Name) and f.id in self.slots:
                return "(.callVal %s %s)" % (E(f), self.args(n.args))
            if isinstance(f, ast.Subscript) and isinstance(f.value, ast.Name) and f.value.id in self.slots:
                return "(.callVal %s %s)" % (E(f), self.args(n.args))
            if isinstance(f, ast.Name):
                if f.id in FUNCTIONS:
                    return "(.method %s %s)" % (lstr(f.id), self.args(n.args))
                return "(.call %s %s)" % (lstr(f.id), self.args(n.args))
            if isinstance(f, ast.Attribute):
                # self.m(...)
                if isinstance(f.value, ast.Name) and f.value.id == "self" and self.is_method:
                    if (self.cls, f.attr) in METHODS + HANDLER_METHODS:
                        return "(.method %s %s)" % (lstr("%s.%s" % (self.cls, f.attr)), self.margs(n.args))
                    return "(.selfCall %s %s)" % (lstr(f.attr), self.args(n.args))
                # super().m(...)
                if (isinstance(f.value, ast.Call) and isinstance(f.value.func, ast.Name)
                        and f.value.func.id == "super" and not f.value.args):
                    if not self.bases:
                        raise Unknown("%s: super() without a base" % self.cls)
                    return "(.method %s %s)" % (lstr("%s.%s" % (self.bases[0], f.attr)), self.margs(n.args))
                # local.m(...)
                if isinstance(f.value, ast.Name) and f.value.id in self.slots:
                    return "(.attrCall %s %s %s)" % (E(f.value), lstr(f.attr), self.args(n.args))
                # module.function(...)
                if isinstance(f.value, ast.Name) and f.value.id not in self.slots:
                    return "(.call %s %s)" % (lstr("%s.%s" % (f.value.id, f.attr)), self.args(n.args))
                return "(.unsupported %s)" % lstr(ast.unparse(n)[:60])
            # getattr(self, self.attr)(...)
            if (isinstance(f, ast.Call) and isinstance(f.func, ast.Name) and f.func.id == "getattr"
                    and len(f.args) == 2 and isinstance(f.args[0], ast.Name) and f.args[0].id == "self"):
                return "(.dynMethod %s %s %s)" % (lstr(self.cls), E(f.args[1]), self.margs(n.args))
            return "(.unsupported %s)" % lstr(ast.unparse(n)[:60])
        if isinstance(n, ast.UnaryOp) and isinstance(n.op, ast.Not):
            return "(.not %s)" % E(n.operand)
        if isinstance(n, ast.BoolOp):
            op = ".and" if isinstance(n.op, ast.And) else ".or"
            out = E(n.values[-1])
            for v in reversed(n.values[:-1]):
                out = "(%s %s %s)" % (op, E(v), out)
            return out
        if isinstance(n, ast.Compare) and len(n.ops) == 1:
            ops = {ast.Is: ".is", ast.IsNot: ".isNot", ast.Lt: ".lt", ast.LtE: ".le", ast.Gt: ".gt",
                   ast.GtE: ".ge", ast.Eq: ".eq", ast.In: ".in_"}
            for k, v in ops.items():
                if isinstance(n.ops[0], k):
                    return "(%s %s %s)" % (v, E(n.left), E(n.comparators[0]))
        if isinstance(n, ast.List) and not n.elts:
            return ".emptyList"
        if isinstance(n, ast.Subscript) and isinstance(n.slice, ast.Name) and n.slice.id in self.slots:
            return "(.subscript %s %s)" % (E(n.value), E(n.slice))
        if isinstance(n, ast.Subscript):
            s = n.slice
            if isinstance(s, ast.Constant) and type(s.value) is int:
                return "(.index %s %d)" % (E(n.value), s.value)
            if (isinstance(s, ast.Slice) and s.upper is None and s.step is None
                    and isinstance(s.lower, ast.Constant) and type(s.lower.value) is int):
                return "(.sliceFrom %s %d)" % (E(n.value), s.lower.value)
        return "(.unsupported %s)" % lstr(ast.unparse(n)[:60])

    # -- statements
    def seq(self, stmts):
        stmts = [s for s in stmts if s is not None]
        if not stmts:
            return ".pass"
        out = stmts[-1]
        for s in reversed(stmts[:-1]):
            out = "(.seq %s %s)" % (s, out)
        return out

    def block(self, body):
        return self.seq([self.st(s) for s in body])

    def st(self, n):
        if isinstance(n, ast.Expr):
            if isinstance(n.value, ast.Constant) and isinstance(n.value.value, str):
                return None                       # docstring
            if (isinstance(n.value, ast.Call) and isinstance(n.value.func, ast.Attribute)
                    and isinstance(n.value.func.value, ast.Name) and n.value.func.value.id == "warnings"):
                return None                       # warnings.warn(...)
            v = n.value
            if (isinstance(v, ast.Call) and isinstance(v.func, ast.Attribute) and v.func.attr == "append"
                    and isinstance(v.func.value, ast.Name) and v.func.value.id in self.slots
                    and v.func.value.id != "self" and len(v.args) == 1 and not v.keywords):
                return "(.append %d %s)" % (self.slots[v.func.value.id], self.ex(v.args[0]))
            return "(.expr %s)" % self.ex(n.value)
        if isinstance(n, ast.ImportFrom):
            return None
        if isinstance(n, ast.Pass):
            return ".pass"
        if isinstance(n, ast.Return):
            return "(.ret %s)" % (self.ex(n.value) if n.value is not None else ".none")
        if isinstance(n, ast.Assign) and len(n.targets) == 1 and isinstance(n.targets[0], ast.Name):
            e = self.ex(n.value)
            return "(.assign %d %s)" % (self.slot(n.targets[0].id), e)
        if isinstance(n, ast.If):
            return "(.ite %s %s %s)" % (self.ex(n.test), self.block(n.body), self.block(n.orelse))
        if (isinstance(n, ast.For) and not n.orelse and isinstance(n.target, ast.Tuple) and len(n.target.elts) == 2
                and all(isinstance(x, ast.Name) for x in n.target.elts) and isinstance(n.iter, ast.Call)
                and isinstance(n.iter.func, ast.Name) and n.iter.func.id == "enumerate"
                and len(n.iter.args) == 1 and not n.iter.keywords):
            it = self.ex(n.iter.args[0])
            i, j = self.slot(n.target.elts[0].id), self.slot(n.target.elts[1].id)
            return "(.forEnum %d %d %s %s)" % (i, j, it, self.block(n.body))
        if isinstance(n, ast.For):
            if n.orelse or not isinstance(n.target, ast.Name):
                raise Unknown("%s: unsupported for loop" % self.fn.name)
            it = self.ex(n.iter)
            return "(.forIn %d %s %s)" % (self.slot(n.target.id), it, self.block(n.body))
        if isinstance(n, ast.Try):
            if n.orelse or n.finalbody:
                raise Unknown("%s: try with else/finally" % self.fn.name)
            hs = ".nil"
            for h in reversed(n.handlers):
                if h.name is not None:
                    raise Unknown("%s: except … as name" % self.fn.name)
                if h.type is None:
                    spec = ".bare"
                else:
                    names = h.type.elts if isinstance(h.type, ast.Tuple) else [h.type]
                    if not all(isinstance(x, ast.Name) for x in names):
                        raise Unknown("%s: exception class is not a name" % self.fn.name)
                    spec = "(.names [%s])" % ", ".join(lstr(x.id) for x in names)
                hs = "(.cons %s %s %s)" % (spec, self.block(h.body), hs)
            return "(.try_ %s %s)" % (self.block(n.body), hs)
        raise Unknown("%s: unsupported statement %s" % (self.fn.name, type(n).__name__))


def emit(traits_dir):
    tree = ast.parse(open(os.path.join(traits_dir, "trait_types.py")).read())
    funcs = {n.name: n for n in tree.body if isinstance(n, ast.FunctionDef)}
    classes = {n.name: n for n in tree.body if isinstance(n, ast.ClassDef)}
    out = ["/- GENERATED by harness/translate/pyvalidators.py from the working tree - do not edit. -/",
           "import TraitsVerif.Model.PyVSrc",
           "namespace TraitsVerif.Generated.PyValidators",
           "open TraitsVerif.Model.PyVSrc", "",
           "set_option maxRecDepth 4096", ""]
    names = []

    def one(key, ident, cls, fn, bases):
        f = Fn(cls, fn, bases)
        body = f.block(fn.body)
        out.append("def %s : Method :=\n  { nparams := %d, nvars := %d,\n    body := %s }\n"
                   % (ident, f.nparams, len(f.slots), body))
        names.append((key, ident))

    for name in FUNCTIONS:
        if name not in funcs:
            raise Unknown("function %s not found" % name)
        one(name, "fn_" + name, None, funcs[name], [])
    for cls, meth in METHODS:
        if cls not in classes:
            raise Unknown("class %s not found" % cls)
        c = classes[cls]
        ms = [n for n in c.body if isinstance(n, ast.FunctionDef) and n.name == meth]
        if len(ms) != 1:
            raise Unknown("%s.%s: %d definitions" % (cls, meth, len(ms)))
        bases = [b.id for b in c.bases if isinstance(b, ast.Name)]
        one("%s.%s" % (cls, meth), "m_%s_%s" % (cls, meth), cls, ms[0], bases)
    htree = ast.parse(open(os.path.join(traits_dir, "trait_handlers.py")).read())
    hclasses = {n.name: n for n in htree.body if isinstance(n, ast.ClassDef)}
    for cls, meth in HANDLER_METHODS:
        if cls not in hclasses:
            raise Unknown("class %s not found in trait_handlers.py" % cls)
        c = hclasses[cls]
        ms = [n for n in c.body if isinstance(n, ast.FunctionDef) and n.name == meth]
        if len(ms) != 1:
            raise Unknown("%s.%s: %d definitions" % (cls, meth, len(ms)))
        bases = [b.id for b in c.bases if isinstance(b, ast.Name)]
        one("%s.%s" % (cls, meth), "m_%s_%s" % (cls, meth), cls, ms[0], bases)
    out.append("/-- the method table (methods are called by qualified name) -/")
    out.append("def table : List (String × Method) := [" + ", ".join("(%s, %s)" % (lstr(k), i) for k, i in names) + "]")
    out.append("")
    out.append("end TraitsVerif.Generated.PyValidators")
    return "\n".join(out) + "\n"


if __name__ == "__main__":
    import sys
    print(emit(sys.argv[1] if len(sys.argv) > 1 else "/repo/traits"), end="")
