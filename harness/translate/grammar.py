"""Translator: traits/observation/_dsl_grammar.lark -> Generated/Grammar.lean (pure data).

A small reader of the subset of Lark's grammar syntax that the file uses (it is
NOT Lark): `//` comments, one-line rules `[?]name : expansion`, one-line regex
terminals `NAME: /re/`, `%import common.X`, `%ignore X`.  An expansion is
items separated by blanks and `|`, an item is a rule name, a TERMINAL name, a
"literal", or a parenthesised expansion, each optionally followed by `?`.
Expansions are flattened to a list of alternatives (an optional item contributes
the variant with it first, then the variant without).  Anything else - an
unknown directive, a multi-line rule, `*`/`+`/`~` operators, templates, aliases,
priorities - raises: the translator fails closed (DESIGN 3.1).
"""
import os
import re

TARGET = "Grammar.lean"

_TOKEN = re.compile(r'\s*(?:(?P<lit>"(?:[^"\\]|\\.)*")|(?P<id>[A-Za-z_][A-Za-z_0-9]*)|(?P<op>[()|?]))')


def _tokens(text, where):
    pos, out = 0, []
    text = text.rstrip()
    while pos < len(text):
        m = _TOKEN.match(text, pos)
        if not m:
            raise ValueError("%s: cannot read expansion at %r" % (where, text[pos:]))
        pos = m.end()
        if m.group("lit") is not None:
            lit = m.group("lit")[1:-1]
            if "\\" in lit:
                raise ValueError("%s: escape in literal %r" % (where, lit))
            out.append(("lit", lit))
        elif m.group("id") is not None:
            name = m.group("id")
            if name.isupper():
                out.append(("term", name))
            elif name.islower() or "_" in name and name.replace("_", "").islower():
                out.append(("nt", name))
            else:
                raise ValueError("%s: mixed-case symbol %r" % (where, name))
        else:
            out.append(("op", m.group("op")))
    return out


def _parse_alt(toks, i, where):
    """alt := seq ('|' seq)* ; returns (list of alternatives, next index)."""
    alts, i = _parse_seq(toks, i, where)
    while i < len(toks) and toks[i] == ("op", "|"):
        more, i = _parse_seq(toks, i + 1, where)
        alts = alts + more
    return alts, i


def _parse_seq(toks, i, where):
    seqs = [[]]
    n = 0
    while i < len(toks) and toks[i] not in (("op", "|"), ("op", ")")):
        kind, val = toks[i]
        if kind == "op":
            if val != "(":
                raise ValueError("%s: unexpected %r" % (where, val))
            inner, i = _parse_alt(toks, i + 1, where)
            if i >= len(toks) or toks[i] != ("op", ")"):
                raise ValueError("%s: unbalanced parenthesis" % where)
            i += 1
        else:
            inner = [[(kind, val)]]
            i += 1
        if i < len(toks) and toks[i] == ("op", "?"):
            inner = inner + [[]]
            i += 1
        seqs = [s + t for s in seqs for t in inner]
        n += 1
    if n == 0:
        raise ValueError("%s: empty sequence" % where)
    return seqs, i


def read_grammar(path):
    rules, terminals, imports, ignores = [], [], [], []
    for lineno, raw in enumerate(open(path, encoding="utf-8"), 1):
        where = "%s:%d" % (os.path.basename(path), lineno)
        line = raw.rstrip("\n")
        if "//" in line:
            if line.lstrip().startswith("//"):
                continue
            raise ValueError("%s: trailing comment" % where)
        if not line.strip():
            continue
        if line[0] in " \t":
            raise ValueError("%s: continuation line" % where)
        m = re.fullmatch(r"%import\s+([a-z]+\.[A-Z_]+)\s*", line)
        if m:
            imports.append(m.group(1))
            continue
        m = re.fullmatch(r"%ignore\s+([A-Z_]+)\s*", line)
        if m:
            ignores.append(m.group(1))
            continue
        m = re.fullmatch(r"([A-Z][A-Z_0-9]*)\s*:\s*/(.*)/\s*", line)
        if m:
            if "/" in m.group(2):
                raise ValueError("%s: slash inside regex" % where)
            terminals.append((m.group(1), m.group(2)))
            continue
        m = re.fullmatch(r"(\??)([a-z_][a-z_0-9]*)\s*:\s*(.*)", line)
        if m:
            toks = _tokens(m.group(3), where)
            alts, i = _parse_alt(toks, 0, where)
            if i != len(toks):
                raise ValueError("%s: trailing %r" % (where, toks[i:]))
            if any(not a for a in alts):
                raise ValueError("%s: rule derives the empty string" % where)
            rules.append((m.group(2), m.group(1) == "?", alts))
            continue
        raise ValueError("%s: unknown line shape %r" % (where, line))
    names = [r[0] for r in rules]
    if len(set(names)) != len(names):
        raise ValueError("duplicate rule")
    known_terms = {t[0] for t in terminals}
    for name, _, alts in rules:
        for a in alts:
            for kind, val in a:
                if kind == "nt" and val not in names:
                    raise ValueError("rule %s uses undefined rule %s" % (name, val))
                if kind == "term" and val not in known_terms:
                    raise ValueError("rule %s uses undefined terminal %s" % (name, val))
    return rules, terminals, imports, ignores


def _s(x):
    return '"' + x.replace("\\", "\\\\").replace('"', '\\"') + '"'


def emit(traits_dir):
    rules, terminals, imports, ignores = read_grammar(
        os.path.join(traits_dir, "observation", "_dsl_grammar.lark"))
    out = ["/- GENERATED by harness/translate/grammar.py from traits/observation/_dsl_grammar.lark"
           " - do not edit. -/",
           "namespace TraitsVerif.Generated", "",
           "/-- (rule name, declared with `?` (inlined when it has one child), alternatives);",
           "a symbol is (kind, text) with kind \"nt\" | \"term\" | \"lit\". -/",
           "def grammarRules : List (String × Bool × List (List (String × String))) := ["]
    rl = []
    for name, inline, alts in rules:
        al = ["[" + ", ".join("(%s, %s)" % (_s(k), _s(v)) for k, v in a) + "]" for a in alts]
        rl.append("  (%s, %s, [\n     %s])" % (_s(name), "true" if inline else "false", ",\n     ".join(al)))
    out.append(",\n".join(rl) + "]")
    out.append("")
    out.append("/-- regex terminals -/")
    out.append("def grammarTerminals : List (String × String) := [%s]" % ", ".join(
        "(%s, %s)" % (_s(n), _s(r)) for n, r in terminals))
    out.append("def grammarImports : List String := [%s]" % ", ".join(_s(x) for x in imports))
    out.append("def grammarIgnore : List String := [%s]" % ", ".join(_s(x) for x in ignores))
    out.append("")
    out.append("end TraitsVerif.Generated")
    return "\n".join(out) + "\n"


if __name__ == "__main__":
    import sys
    print(emit(sys.argv[1] if len(sys.argv) > 1 else "/repo/traits"), end="")
