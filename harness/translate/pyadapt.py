"""Translator: the SOURCE TEXT of the adaptation search -> terms of the PyA language (Model/PyA.lean).

Translated, from traits/adaptation/adaptation_manager.py of the working tree:
  * `AdaptationManager.provides_protocol`, `AdaptationManager.mro_distance_to_protocol` (static methods),
  * `AdaptationManager._adapt` (the priority-queue search), `AdaptationManager._get_applicable_offers`,
  * the module-level edge comparison `_by_weight_then_from_protocol_specificity`,
  * the entry points `AdaptationManager.adapt` (its default value `default=AdaptationError` is emitted as
    `adaptDefault`), `supports_protocol`, `register_offer`.
`register_factory`, `register_provides`, `no_adapter_necessary` and `AdaptationOffer._get_from_protocol_name` /
`_get_type_name` (the bucket key: F16) are not interpreted; their normalised statement texts are emitted
(`registerFactorySource`, ...) and compared literally by `C17_register_wrappers_source`.
Any attribute of `self` other than `_adaptation_offers` (`.items()` / `.setdefault(name, [])`) and the translated
methods is outside the subset: new state on the manager (a cache, a counter) makes the translator fail.
Emits Generated/AdaptProg.lean: one `Stmt` definition per loop body (`<fn>Loop<k>`, numbered in source
order within the function), one per function body, and the program `adaptProg`.  Lemmas/AdaptSource.lean and
Props/C17.lean prove that `Model.Adapt.adaptInner` is the interpretation of these terms.

The translation is purely syntactic (one PyA constructor per Python construct) with these rewrites, all of
which preserve evaluation order because every PyA *expression* is pure:
  * `next(x)` nested in an expression is hoisted into a temporary just before the statement;
  * `a, b, c = heappop(q)` becomes `t = heappop(q); a, b, c = t`;
  * `inspect.getmro(e)[1:]` is the builtin `getmro_tail(e)`; `self._adaptation_offers.items()` is `offersItems`;
  * `self.m(...)` / `AdaptationManager.m(...)` for a translated method `m` is `call "m"` (without `self`);
  * `x.sort(key=functools.cmp_to_key(f))` for the translated module-level function `f` is `sortCmp x "f"`.
Lists have value semantics in PyA, so the translator checks that a list which is mutated (`append`, `sort`,
`heappush`, `heappop`) only ever occurs as the receiver of these calls, in `len(x)`, as the iterable of a
`for` whose body does not mutate it, as a returned value, or as the target of an assignment of a fresh list.
Fails closed (raises) on anything outside the subset.
"""
import ast
import os
import sys

TARGET = "AdaptProg.lean"

CLASS = "AdaptationManager"
METHODS = ["provides_protocol", "mro_distance_to_protocol", "_adapt", "_get_applicable_offers",
           "adapt", "supports_protocol", "register_offer"]
EFFECTFUL = {"_adapt", "adapt"}          # translated methods that may call factories: called with `callEff`
GLOBALS = {"AdaptationError", "_MISSING"}  # module-level singletons compared with `is`
EXCS = {"AdaptationError": ".adaptationError"}
STATIC = {"provides_protocol", "mro_distance_to_protocol"}
MODULE_FUNCS = ["_by_weight_then_from_protocol_specificity"]
LEAN_NAME = {"provides_protocol": "providesProtocol", "mro_distance_to_protocol": "mroDistance",
             "_adapt": "adapt", "_get_applicable_offers": "applicableOffers",
             "adapt": "adaptEntry", "supports_protocol": "supportsProtocol", "register_offer": "registerOffer",
             "_by_weight_then_from_protocol_specificity": "byWeight"}
BUILTINS = {"issubclass": 2, "type": 1, "len": 1}
OFFER_ATTRS = ("from_protocol", "to_protocol", "from_protocol_name")


class Unknown(Exception):
    pass


def is_name(n, s=None):
    return isinstance(n, ast.Name) and (s is None or n.id == s)


def is_call_of(n, name, nargs):
    return (isinstance(n, ast.Call) and is_name(n.func, name) and len(n.args) == nargs and not n.keywords)


def is_method_call(n, attr, nargs):
    return (isinstance(n, ast.Call) and isinstance(n.func, ast.Attribute) and n.func.attr == attr
            and len(n.args) == nargs and not n.keywords)


def is_sort_call(n):
    """x.sort(key=functools.cmp_to_key(f))"""
    if not (isinstance(n, ast.Call) and isinstance(n.func, ast.Attribute) and n.func.attr == "sort"
            and not n.args and len(n.keywords) == 1 and n.keywords[0].arg == "key"):
        return False
    k = n.keywords[0].value
    return (isinstance(k, ast.Call) and isinstance(k.func, ast.Attribute) and k.func.attr == "cmp_to_key"
            and is_name(k.func.value, "functools") and len(k.args) == 1 and not k.keywords and is_name(k.args[0]))


def is_setdefault_call(n):
    """self._adaptation_offers.setdefault(k, [])"""
    return (is_method_call(n, "setdefault", 2) and isinstance(n.func.value, ast.Attribute)
            and n.func.value.attr == "_adaptation_offers" and is_name(n.func.value.value, "self")
            and isinstance(n.args[1], ast.List) and not n.args[1].elts)


def mutated_name(call):
    """The local list a call statement / expression mutates, or None."""
    if is_method_call(call, "append", 1) and is_name(call.func.value):
        return call.func.value.id
    if is_sort_call(call) and is_name(call.func.value):
        return call.func.value.id
    if (is_call_of(call, "heappush", 2) or is_call_of(call, "heappop", 1)) and is_name(call.args[0]):
        return call.args[0].id
    return None


class Fn:
    """Translation of one function body."""

    def __init__(self, fn, arity, is_method):
        self.fn = fn
        self.arity = arity                    # name -> number of parameters of every translated function
        a = fn.args
        if a.kwarg or a.vararg or a.posonlyargs or a.kwonlyargs:
            raise Unknown("%s: parameter list shape" % fn.name)
        self.defaults = []
        for d in a.defaults:
            if not (is_name(d) and d.id in GLOBALS):
                raise Unknown("%s: default value %s" % (fn.name, ast.dump(d)[:60]))
            self.defaults.append(d.id)
        names = [x.arg for x in a.args]
        if is_method:
            if not names or names[0] != "self":
                raise Unknown("%s: first parameter is not self" % fn.name)
            names = names[1:]
        elif names and names[0] == "self":
            raise Unknown("%s: unexpected self" % fn.name)
        self.params = names
        self.slots = {n: i for i, n in enumerate(names)}
        self.pre = []
        self.ntemp = 0
        self.nloop = 0
        self.defs = []                        # (lean name, term) of the loop bodies, inner first
        self.check_aliasing()

    # -- value semantics of lists -----------------------------------------------
    def check_aliasing(self):
        fn = self.fn
        mutated = set()
        for n in ast.walk(fn):
            if isinstance(n, ast.Call):
                m = mutated_name(n)
                if m is not None:
                    mutated.add(m)
        allowed = set()
        for n in ast.walk(fn):
            if isinstance(n, ast.Call):
                if mutated_name(n) is not None:
                    allowed.add(id(n.func.value) if isinstance(n.func, ast.Attribute) else id(n.args[0]))
                if is_call_of(n, "len", 1):
                    allowed.add(id(n.args[0]))
            elif isinstance(n, ast.Return) and n.value is not None:
                allowed.add(id(n.value))
            elif isinstance(n, ast.For) and is_name(n.iter):
                for m in ast.walk(ast.Module(body=n.body + n.orelse, type_ignores=[])):
                    if isinstance(m, ast.Call) and mutated_name(m) == n.iter.id:
                        raise Unknown("%s: %s is mutated while it is iterated" % (fn.name, n.iter.id))
                    if isinstance(m, ast.Name) and m.id == n.iter.id and isinstance(m.ctx, ast.Store):
                        raise Unknown("%s: %s is rebound while it is iterated" % (fn.name, n.iter.id))
                allowed.add(id(n.iter))
            elif isinstance(n, ast.Assign) and len(n.targets) == 1 and is_name(n.targets[0]):
                v = n.value
                fresh = isinstance(v, ast.List) or (
                    isinstance(v, ast.Call) and isinstance(v.func, ast.Attribute) and is_name(v.func.value, "self")
                    and v.func.attr in self.arity) or is_setdefault_call(v)
                if fresh:
                    allowed.add(id(n.targets[0]))
        for n in ast.walk(fn):
            if isinstance(n, ast.Name) and n.id in mutated and id(n) not in allowed:
                raise Unknown("%s: the mutated list %s may be aliased (line %d)" % (fn.name, n.id, n.lineno))
        for p in self.params:
            if p in mutated:
                raise Unknown("%s: parameter %s is mutated" % (fn.name, p))

    # -- slots --------------------------------------------------------------------
    def slot(self, name):
        if name not in self.slots:
            self.slots[name] = len(self.slots)
        return self.slots[name]

    def temp(self):
        self.ntemp += 1
        return self.slot("$t%d" % self.ntemp)

    # -- expressions ----------------------------------------------------------------
    def seq(self, elts):
        r = ".nil"
        for x in reversed([self.ex(e) for e in elts]):
            r = "(.cons %s %s)" % (x, r)
        return r

    def ex(self, n):
        E = self.ex
        if isinstance(n, ast.Constant):
            if n.value is None:
                return ".noneLit"
            if isinstance(n.value, int) and not isinstance(n.value, bool):
                return "(.intLit %d)" % n.value
            raise Unknown("constant %r" % (n.value,))
        if isinstance(n, ast.Name):
            if n.id in self.slots:
                return "(.var %d)" % self.slots[n.id]
            if n.id in GLOBALS:
                return '(.glob "%s")' % n.id
            raise Unknown("name %s used before assignment" % n.id)
        if isinstance(n, ast.Tuple):
            if any(isinstance(e, ast.Starred) for e in n.elts):
                raise Unknown("starred tuple item")
            return self.seq(n.elts)
        if isinstance(n, ast.List):
            if any(isinstance(e, ast.Starred) for e in n.elts):
                raise Unknown("starred list item")
            return "(.listOf %s)" % self.seq(n.elts)
        if isinstance(n, ast.BinOp):
            if isinstance(n.op, ast.Add):
                a = E(n.left)
                return "(.add %s %s)" % (a, E(n.right))
            raise Unknown("operator %s" % type(n.op).__name__)
        if isinstance(n, ast.UnaryOp):
            if isinstance(n.op, ast.Not):
                return "(.not %s)" % E(n.operand)
            if (isinstance(n.op, ast.USub) and isinstance(n.operand, ast.Constant)
                    and isinstance(n.operand.value, int) and not isinstance(n.operand.value, bool)):
                return "(.intLit (%d))" % -n.operand.value
            raise Unknown("unary operator %s" % type(n.op).__name__)
        if isinstance(n, ast.Compare):
            if len(n.ops) != 1:
                raise Unknown("chained comparison")
            op = n.ops[0]
            a = E(n.left)
            b = E(n.comparators[0])
            for cls, c in ((ast.Lt, "lt"), (ast.Gt, "gt"), (ast.Is, "is"), (ast.IsNot, "isNot"), (ast.NotIn, "notIn")):
                if isinstance(op, cls):
                    return "(.%s %s %s)" % (c, a, b)
            raise Unknown("comparison %s" % type(op).__name__)
        if isinstance(n, ast.Attribute):
            if n.attr in OFFER_ATTRS and not is_name(n.value, "self"):
                return '(.attr %s "%s")' % (E(n.value), n.attr)
            raise Unknown("attribute .%s" % n.attr)
        if isinstance(n, ast.Subscript):
            s = n.slice
            if isinstance(s, ast.Constant) and isinstance(s.value, int) and not isinstance(s.value, bool) and s.value >= 0:
                return "(.index %s %d)" % (E(n.value), s.value)
            v = n.value
            if (isinstance(s, ast.Slice) and s.upper is None and s.step is None
                    and isinstance(s.lower, ast.Constant) and s.lower.value == 1 and type(s.lower.value) is int
                    and is_method_call(v, "getmro", 1) and is_name(v.func.value, "inspect")):
                return '(.call "getmro_tail" %s)' % self.seq(v.args)
            raise Unknown("subscript %s" % ast.dump(n)[:80])
        if isinstance(n, ast.Call):
            if n.keywords:
                raise Unknown("keyword arguments in %s" % ast.dump(n)[:60])
            if any(isinstance(a, ast.Starred) for a in n.args):
                raise Unknown("starred argument")
            f = n.func
            if isinstance(f, ast.Name):
                if f.id in self.slots:
                    raise Unknown("call of the local %s" % f.id)
                if f.id in BUILTINS and len(n.args) == BUILTINS[f.id]:
                    return '(.call "%s" %s)' % (f.id, self.seq(n.args))
                if f.id == "next" and len(n.args) == 1 and is_name(n.args[0]) and n.args[0].id in self.slots:
                    t = self.temp()
                    self.pre.append("(.next %d %d)" % (t, self.slots[n.args[0].id]))
                    return "(.var %d)" % t
            if isinstance(f, ast.Attribute):
                if (is_name(f.value, "self") or is_name(f.value, CLASS)) and f.attr in self.arity \
                        and f.attr not in MODULE_FUNCS:
                    if is_name(f.value, CLASS) and f.attr not in STATIC:
                        raise Unknown("%s.%s is not a static method" % (CLASS, f.attr))
                    if len(n.args) != self.arity[f.attr]:
                        raise Unknown("%s called with %d arguments" % (f.attr, len(n.args)))
                    if f.attr in EFFECTFUL:
                        args = self.seq(n.args)
                        t = self.temp()
                        self.pre.append('(.callEff %d "%s" %s)' % (t, f.attr, args))
                        return "(.var %d)" % t
                    return '(.call "%s" %s)' % (f.attr, self.seq(n.args))
                if (f.attr == "items" and not n.args and isinstance(f.value, ast.Attribute)
                        and f.value.attr == "_adaptation_offers" and is_name(f.value.value, "self")):
                    return ".offersItems"
            raise Unknown("call %s" % ast.dump(n)[:80])
        raise Unknown("expression %s" % ast.dump(n)[:100])

    # -- statements -------------------------------------------------------------------
    def targets(self, t):
        if isinstance(t, ast.Name):
            return [self.slot(t.id)]
        if isinstance(t, ast.Tuple) and len(t.elts) >= 2 and all(isinstance(x, ast.Name) for x in t.elts):
            if len({x.id for x in t.elts}) != len(t.elts):
                raise Unknown("repeated name in a target list")
            return [self.slot(x.id) for x in t.elts]
        raise Unknown("assignment / loop target %s" % ast.dump(t)[:60])

    def st(self, s):
        self.pre = []
        out = self.st1(s)
        return self.pre + out

    def local_list(self, n):
        if is_name(n) and n.id in self.slots:
            return self.slots[n.id]
        raise Unknown("not a local variable: %s" % ast.dump(n)[:60])

    def loop_def(self, kind, stmts):
        self.nloop += 1
        name = "%s%s%d" % (LEAN_NAME[self.fn.name], kind, self.nloop)
        k = len(self.defs)
        self.defs.append(None)                # keep source order in the numbering, inner bodies after outer
        body = self.block(stmts)
        self.defs[k] = (name, body)
        return name

    def st1(self, s):
        if isinstance(s, ast.Pass):
            return []
        if isinstance(s, ast.Break):
            return [".brk"]
        if isinstance(s, ast.Expr):
            v = s.value
            if isinstance(v, ast.Constant) and isinstance(v.value, str):
                return []
            if is_call_of(v, "heappush", 2):
                q = self.local_list(v.args[0])
                return ["(.heappush %d %s)" % (q, self.ex(v.args[1]))]
            if is_method_call(v, "append", 1):
                x = self.local_list(v.func.value)
                return ["(.append %d %s)" % (x, self.ex(v.args[0]))]
            if is_sort_call(v):
                x = self.local_list(v.func.value)
                f = v.keywords[0].value.args[0].id
                if f not in MODULE_FUNCS:
                    raise Unknown("sort with the comparison %s" % f)
                return ['(.sortCmp %d "%s")' % (x, f)]
            raise Unknown("expression statement %s" % ast.dump(v)[:80])
        if isinstance(s, ast.Assign):
            if len(s.targets) != 1:
                raise Unknown("chained assignment")
            t, v = s.targets[0], s.value
            if (isinstance(v, ast.Call) and isinstance(v.func, ast.Attribute) and v.func.attr == "count"
                    and is_name(v.func.value, "itertools") and not v.args and not v.keywords and is_name(t)):
                return ["(.newCounter %d)" % self.slot(t.id)]
            if is_call_of(v, "heappop", 1):
                q = self.local_list(v.args[0])
                if is_name(t):
                    return ["(.heappop %d %d)" % (self.slot(t.id), q)]
                tmp = self.temp()
                return ["(.heappop %d %d)" % (tmp, q), "(.unpack %s (.var %d))" % (self.targets(t), tmp)]
            if is_setdefault_call(v) and is_name(t):
                k = self.ex(v.args[0])
                return ["(.setdefaultBucket %d %s %s)" % (self.slot(t.id), k, self.ex(v.args[1]))]
            if is_method_call(v, "factory", 1) and is_name(t):
                o = self.ex(v.func.value)
                a = self.ex(v.args[0])
                return ["(.callFactory %d %s %s)" % (self.slot(t.id), o, a)]
            e = self.ex(v)
            if is_name(t):
                return ["(.assign %d %s)" % (self.slot(t.id), e)]
            return ["(.unpack %s %s)" % (self.targets(t), e)]
        if isinstance(s, ast.AugAssign):
            if isinstance(s.op, ast.Add) and is_name(s.target) and s.target.id in self.slots:
                return ["(.augAdd %d %s)" % (self.slots[s.target.id], self.ex(s.value))]
            raise Unknown("augmented assignment %s" % ast.dump(s)[:60])
        if isinstance(s, ast.If):
            c = self.ex(s.test)
            pre = self.pre
            t = self.block(s.body)
            e = self.block(s.orelse)
            self.pre = pre
            return ["(.ifS %s\n      %s\n      %s)" % (c, t, e)]
        if isinstance(s, ast.For):
            it = self.ex(s.iter)
            pre = self.pre
            tg = self.targets(s.target)
            body = self.loop_def("Loop", s.body)
            orelse = self.block(s.orelse)
            self.pre = pre
            return ["(.forIn %s %s %s\n      %s)" % (tg, it, body, orelse)]
        if isinstance(s, ast.While):
            if s.orelse:
                raise Unknown("while ... else")
            self.pre = []
            c = self.ex(s.test)
            if self.pre:
                raise Unknown("effect in a while condition")
            body = self.loop_def("Loop", s.body)
            return ["(.whileS %s %s)" % (c, body)]
        if isinstance(s, ast.Raise):
            e = s.exc
            if (s.cause is None and isinstance(e, ast.Call) and is_name(e.func) and e.func.id in EXCS
                    and len(e.args) == 1 and not e.keywords):
                m = e.args[0]
                # the message is not observed, but building it must not be able to fail:
                # a literal, or literal % (tuple of locals) with one conversion per item
                ok = isinstance(m, ast.Constant) and isinstance(m.value, str)
                if (isinstance(m, ast.BinOp) and isinstance(m.op, ast.Mod) and isinstance(m.left, ast.Constant)
                        and isinstance(m.left.value, str) and isinstance(m.right, ast.Tuple)
                        and all(is_name(x) and x.id in self.slots for x in m.right.elts)
                        and m.left.value.count("%") == m.left.value.count("%r") == len(m.right.elts)):
                    ok = True
                if ok:
                    return ["(.raiseExc %s)" % EXCS[e.func.id]]
            raise Unknown("raise statement %s" % ast.dump(s)[:100])
        if isinstance(s, ast.Return):
            if s.value is None:
                return ["(.ret .noneLit)"]
            return ["(.ret %s)" % self.ex(s.value)]
        raise Unknown("statement %s" % type(s).__name__)

    def block(self, stmts):
        out = []
        for s in stmts:
            out.extend(self.st(s))
        if not out:
            return ".skip"
        r = out[-1]
        for x in reversed(out[:-1]):
            r = "(.seq %s\n      %s)" % (x, r)
        return r

    def emit(self):
        body = self.block(self.fn.body)
        names = sorted(self.slots.items(), key=lambda kv: kv[1])
        comment = " ".join("%d=%s" % (i, n) for n, i in names)
        ln = LEAN_NAME[self.fn.name]
        out = ["/-- `%s`: slots %s -/" % (self.fn.name, comment)]
        for name, term in reversed(self.defs):
            out += ["def %s : Stmt :=\n      %s\n" % (name, term)]
        out += ["def %sBody : Stmt :=\n      %s\n" % (ln, body)]
        row = '  ("%s", { nparams := %d, nslots := %d, body := %sBody })' % (
            self.fn.name, len(self.params), len(self.slots), ln)
        return "\n".join(out), row, self.defaults


def emit(traits_dir):
    path = os.path.join(traits_dir, "adaptation", "adaptation_manager.py")
    tree = ast.parse(open(path).read())
    classes = {n.name: n for n in tree.body if isinstance(n, ast.ClassDef)}
    if CLASS not in classes:
        raise Unknown("class %s not found" % CLASS)
    found = {}
    for n in classes[CLASS].body:
        if isinstance(n, ast.FunctionDef) and n.name in METHODS:
            if n.name in found:
                raise Unknown("%s defined twice" % n.name)
            decos = [d.id if isinstance(d, ast.Name) else "?" for d in n.decorator_list]
            if decos != (["staticmethod"] if n.name in STATIC else []):
                raise Unknown("%s: decorators %s" % (n.name, decos))
            found[n.name] = (n, n.name not in STATIC)
    for n in tree.body:
        if isinstance(n, ast.FunctionDef) and n.name in MODULE_FUNCS:
            if n.decorator_list:
                raise Unknown("%s is decorated" % n.name)
            if n.name in found:
                raise Unknown("%s defined twice" % n.name)
            found[n.name] = (n, False)
    # the names the bodies rely on must mean what the interpreter takes them to mean
    for n in tree.body:
        if isinstance(n, (ast.FunctionDef, ast.ClassDef, ast.Assign)):
            names = [n.name] if not isinstance(n, ast.Assign) else [t.id for t in n.targets if isinstance(t, ast.Name)]
            for x in names:
                if x in ("heappush", "heappop", "issubclass", "type", "len", "next", "inspect", "itertools", "functools"):
                    raise Unknown("module rebinds %s" % x)
    missing_defs = [n for n in tree.body if isinstance(n, ast.Assign) and len(n.targets) == 1
                    and is_name(n.targets[0], "_MISSING")]
    if not (len(missing_defs) == 1 and is_call_of(missing_defs[0].value, "object", 0)):
        raise Unknown("_MISSING is not a module-level `object()` assigned once")
    if not any(isinstance(n, ast.ImportFrom) and n.module == "traits.adaptation.adaptation_error"
               and [a.name for a in n.names if a.asname is None] == ["AdaptationError"] for n in tree.body):
        raise Unknown("import of AdaptationError not found")
    imports = set()
    for n in tree.body:
        if isinstance(n, ast.Import):
            imports |= {a.asname or a.name for a in n.names}
        if isinstance(n, ast.ImportFrom) and n.module == "heapq":
            imports |= {"heapq." + a.name for a in n.names if a.asname in (None, a.name)}
    for need in ("functools", "inspect", "itertools", "heapq.heappop", "heapq.heappush"):
        if need not in imports:
            raise Unknown("import of %s not found" % need)
    order = METHODS + MODULE_FUNCS
    missing = [m for m in order if m not in found]
    if missing:
        raise Unknown("not found: %s" % missing)
    arity = {}
    for m in order:
        fn, is_method = found[m]
        arity[m] = len(fn.args.args) - (1 if is_method else 0)
    lines = ["/- GENERATED by harness/translate/pyadapt.py from the working tree - do not edit. -/",
             "import TraitsVerif.Model.PyA",
             "namespace TraitsVerif.Generated.AdaptProg",
             "open TraitsVerif TraitsVerif.Model.PyA", ""]
    rows = []
    for m in order:
        fn, is_method = found[m]
        text, row, dflts = Fn(fn, arity, is_method).emit()
        lines.append(text)
        rows.append(row)
        if m == "adapt":
            if len(dflts) != 1:
                raise Unknown("adapt: %d default values" % len(dflts))
            lines.append("/-- the default value of `adapt`'s parameter `default` (a module-level singleton) -/\n"
                         'def adaptDefault : String := "%s"\n' % dflts[0])
    # ---- normalised-text ties for what is NOT interpreted: the registration wrappers and the bucket name
    def text_of(fn):
        body = [x for x in fn.body if not (isinstance(x, ast.Expr) and isinstance(x.value, ast.Constant)
                                           and isinstance(x.value.value, str))]
        return ["def %s(%s)" % (fn.name, ast.unparse(fn.args))] + [" ".join(ast.unparse(x).split()) for x in body]

    def lean_strings(name, doc, rows):
        return ["/-- %s -/" % doc, "def %s : List String := [%s]" % (name, ",\n  ".join(
            '"%s"' % r.replace("\\", "\\\\").replace('"', '\\"') for r in rows)), ""]
    cls_fns = {n.name: n for n in classes[CLASS].body if isinstance(n, ast.FunctionDef)}
    mod_fns = {n.name: n for n in tree.body if isinstance(n, ast.FunctionDef)}
    for need, where in (("register_factory", cls_fns), ("register_provides", cls_fns), ("no_adapter_necessary", mod_fns)):
        if need not in where:
            raise Unknown("%s not found" % need)
    lines += lean_strings("registerFactorySource", "statement texts of `AdaptationManager.register_factory`",
                          text_of(cls_fns["register_factory"]))
    lines += lean_strings("registerProvidesSource", "statement texts of `AdaptationManager.register_provides`",
                          text_of(cls_fns["register_provides"]))
    lines += lean_strings("noAdapterNecessarySource", "statement texts of `no_adapter_necessary`",
                          text_of(mod_fns["no_adapter_necessary"]))
    otree = ast.parse(open(os.path.join(traits_dir, "adaptation", "adaptation_offer.py")).read())
    ocls = [n for n in otree.body if isinstance(n, ast.ClassDef) and n.name == "AdaptationOffer"]
    if len(ocls) != 1:
        raise Unknown("class AdaptationOffer not found")
    ofns = {n.name: n for n in ocls[0].body if isinstance(n, ast.FunctionDef)}
    name_rows = []
    for need in ("_get_from_protocol_name", "_get_type_name"):
        if need not in ofns:
            raise Unknown("AdaptationOffer.%s not found" % need)
        name_rows += text_of(ofns[need])
    lines += lean_strings("offerNameSource", "statement texts of `AdaptationOffer._get_from_protocol_name` and "
                          "`_get_type_name` (the registry's bucket key)", name_rows)
    lines += ["/-- the translated functions of adaptation_manager.py -/", "def adaptProg : Prog := [",
              ",\n".join(rows), "]", "", "end TraitsVerif.Generated.AdaptProg"]
    return "\n".join(lines) + "\n"


if __name__ == "__main__":
    print(emit(sys.argv[1] if len(sys.argv) > 1 else "/repo/traits"), end="")
