"""Translator: the SOURCE TEXT of the persistence methods of `HasTraits`
(traits/has_traits.py: `__getstate__`, `__reduce_ex__`, `__setstate__`,
`copy_traits`, `clone_traits`, `__deepcopy__` - whole functions) and of the
`__getstate__` / `__setstate__` / `__deepcopy__` methods of `TraitListObject`,
`TraitDictObject`, `TraitSetObject` -> terms of the deep-embedded language
`Model/PyPersist.lean` (Generated/PersistProg.lean).  Reads the files with
`ast`; knows SYNTAX only (which calls mean what is the interpreter's business).
A construct outside the language becomes an `opaque` node - the interpreter is
stuck when it reaches one, so the `…_is_source` obligations fail unless the
node sits in code the modelled classes never execute.  Structural problems
(method missing, decorators, *args, nested defs) raise: the translator fails
closed."""
import ast
import os

TARGET = "PersistProg.lean"

HAS_TRAITS_METHODS = ["__getstate__", "__reduce_ex__", "__setstate__", "copy_traits", "clone_traits", "__deepcopy__"]
CONTAINERS = [("trait_list_object.py", "TraitListObject"), ("trait_dict_object.py", "TraitDictObject"),
              ("trait_set_object.py", "TraitSetObject")]
CONTAINER_METHODS = ["__getstate__", "__setstate__", "__deepcopy__"]


class Unknown(ValueError):
    pass


def q(s):
    out = ['"']
    for ch in s:
        if ch == '"':
            out.append('\\"')
        elif ch == "\\":
            out.append("\\\\")
        elif ch == "\n":
            out.append("\\n")
        elif ch == "\t":
            out.append("\\t")
        elif ord(ch) < 32 or ord(ch) > 126:
            out.append("?")
        else:
            out.append(ch)
    out.append('"')
    return "".join(out)


def lst(xs):
    return "[" + ", ".join(xs) + "]"


CMP = {ast.Eq: "==", ast.Is: "is", ast.IsNot: "is not", ast.In: "in", ast.Gt: ">"}


class Fn:
    def __init__(self, fn, consts):
        self.fn = fn
        self.consts = consts
        a = fn.args
        if a.vararg or a.kwonlyargs or getattr(a, "posonlyargs", []):
            raise Unknown("%s: *args / keyword-only / positional-only parameters" % fn.name)
        if fn.decorator_list:
            raise Unknown("%s: decorated" % fn.name)
        if not a.args or a.args[0].arg != "self":
            raise Unknown("%s: first parameter is not self" % fn.name)
        for n in ast.walk(fn):
            if n is not fn and isinstance(n, (ast.FunctionDef, ast.AsyncFunctionDef, ast.ClassDef, ast.Global,
                                              ast.Nonlocal, ast.Yield, ast.YieldFrom, ast.Await)):
                raise Unknown("%s: nested definition / generator" % fn.name)
        self.slots = {"self": 0}
        self.params = []
        names = [x.arg for x in a.args[1:]]
        defaults = [None] * (len(names) - len(a.defaults)) + list(a.defaults)
        for n, d in zip(names, defaults):
            self.slots[n] = len(self.slots)
            self.params.append((n, d))
        self.kwargs = a.kwarg is not None
        if self.kwargs:
            self.slots[a.kwarg.arg] = len(self.slots)
        # every name bound anywhere in the body is a local (Python's scoping rule), comprehension variables included
        for n in ast.walk(fn):
            if isinstance(n, ast.Name) and isinstance(n.ctx, (ast.Store, ast.Del)) and n.id not in self.slots:
                self.slots[n.id] = len(self.slots)

    def slot(self, name):
        return self.slots[name]

    # -- expressions ------------------------------------------------------------------------------
    def opaque_e(self, n):
        return "(.opaque %s)" % q(" ".join(ast.unparse(n).split())[:200])

    def ex(self, n):
        if isinstance(n, ast.Constant):
            if n.value is None:
                return ".noneLit"
            if n.value is True or n.value is False:
                return "(.boolLit %s)" % ("true" if n.value else "false")
            if isinstance(n.value, str):
                return "(.strLit %s)" % q(n.value)
            if isinstance(n.value, int) and n.value >= 0:
                return "(.intLit %d)" % n.value
            return self.opaque_e(n)
        if isinstance(n, ast.Name):
            if n.id in self.slots:
                return "(.var %d)" % self.slots[n.id]
            if n.id in self.consts:
                return "(.strs %s)" % lst(q(s) for s in self.consts[n.id])
            return "(.glob %s)" % q(n.id)
        if isinstance(n, ast.Attribute):
            return "(.attr %s %s)" % (self.ex(n.value), q(n.attr))
        if isinstance(n, ast.Call):
            if any(isinstance(a, ast.Starred) for a in n.args):
                return self.opaque_e(n)
            args = lst(self.ex(a) for a in n.args)
            kwn = lst(q(k.arg if k.arg is not None else "**") for k in n.keywords)
            kwv = lst(self.ex(k.value) for k in n.keywords)
            if isinstance(n.func, ast.Name):
                if n.func.id in self.slots:
                    if n.keywords:
                        return self.opaque_e(n)
                    return "(.callV (.var %d) %s)" % (self.slots[n.func.id], args)
                return "(.callF %s %s %s %s)" % (q(n.func.id), args, kwn, kwv)
            if isinstance(n.func, ast.Attribute):
                return "(.callM %s %s %s %s %s)" % (self.ex(n.func.value), q(n.func.attr), args, kwn, kwv)
            return self.opaque_e(n)
        if isinstance(n, ast.Compare):
            if len(n.ops) == 1 and type(n.ops[0]) in CMP:
                return "(.cmp %s %s %s)" % (q(CMP[type(n.ops[0])]), self.ex(n.left), self.ex(n.comparators[0]))
            return self.opaque_e(n)
        if isinstance(n, ast.BoolOp):
            op = ".or" if isinstance(n.op, ast.Or) else ".and"
            vals = [self.ex(v) for v in n.values]
            out = vals[-1]
            for v in reversed(vals[:-1]):
                out = "(%s %s %s)" % (op, v, out)
            return out
        if isinstance(n, ast.UnaryOp) and isinstance(n.op, ast.Not):
            return "(.not %s)" % self.ex(n.operand)
        if isinstance(n, ast.Tuple):
            return "(.tuple %s)" % lst(self.ex(e) for e in n.elts)
        if isinstance(n, ast.List):
            if not n.elts:
                return ".emptyList"
            return "(.list %s)" % lst(self.ex(e) for e in n.elts)
        if isinstance(n, ast.Dict) and not n.keys:
            return ".emptyDict"
        if isinstance(n, ast.Subscript):
            if isinstance(n.slice, ast.Slice):
                return self.opaque_e(n)
            return "(.sub %s %s)" % (self.ex(n.value), self.ex(n.slice))
        if isinstance(n, (ast.ListComp, ast.SetComp, ast.GeneratorExp)):
            if len(n.generators) == 1 and isinstance(n.generators[0].target, ast.Name) \
                    and not n.generators[0].is_async:
                g = n.generators[0]
                if isinstance(n, ast.ListComp):
                    return "(.listComp %s %d %s %s)" % (self.ex(n.elt), self.slots[g.target.id], self.ex(g.iter),
                                                         lst(self.ex(c) for c in g.ifs))
                if not g.ifs:
                    return "(.%s %s %d %s)" % ("setComp" if isinstance(n, ast.SetComp) else "genExp", self.ex(n.elt),
                                               self.slots[g.target.id], self.ex(g.iter))
            return self.opaque_e(n)
        if isinstance(n, ast.Lambda):
            a = n.args
            if not (a.args or a.vararg or a.kwarg or a.kwonlyargs) and isinstance(n.body, ast.Constant) \
                    and n.body.value is None:
                return ".lambdaNone"
            return self.opaque_e(n)
        return self.opaque_e(n)

    # -- statements -------------------------------------------------------------------------------
    def opaque_s(self, s):
        return "(.opaque %s)" % q(" ".join(ast.unparse(s).split())[:200])

    def st(self, s):
        if isinstance(s, ast.Expr):
            if isinstance(s.value, ast.Constant) and isinstance(s.value.value, str):
                return None                                     # docstring
            return "(.expr %s)" % self.ex(s.value)
        if isinstance(s, ast.Assign):
            if len(s.targets) != 1:
                return self.opaque_s(s)
            t = s.targets[0]
            if isinstance(t, ast.Name):
                return "(.assign %d %s)" % (self.slots[t.id], self.ex(s.value))
            if isinstance(t, ast.Subscript) and not isinstance(t.slice, ast.Slice):
                return "(.assignSub %s %s %s)" % (self.ex(t.value), self.ex(t.slice), self.ex(s.value))
            return self.opaque_s(s)
        if isinstance(s, ast.Delete):
            if len(s.targets) == 1 and isinstance(s.targets[0], ast.Subscript) \
                    and not isinstance(s.targets[0].slice, ast.Slice):
                t = s.targets[0]
                return "(.delSub %s %s)" % (self.ex(t.value), self.ex(t.slice))
            return self.opaque_s(s)
        if isinstance(s, ast.If):
            return "(.ifS %s\n%s\n%s)" % (self.ex(s.test), self.block(s.body), self.block(s.orelse))
        if isinstance(s, ast.For):
            if isinstance(s.target, ast.Name) and not s.orelse:
                return "(.forS %d %s\n%s)" % (self.slots[s.target.id], self.ex(s.iter), self.block(s.body))
            return self.opaque_s(s)
        if isinstance(s, ast.Try):
            if len(s.handlers) == 1 and s.handlers[0].type is None and s.handlers[0].name is None \
                    and not s.orelse and not s.finalbody:
                return "(.tryS\n%s\n%s)" % (self.block(s.body), self.block(s.handlers[0].body))
            return self.opaque_s(s)
        if isinstance(s, ast.Continue):
            return ".cont"
        if isinstance(s, ast.Pass):
            return ".skip"
        if isinstance(s, ast.Return):
            return "(.ret %s)" % (self.ex(s.value) if s.value is not None else ".noneLit")
        return self.opaque_s(s)

    def block(self, stmts):
        parts = [p for p in (self.st(s) for s in stmts) if p is not None]
        if not parts:
            return ".skip"
        out = parts[-1]
        for p in reversed(parts[:-1]):
            out = "(.seq %s\n%s)" % (p, out)
        return out

    def emit(self):
        params = lst("(%s, %s)" % (q(n), "none" if d is None else "some %s" % self.ex(d)) for n, d in self.params)
        names = sorted(self.slots, key=self.slots.get)
        return ("  -- %s: slots %s\n  (%s, { params := %s, kwargs := %s, nslots := %d, body :=\n%s })"
                % (self.fn.name, " ".join("%d=%s" % (self.slots[n], n) for n in names), q(self.fn.name), params,
                   "true" if self.kwargs else "false", len(self.slots), self.block(self.fn.body)))


def module_consts(tree):
    """Module-level `NAME = ("a", "b", …)` tuples of string constants (assigned once)."""
    out, seen = {}, {}
    for n in tree.body:
        if isinstance(n, ast.Assign) and len(n.targets) == 1 and isinstance(n.targets[0], ast.Name):
            name = n.targets[0].id
            seen[name] = seen.get(name, 0) + 1
            if isinstance(n.value, ast.Tuple) and n.value.elts and all(
                    isinstance(e, ast.Constant) and isinstance(e.value, str) for e in n.value.elts):
                out[name] = [e.value for e in n.value.elts]
    return {k: v for k, v in out.items() if seen[k] == 1}


def methods_of(tree, cname, wanted):
    classes = [n for n in tree.body if isinstance(n, ast.ClassDef) and n.name == cname]
    if len(classes) != 1:
        raise Unknown("%d definitions of class %s" % (len(classes), cname))
    found = {}
    for n in classes[0].body:
        if isinstance(n, ast.FunctionDef) and n.name in wanted:
            if n.name in found:
                raise Unknown("%s.%s defined twice" % (cname, n.name))
            found[n.name] = n
    # a definition hidden in an `if` / `try` inside the class body would be missed: refuse
    for n in ast.walk(classes[0]):
        if isinstance(n, ast.FunctionDef) and n.name in wanted and found.get(n.name) is not n:
            raise Unknown("%s.%s: conditional or nested definition" % (cname, n.name))
    missing = [m for m in wanted if m not in found]
    if missing:
        raise Unknown("%s: methods %s not found" % (cname, missing))
    return [found[m] for m in wanted]


def emit(traits_dir):
    L = ["/- GENERATED by harness/translate/pypersist.py from the working tree - do not edit. -/",
         "import TraitsVerif.Model.PyPersist",
         "namespace TraitsVerif.Generated.PersistProg",
         "open TraitsVerif TraitsVerif.Model.PyP", ""]
    tree = ast.parse(open(os.path.join(traits_dir, "has_traits.py")).read())
    consts = module_consts(tree)
    L.append("/-- the persistence methods of `HasTraits` (traits/has_traits.py) -/")
    L.append("def hasTraitsProg : List (String × Func) := [")
    L.append(",\n".join(Fn(f, consts).emit() for f in methods_of(tree, "HasTraits", HAS_TRAITS_METHODS)))
    L.append("]")
    L.append("")
    for fname, cname in CONTAINERS:
        t = ast.parse(open(os.path.join(traits_dir, fname)).read())
        c = module_consts(t)
        L.append("/-- `__getstate__` / `__setstate__` / `__deepcopy__` of `%s` (traits/%s) -/" % (cname, fname))
        L.append("def %sProg : List (String × Func) := [" % (cname[0].lower() + cname[1:]))
        L.append(",\n".join(Fn(f, c).emit() for f in methods_of(t, cname, CONTAINER_METHODS)))
        L.append("]")
        L.append("")
    L.append("end TraitsVerif.Generated.PersistProg")
    return "\n".join(L) + "\n"


if __name__ == "__main__":
    import sys
    print(emit(sys.argv[1] if len(sys.argv) > 1 else "/repo/traits"), end="")
