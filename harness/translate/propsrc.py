"""Translator for C12 (source tie `C12_step_is_source`): the code behind a read and an invalidation of a
`Property(observe=...)` as TERMS of the deep embedding `Model/PropL.lean`.

Python (`ast`), traits/has_traits.py:
  * `_create_property_observe_state.handler`            -> `handlerProg : Stmt`
  * `cached_property`: the assignment of the closure variable `name` followed by the body of `decorator`
                                                         -> `decoratorProg : Stmt`
  * the `dict(...)` returned by `_create_property_observe_state`: `post_init`  -> `postInit : Bool`
C (tokenizer + recursive descent), traits/ctraits.c:
  * the body of `trait_property_changed`                 -> `tpcBody : CStmt`
  * `getattr_property1`: the getter is called with exactly the object  -> `getterArgs : List String`

Locals are numbered by first occurrence (a renamed local gives the same term).  Anything outside the small grammar
(another statement kind, another call, an unknown C identifier) raises: the check then fails closed.
"""
import ast
import os
import re

TARGET = "PropertyProg.lean"


class Unsupported(ValueError):
    pass


def lean_s(x):
    return '"' + x.replace("\\", "\\\\").replace('"', '\\"') + '"'


def _find(body, kind, name):
    for n in body:
        if isinstance(n, kind) and n.name == name:
            return n
    raise Unsupported("%s %s not found" % (kind.__name__, name))


def _body(fn):
    body = list(fn.body)
    if body and isinstance(body[0], ast.Expr) and isinstance(getattr(body[0], "value", None), ast.Constant) \
            and isinstance(body[0].value.value, str):
        body = body[1:]
    return body


class PyTr:
    """statements of one function -> PropL.Stmt"""

    def __init__(self, receiver, closure_strings=(), legacy=False):
        self.receiver = receiver
        self.vars = {}          # local name -> (index, 's' | 'v')
        self.closure_strings = closure_strings
        self.legacy = legacy    # inside _init_trait_property_listener: `cached` / `name` are its string parameters
        self.dict_alias = set()

    def idx(self, name, kind):
        if name not in self.vars:
            self.vars[name] = (len(self.vars), kind)
        i, k = self.vars[name]
        if k != kind:
            raise Unsupported("local %s used as both a key and a value" % name)
        return i

    def is_dict(self, e):
        if isinstance(e, ast.Name) and e.id in self.dict_alias:
            return True
        return isinstance(e, ast.Attribute) and e.attr == "__dict__" and isinstance(e.value, ast.Name) \
            and e.value.id == self.receiver

    def sexpr(self, e):
        if isinstance(e, ast.Name):
            if e.id == "TraitsCache":
                return ".traitsCache"
            if e.id == "property_name" or (self.legacy and e.id == "name"):
                return ".propName"
            if self.legacy and e.id == "cached":
                return ".cachedParam"
            if e.id in self.vars and self.vars[e.id][1] == "s":
                return "(.var %d)" % self.vars[e.id][0]
            raise Unsupported("string name %s" % e.id)
        if isinstance(e, ast.Attribute) and e.attr == "__name__" and isinstance(e.value, ast.Name) \
                and e.value.id == "function":
            return ".funcName"
        if self.legacy and isinstance(e, ast.Constant) and e.value == ":old":
            return ".oldSuffix"
        if isinstance(e, ast.BinOp) and isinstance(e.op, ast.Add):
            return "(.cat %s %s)" % (self.sexpr(e.left), self.sexpr(e.right))
        if isinstance(e, ast.Subscript) and isinstance(e.slice, ast.Slice) and e.slice.upper is None \
                and e.slice.step is None and isinstance(e.slice.lower, ast.Constant) \
                and isinstance(e.slice.lower.value, int) and e.slice.lower.value >= 0:
            return "(.dropLeft %d %s)" % (e.slice.lower.value, self.sexpr(e.value))
        raise Unsupported("string expression %s" % ast.unparse(e))

    def is_sexpr(self, e):
        try:
            self.sexpr(e)
            return True
        except Unsupported:
            return False

    def vexpr(self, e):
        if isinstance(e, ast.Name):
            if e.id == "Undefined":
                return ".undefined"
            if e.id in self.vars and self.vars[e.id][1] == "v":
                return "(.var %d)" % self.vars[e.id][0]
            raise Unsupported("value name %s" % e.id)
        if isinstance(e, ast.Constant) and e.value is None:
            return ".none"
        if isinstance(e, ast.Call) and not e.keywords:
            f = e.func
            if isinstance(f, ast.Attribute) and f.attr in ("pop", "get") and self.is_dict(f.value) and len(e.args) == 2:
                return "(.dict%s %s %s)" % ("Pop" if f.attr == "pop" else "Get", self.sexpr(e.args[0]),
                                            self.vexpr(e.args[1]))
            if isinstance(f, ast.Name) and f.id == "function" and len(e.args) == 1 \
                    and isinstance(e.args[0], ast.Name) and e.args[0].id == self.receiver:
                return ".callFunction"
        raise Unsupported("value expression %s" % ast.unparse(e))

    def cond(self, e):
        if isinstance(e, ast.Name) and e.id == "cached":
            return ".cachedFlag"
        if isinstance(e, ast.Compare) and len(e.ops) == 1 and isinstance(e.left, ast.Name) \
                and isinstance(e.comparators[0], ast.Name) and e.comparators[0].id == "Undefined" \
                and e.left.id in self.vars and self.vars[e.left.id][1] == "v":
            i = self.vars[e.left.id][0]
            if isinstance(e.ops[0], ast.Is):
                return "(.isUndefined %d)" % i
            if isinstance(e.ops[0], ast.IsNot):
                return "(.isNotUndefined %d)" % i
        raise Unsupported("condition %s" % ast.unparse(e))

    def stmt(self, n):
        if isinstance(n, ast.Pass):
            return ".skip"
        if isinstance(n, ast.Assign):
            if len(n.targets) == 1 and isinstance(n.targets[0], ast.Name) and isinstance(n.value, ast.Attribute) \
                    and n.value.attr == "__dict__" and isinstance(n.value.value, ast.Name) \
                    and n.value.value.id == self.receiver:
                self.dict_alias.add(n.targets[0].id)        # `dict = self.__dict__`: an alias, no data
                return ".skip"
            if len(n.targets) == 1 and isinstance(n.targets[0], ast.Subscript) and self.is_dict(n.targets[0].value):
                return "(.dictSet %s %s)" % (self.sexpr(n.targets[0].slice), self.vexpr(n.value))
            if len(n.targets) == 1 and isinstance(n.targets[0], ast.Name):
                t = n.targets[0].id
                if self.is_sexpr(n.value):
                    e = self.sexpr(n.value)
                    return "(.assignS %d %s)" % (self.idx(t, "s"), e)
                e = self.vexpr(n.value)
                return "(.assign %d %s)" % (self.idx(t, "v"), e)
            if len(n.targets) == 2 and isinstance(n.targets[0], ast.Subscript) and self.is_dict(n.targets[0].value) \
                    and isinstance(n.targets[1], ast.Name):
                k = self.sexpr(n.targets[0].slice)
                e = self.vexpr(n.value)
                return "(.dictSetAssign %s %d %s)" % (k, self.idx(n.targets[1].id, "v"), e)
            raise Unsupported("assignment %s" % ast.unparse(n))
        if isinstance(n, ast.If):
            c = self.cond(n.test)
            return "(.ite %s %s %s)" % (c, self.block(n.body), self.block(n.orelse))
        if isinstance(n, ast.Expr) and isinstance(n.value, ast.Call):
            c = n.value
            if isinstance(c.func, ast.Attribute) and c.func.attr == "trait_property_changed" \
                    and isinstance(c.func.value, ast.Name) and c.func.value.id == self.receiver \
                    and len(c.args) == 2 and not c.keywords:
                return "(.propertyChanged %s %s)" % (self.sexpr(c.args[0]), self.vexpr(c.args[1]))
        if isinstance(n, ast.Return) and isinstance(n.value, ast.Name) and n.value.id in self.vars \
                and self.vars[n.value.id][1] == "v":
            return "(.ret %d)" % self.vars[n.value.id][0]
        raise Unsupported("statement %s" % ast.unparse(n))

    def block(self, stmts):
        if not stmts:
            return ".skip"
        terms = [self.stmt(s) for s in stmts]
        out = terms[-1]
        for t in reversed(terms[:-1]):
            out = "(.seq %s %s)" % (t, out)
        return out


# ---------------------------------------------------------------------------------------------------- C
C_VARS = ["obj", "name", "old_value", "new_value", "trait", "tnotifiers", "onotifiers", "null_new_value", "rc"]
C_FUNS = ["get_trait", "has_notifiers", "has_traits_getattro", "call_notifiers"]
C_TYPES = ["trait_object", "PyListObject", "int", "PyObject", "has_traits_object"]


def c_function(src, name):
    m = re.search(r"\n%s\(([^)]*)\)\s*\{" % re.escape(name), src)
    if not m:
        raise Unsupported("C function %s not found" % name)
    i = m.end() - 1
    depth = 0
    for j in range(i, len(src)):
        if src[j] == "{":
            depth += 1
        elif src[j] == "}":
            depth -= 1
            if depth == 0:
                return m.group(1), src[i + 1:j]
    raise Unsupported("unbalanced braces")


def c_tokens(text):
    text = re.sub(r"/\*.*?\*/", " ", text, flags=re.S)
    toks = re.findall(r"[A-Za-z_][A-Za-z_0-9]*|\d+|==|->|[(){};,=*\-]", text)
    if "".join(toks) != re.sub(r"\s+", "", text):
        raise Unsupported("C: characters outside the token set")
    return toks


class CParse:
    def __init__(self, toks):
        self.t = toks
        self.i = 0

    def peek(self, k=0):
        return self.t[self.i + k] if self.i + k < len(self.t) else None

    def eat(self, x=None):
        tok = self.peek()
        if tok is None or (x is not None and tok != x):
            raise Unsupported("C: expected %r, found %r at token %d" % (x, tok, self.i))
        self.i += 1
        return tok

    def var(self, tok):
        if tok not in C_VARS:
            raise Unsupported("C: unknown identifier %s" % tok)
        return "." + tok

    def primary(self):
        tok = self.peek()
        if tok == "(":
            # cast: ( type * )
            if self.peek(1) in C_TYPES and self.peek(2) == "*" and self.peek(3) == ")":
                self.i += 4
                return self.primary()
            self.eat("(")
            if self.peek(1) == "=" and self.peek() in C_VARS:
                v = self.eat()
                self.eat("=")
                e = self.expr()
                self.eat(")")
                return ("assign", v, e)
            e = self.expr()
            self.eat(")")
            return e
        if tok == "NULL":
            self.eat()
            return ("null",)
        if tok == "-" or (tok is not None and tok.isdigit()):
            neg = tok == "-"
            if neg:
                self.eat()
            n = int(self.eat())
            return ("int", -n if neg else n)
        self.eat()
        if self.peek() == "(":
            if tok not in C_FUNS:
                raise Unsupported("C: unknown function %s" % tok)
            self.eat("(")
            args, lits = [], []
            while self.peek() != ")":
                a = self.primary()
                if a[0] == "var" and not lits:
                    args.append(a[1])
                elif a[0] == "int":
                    lits.append(a[1])
                else:
                    raise Unsupported("C: argument of %s" % tok)
                if self.peek() == ",":
                    self.eat()
            self.eat(")")
            return ("call", tok, args, lits)
        if self.peek() == "->":
            self.eat()
            f = self.eat()
            if f != "notifiers":
                raise Unsupported("C: field %s" % f)
            return ("notifiersOf", tok)
        return ("var", tok)

    def expr(self):
        e = self.primary()
        if self.peek() == "==":
            self.eat()
            self.eat("NULL")
            if e[0] == "var":
                return ("isNull", e[1])
            if e[0] == "assign":
                return ("assignNull", e[1], e[2])
            raise Unsupported("C: == NULL of a compound expression")
        return e

    def show(self, e):
        k = e[0]
        if k == "var":
            return "(.var %s)" % self.var(e[1])
        if k == "null":
            return ".null"
        if k == "int":
            return "(.int (%d))" % e[1]
        if k == "notifiersOf":
            return "(.notifiersOf %s)" % self.var(e[1])
        if k == "isNull":
            return "(.isNull %s)" % self.var(e[1])
        if k == "call":
            return "(.call .%s [%s] [%s])" % (e[1], ", ".join(self.var(a) for a in e[2]),
                                             ", ".join("(%d)" % n for n in e[3]))
        raise Unsupported("C: expression %r in this position" % (e,))

    def block(self):
        self.eat("{")
        out = []
        while self.peek() != "}":
            s = self.stmt()
            if s is not None:
                out.append(s)
        self.eat("}")
        return self.seq(out)

    @staticmethod
    def seq(terms):
        if not terms:
            return ".skip"
        out = terms[-1]
        for t in reversed(terms[:-1]):
            out = "(.seq %s %s)" % (t, out)
        return out

    def stmt(self):
        tok = self.peek()
        if tok in C_TYPES:                       # declaration [with initialiser]
            self.eat()
            if self.peek() == "*":
                self.eat()
            v = self.eat()
            if self.peek() == "=":
                self.eat()
                e = self.expr()
                self.eat(";")
                return "(.assign %s %s)" % (self.var(v), self.show(e))
            self.eat(";")
            self.var(v)
            return None
        if tok == "if":
            self.eat()
            self.eat("(")
            c = self.expr()
            self.eat(")")
            body = self.block()
            if self.peek() == "else":
                raise Unsupported("C: else")
            if c[0] == "assignNull":
                return "(.ifAssignNull %s %s %s)" % (self.var(c[1]), self.show(c[2]), body)
            return "(.ifS %s %s)" % (self.show(c), body)
        if tok == "return":
            self.eat()
            e = self.expr()
            self.eat(";")
            return "(.ret %s)" % self.show(e)
        if tok == "Py_DECREF":
            self.eat()
            self.eat("(")
            v = self.eat()
            self.eat(")")
            self.eat(";")
            return "(.decref %s)" % self.var(v)
        v = self.eat()
        self.eat("=")
        e = self.expr()
        self.eat(";")
        return "(.assign %s %s)" % (self.var(v), self.show(e))


# ------------------------------------------------------------------------------- C property handlers as data
H_ARGS = ["obj", "name", "value", "trait", "traito", "traitd", "validated"]
H_FIELDS = ["delegate_name", "delegate_prefix", "py_validate", "validate", "post_setattr"]
H_WHO = ["trait", "traito", "traitd"]


def _norm_handler(csrc, name):
    """tokens of the body joined by one blank, without declarations that initialise nothing, casts to PyObject*
    and reference-count statements (none of them carries data)"""
    _, body = c_function(csrc, name)
    text = re.sub(r"/\*.*?\*/", " ", body, flags=re.S)
    toks = re.findall(r"[A-Za-z_][A-Za-z_0-9]*|\d+|==|->|[(){};,=*\-]", text)
    if "".join(toks) != re.sub(r"\s+", "", text):
        raise Unsupported("%s: characters outside the token set" % name)
    t = " ".join(toks) + " "
    t = re.sub(r"\( PyObject \* \) ", "", t)
    t = re.sub(r"(?:PyObject|int) \* ?[a-z_]+ ; ", "", t)
    t = re.sub(r"(?<![A-Za-z_])int [a-z_]+ ; ", "", t)
    t = re.sub(r"Py_X?DECREF \( [a-z_]+ \) ; ", "", t)
    return t.strip()


def _tuple(m_new, k, args, who):
    if m_new:
        return []
    al = [x.strip() for x in args.split(",")]
    if int(k) != len(al) or any(x not in H_ARGS for x in al):
        raise Unsupported("%s: argument tuple" % who)
    return al


def _callh(who, field, args, fn):
    if who not in H_WHO or field not in H_FIELDS or any(a not in H_ARGS for a in args):
        raise Unsupported("%s: callee / arguments" % fn)
    return "⟨.%s, .%s, [%s]⟩" % (who, field, ", ".join("." + a for a in args))


TUPLE_RE = r"(?:(?P<new>PyTuple_New \( 0 \))|PyTuple_Pack \( (?P<k>\d+) , (?P<args>[a-z_ ,]+) \))"


def read_call_handler(csrc, fn):
    t = _norm_handler(csrc, fn)
    m = re.fullmatch(r"(?:PyObject \* )?(?P<a>[a-z_]+) = " + TUPLE_RE + r" ; if \( (?P=a) == NULL \) \{ return NULL ; \} "
                     r"(?P<r>[a-z_]+) = PyObject_Call \( (?P<who>[a-z_]+) -> (?P<field>[a-z_]+) , (?P=a) , NULL \) ; "
                     r"return (?P=r) ;", t)
    if not m:
        raise Unsupported("%s: unexpected shape: %s" % (fn, t))
    return _callh(m.group("who"), m.group("field"), _tuple(m.group("new"), m.group("k"), m.group("args"), fn), fn)


DEL_GUARD = r"(?P<del>if \( value == NULL \) \{ return set_delete_property_error \( obj , name \) ; \} )?"


def read_set_handler(csrc, fn):
    t = _norm_handler(csrc, fn)
    m = re.fullmatch(DEL_GUARD + r"(?P<a>[a-z_]+) = " + TUPLE_RE + r" ; if \( (?P=a) == NULL \) \{ return - 1 ; \} "
                     r"(?P<r>[a-z_]+) = PyObject_Call \( (?P<who>[a-z_]+) -> (?P<field>[a-z_]+) , (?P=a) , NULL \) ; "
                     r"(?P<nul>if \( (?P=r) == NULL \) \{ return - 1 ; \} )?return 0 ;", t)
    if m and (m.group("a") in H_ARGS or m.group("r") in H_ARGS or m.group("a") == m.group("r")):
        raise Unsupported("%s: a local shadows a parameter" % fn)
    if not m:
        raise Unsupported("%s: unexpected shape: %s" % (fn, t))
    call = _callh(m.group("who"), m.group("field"), _tuple(m.group("new"), m.group("k"), m.group("args"), fn), fn)
    return "{ deleteGuard := %s, call := %s, failOnNull := %s }" % (
        "true" if m.group("del") else "false", call, "true" if m.group("nul") else "false")


def read_validate_set(csrc):
    fn = "setattr_validate_property"
    t = _norm_handler(csrc, fn)
    m = re.fullmatch(DEL_GUARD + r"validated = (?P<w1>[a-z_]+) -> (?P<f1>[a-z_]+) \( (?P<a1>[a-z_ ,]+) \) ; "
                     r"(?P<nul>if \( validated == NULL \) \{ return - 1 ; \} )?"
                     r"result = \( \( trait_setattr \) (?P<w2>[a-z_]+) -> (?P<f2>[a-z_]+) \) \( (?P<a2>[a-z_ ,]+) \) ; "
                     r"return (?P<ret>[a-z_]+) ;", t)
    if not m:
        raise Unsupported("%s: unexpected shape: %s" % (fn, t))
    a1 = [x.strip() for x in m.group("a1").split(",")]
    a2 = [x.strip() for x in m.group("a2").split(",")]
    return ("{ deleteGuard := %s, validate := %s, failOnNull := %s, set := %s, returnsSetResult := %s }" % (
        "true" if m.group("del") else "false", _callh(m.group("w1"), m.group("f1"), a1, fn),
        "true" if m.group("nul") else "false", _callh(m.group("w2"), m.group("f2"), a2, fn),
        "true" if m.group("ret") == "result" else "false"))


def read_table(csrc, decl, prefix):
    m = re.search(re.escape(decl) + r"\[\]\s*=\s*\{(.*?)\};", csrc, flags=re.S)
    if not m:
        raise Unsupported("table %s" % decl)
    items = [x.strip() for x in re.sub(r"/\*.*?\*/", " ", m.group(1), flags=re.S).split(",") if x.strip()]
    out = []
    for it in items:
        mm = re.fullmatch(re.escape(prefix) + r"(\d)", it)
        if not mm:
            break               # (the set table continues with entries used by __getstate__ only)
        out.append(int(mm.group(1)))
    if len(out) != 4:
        raise Unsupported("table %s: %s" % (decl, items))
    return out


def read_install(csrc):
    _, body = c_function(csrc, "_trait_set_property")
    t = re.sub(r"\s+", " ", re.sub(r"/\*.*?\*/", " ", body, flags=re.S))
    m = re.search(r"trait->getattr = getattr_property_handlers\[(\w+)\]; if \((.*?)\) \{ "
                  r"trait->setattr = (\w+); trait->post_setattr = \(trait_post_setattr\) ?setattr_property_handlers\[(\w+)\]; "
                  r"trait->validate = setattr_validate_handlers\[(\w+)\]; \} else \{ "
                  r"trait->setattr = setattr_property_handlers\[(\w+)\]; \}", t)
    if not m:
        raise Unsupported("_trait_set_property: installation block")
    fields = re.findall(r"trait->(delegate_name|delegate_prefix|py_validate) = (\w+);", t)
    if [f for f, _ in fields] != ["delegate_name", "delegate_prefix", "py_validate"]:
        raise Unsupported("_trait_set_property: fields %s" % fields)
    pm = re.search(r'PyArg_ParseTuple\( args, "OiOiOi", &get, &get_n, &set, &set_n, &validate, &validate_n\)', t)
    if not pm:
        raise Unsupported("_trait_set_property: argument order")
    return m.groups(), fields


def read_property_fields(traits_dir):
    """ctrait.py `property_fields` setter: how the arity handed to `_set_property` is computed"""
    tree = ast.parse(open(os.path.join(traits_dir, "ctrait.py")).read())
    cls = _find(tree.body, ast.ClassDef, "CTrait")
    setters = [n for n in cls.body if isinstance(n, ast.FunctionDef) and n.name == "property_fields"
               and any(ast.unparse(d) == "property_fields.setter" for d in n.decorator_list)]
    if len(setters) != 1:
        raise Unsupported("CTrait.property_fields setter")
    fn = setters[0]
    # alpha-normalise: parameters and locals numbered by first occurrence
    names = {}

    class Ren(ast.NodeTransformer):
        def visit_arg(self, a):
            names.setdefault(a.arg, "x%d" % len(names))
            a.arg = names[a.arg]
            return a

        def visit_Name(self, n):
            if isinstance(n.ctx, ast.Store):
                names.setdefault(n.id, "x%d" % len(names))
            if n.id in names:
                n.id = names[n.id]
            return n
    body = [Ren().visit(n) for n in [fn.args] + _body(fn)][1:]
    text = "\n".join(ast.unparse(ast.fix_missing_locations(n)) for n in body)
    want = ("x2 = []\nfor x3 in x1:\n    if x3 is None:\n        x4 = 0\n    else:\n        x5 = inspect.signature(x3)\n"
            "        x4 = len(x5.parameters)\n    x2.extend([x3, x4])\nx0._set_property(*x2)")
    if text != want:
        raise Unsupported("CTrait.property_fields setter: unexpected body:\n%s" % text)
    # what the recognised body means, as data
    return {"noneArity": 0, "arity": "len(signature.parameters)", "pairOrder": ["callable", "arity"]}


def read_property_factory(traits_dir):
    """traits.py Property(): which callables become (fget, fset, fvalidate) when one is missing"""
    tree = ast.parse(open(os.path.join(traits_dir, "traits.py")).read())
    pf = _find(tree.body, ast.FunctionDef, "Property")
    blk = [n for n in pf.body if isinstance(n, ast.If) and ast.unparse(n.test) == "fget is None"]
    if len(blk) != 1:
        raise Unsupported("traits.Property: default getter / setter block")
    n = blk[0]
    inner = [x for x in n.body if isinstance(x, ast.If)]
    if len(inner) != 1 or ast.unparse(inner[0].test) != "fset is None":
        raise Unsupported("traits.Property: inner block")
    both = [ast.unparse(x) for x in inner[0].body]
    wo = [ast.unparse(x) for x in inner[0].orelse]
    if len(n.orelse) != 1 or not isinstance(n.orelse[0], ast.If) or ast.unparse(n.orelse[0].test) != "fset is None":
        raise Unsupported("traits.Property: elif")
    ro = [ast.unparse(x) for x in n.orelse[0].body if "transient" not in ast.unparse(x)]
    if both != ["fget = _undefined_get", "fset = _undefined_set"] or wo != ["fget = _write_only"] \
            or ro != ["fset = _read_only"]:
        raise Unsupported("traits.Property: defaults %s %s %s" % (both, wo, ro))
    asg = [ast.unparse(x) for x in pf.body if isinstance(x, ast.Assign) and "property_fields" in ast.unparse(x)]
    if asg != ["trait.property_fields = (fget, fset, fvalidate)"]:
        raise Unsupported("traits.Property: property_fields %s" % asg)
    ttree = ast.parse(open(os.path.join(traits_dir, "trait_type.py")).read())
    src = ast.unparse(ttree)
    if "trait.property_fields = (getter, setter, validate)" not in src:
        raise Unsupported("TraitType.as_ctrait: property_fields")
    return ["fget", "fset", "fvalidate"]


def read_legacy(tree):
    """HasTraits._init_trait_property_listener -> (notify without cache, pre_notify, notify with cache, registrations)"""
    ht = _find(tree.body, ast.ClassDef, "HasTraits")
    fn = _find(ht.body, ast.FunctionDef, "_init_trait_property_listener")
    if [a.arg for a in fn.args.args] != ["self", "name", "kind", "cached", "pattern"]:
        raise Unsupported("_init_trait_property_listener: signature")
    body = _body(fn)
    if len(body) != 2 or not isinstance(body[0], ast.If) or ast.unparse(body[0].test) != "cached is None":
        raise Unsupported("_init_trait_property_listener: shape")
    regs = []

    def handler(f, prefix):
        if [ast.unparse(d) for d in f.decorator_list] != ["weak_arg(self)"] or [a.arg for a in f.args.args] != ["self"]:
            raise Unsupported("legacy handler %s: decorator / signature" % f.name)
        return PyTr("self", legacy=True).block(prefix + _body(f))
    unc = body[0].body
    if len(unc) != 1 or not isinstance(unc[0], ast.FunctionDef):
        raise Unsupported("legacy: uncached branch")
    final = ast.unparse(body[1])
    notify_name = unc[0].name
    notify_unc = handler(unc[0], [])
    els = body[0].orelse
    if len(els) != 4 or not isinstance(els[0], ast.Assign) or not isinstance(els[1], ast.FunctionDef) \
            or not isinstance(els[3], ast.FunctionDef) or els[3].name != notify_name:
        raise Unsupported("legacy: cached branch")
    pre = handler(els[1], [els[0]])
    notify_c = handler(els[3], [els[0]])
    want_pre = "self.on_trait_change(%s, pattern, priority=True, target=self)" % els[1].name
    want_fin = "self.on_trait_change(%s, pattern, target=self)" % notify_name
    if ast.unparse(els[2]) != want_pre or final != want_fin:
        raise Unsupported("legacy: registrations %s / %s" % (ast.unparse(els[2]), final))
    # registration order and priorities, with the handler names abstracted
    regs = ["pre_notify:priority", "notify"]
    return notify_unc, pre, notify_c, regs


def emit(traits_dir):
    tree = ast.parse(open(os.path.join(traits_dir, "has_traits.py")).read())
    cpos = _find(tree.body, ast.FunctionDef, "_create_property_observe_state")
    handler = _find(cpos.body, ast.FunctionDef, "handler")
    if [a.arg for a in handler.args.args] != ["instance", "event"]:
        raise Unsupported("handler signature")
    handler_term = PyTr("instance").block(_body(handler))
    ret = [n for n in cpos.body if isinstance(n, ast.Return)]
    if len(ret) != 1 or not isinstance(ret[0].value, ast.Call):
        raise Unsupported("_create_property_observe_state: return")
    kw = {k.arg: k.value for k in ret[0].value.keywords}
    if not (isinstance(kw.get("post_init"), ast.Constant) and isinstance(kw["post_init"].value, bool)):
        raise Unsupported("post_init")
    hg = _find(cpos.body, ast.FunctionDef, "handler_getter")
    if ast.unparse(hg.body[-1]) != "return types.MethodType(handler, instance)" \
            or ast.unparse(kw.get("handler_getter")) != "handler_getter":
        raise Unsupported("handler_getter does not hand out `handler`")
    cp = _find(tree.body, ast.FunctionDef, "cached_property")
    deco = _find(cp.body, ast.FunctionDef, "decorator")
    if [a.arg for a in deco.args.args] != ["self"]:
        raise Unsupported("decorator signature")
    outer = [n for n in _body(cp) if isinstance(n, ast.Assign) and isinstance(n.targets[0], ast.Name)]
    if len(outer) != 1 or ast.unparse(_body(cp)[-1]) != "return decorator":
        raise Unsupported("cached_property: assignments / return")
    tr = PyTr("self")
    deco_term = tr.block(outer + _body(deco))
    # C
    csrc = open(os.path.join(traits_dir, "ctraits.c")).read()
    params, body = c_function(csrc, "trait_property_changed")
    if re.sub(r"\s+", " ", params).strip() != \
            "has_traits_object *obj, PyObject *name, PyObject *old_value, PyObject *new_value":
        raise Unsupported("trait_property_changed: parameters")
    pz = CParse(["{"] + c_tokens(body) + ["}"])
    tpc_term = pz.block()
    if pz.i != len(pz.t):
        raise Unsupported("trait_property_changed: trailing tokens")
    _, g1 = c_function(csrc, "getattr_property1")
    m = re.search(r"PyTuple_Pack\(\s*(\d+)\s*,([^;]*)\);", g1)
    if not m or "PyObject_Call(trait->delegate_name, args, NULL)" not in re.sub(r"\s+", " ", g1):
        raise Unsupported("getattr_property1")
    gargs = [re.sub(r"\(PyObject \*\)|\s", "", a) for a in m.group(2).split(",")]
    if int(m.group(1)) != len(gargs):
        raise Unsupported("getattr_property1: argument count")
    leg_unc, leg_pre, leg_notify, leg_regs = read_legacy(tree)
    gets = [read_call_handler(csrc, "getattr_property%d" % i) for i in range(4)]
    sets = [read_set_handler(csrc, "setattr_property%d" % i) for i in range(4)]
    vals = [read_call_handler(csrc, "setattr_validate%d" % i) for i in range(4)]
    vset = read_validate_set(csrc)
    (get_ix, cond, vsetattr, post_ix, val_ix, plain_ix), fields = read_install(csrc)
    tables = (read_table(csrc, "getattr_property_handlers", "getattr_property"),
              read_table(csrc, "setattr_property_handlers", "setattr_property"),
              read_table(csrc, "setattr_validate_handlers", "setattr_validate"))
    pf = read_property_fields(traits_dir)
    order = read_property_factory(traits_dir)
    lines = [
        "/- GENERATED by harness/translate/propsrc.py from the working tree - do not edit. -/",
        "import TraitsVerif.Model.PropL",
        "namespace TraitsVerif.Generated.PropertyProg",
        "open TraitsVerif.Model.PropL", "",
        "/-- `_create_property_observe_state.handler` (traits/has_traits.py) -/",
        "def handlerProg : Stmt :=\n  %s" % handler_term, "",
        "/-- `cached_property`: `name = …` and the body of `decorator` (traits/has_traits.py) -/",
        "def decoratorProg : Stmt :=\n  %s" % deco_term, "",
        "/-- `HasTraits._init_trait_property_listener` (legacy `depends_on`): `notify` of an uncached property,",
        "`pre_notify` and `notify` of a cached one (each preceded by `cached_old = cached + ':old'`), and the order /",
        "priority in which they are registered with `on_trait_change(…, pattern, target=self)` -/",
        "def legacyNotifyUncachedProg : Stmt :=\n  %s" % leg_unc,
        "def legacyPreNotifyProg : Stmt :=\n  %s" % leg_pre,
        "def legacyNotifyProg : Stmt :=\n  %s" % leg_notify,
        "def legacyRegistrations : List String := [%s]" % ", ".join(lean_s(x) for x in leg_regs), "",
        "/-- `state['post_init']` of the property's observer -/",
        "def postInit : Bool := %s" % ("true" if kw["post_init"].value else "false"), "",
        "/-- body of `trait_property_changed` (traits/ctraits.c) -/",
        "def tpcBody : CStmt :=\n  %s" % tpc_term, "",
        "/-- what `getattr_property1` passes to the getter -/",
        "def getterArgs : List String := [%s]" % ", ".join('"%s"' % a for a in gargs), "",
        "/-- `getattr_property0..3`, `setattr_property0..3`, `setattr_validate0..3`, `setattr_validate_property`,",
        "the three handler tables and `_trait_set_property` (traits/ctraits.c) -/",
        "def handlers : Handlers :=",
        "  { get := [%s]," % ", ".join(gets),
        "    set := [%s]," % ",\n            ".join(sets),
        "    validate := [%s]," % ", ".join(vals),
        "    vset := %s," % vset,
        "    install := { getTable := %s, setTable := %s, validateTable := %s," % tuple(str(t) for t in tables),
        "                 getIndexedBy := %s, validatedSetattr := %s, validatedPostIndexedBy := %s," % (
            lean_s(get_ix), lean_s(vsetattr), lean_s(post_ix)),
        "                 validatedValidateIndexedBy := %s, plainSetIndexedBy := %s, validatedWhen := %s," % (
            lean_s(val_ix), lean_s(plain_ix), lean_s(cond)),
        "                 fields := [%s] } }" % ", ".join("(%s, %s)" % (lean_s(f), lean_s(v)) for f, v in fields), "",
        "/-- `CTrait.property_fields` setter (traits/ctrait.py): arity of `None`, how an arity is computed,",
        "order of each pair handed to `_set_property`; `traits.Property` / `TraitType.as_ctrait`: order of the triple -/",
        "def noneArity : Nat := %d" % pf["noneArity"],
        "def arityOf : String := %s" % lean_s(pf["arity"]),
        "def pairOrder : List String := [%s]" % ", ".join(lean_s(x) for x in pf["pairOrder"]),
        "def fieldsOrder : List String := [%s]" % ", ".join(lean_s(x) for x in order), "",
        "end TraitsVerif.Generated.PropertyProg",
    ]
    return "\n".join(lines) + "\n"


if __name__ == "__main__":
    import sys
    print(emit(sys.argv[1] if len(sys.argv) > 1 else "/repo/traits"), end="")
