"""Translator: the attribute functions of traits/ctraits.c as MiniC terms
(Generated/AttrProg.lean; language and interpreter: lean/TraitsVerif/Model/MiniC.lean).

Reads the *source text* of

    setattr_trait  setattr_event  getattr_trait  default_value_for
    call_notifiers  has_traits_getattro  has_traits_setattro

with a tokenizer and a recursive-descent parser for the statement subset these
functions use (declarations, expression statements, if/else, return, for, switch,
break, goto/labels, blocks; expressions with C precedence: ?:, =, ||, &&, |, &, == !=,
< > <= >=, + -, unary ! -, casts, ->, calls).  Anything else raises (the engine then
emits `theorem translator_failed : False`, so every obligation of the property breaks).

Normalisations (all behaviour preserving, each checked syntactically, else raise):
  * comments, declarations without initialiser, `assert(...)`, `Py_INCREF / Py_DECREF /
    Py_XDECREF(...)` statements are dropped; casts other than `(PyObject *)` are dropped;
  * the function-like macro `has_notifiers` is expanded from its #define;
  * `#define`d integer constants become references to Generated.Enums;
  * `switch (e) { case A: case B: ...; break; ... }` with a side-effect free `e`, no `default:`
    and every arm ending in `break;` or `return` becomes a chain of ifs;
  * a forward `goto L` to a top-level label becomes the statements following the label
    (which must end in `return`);
  * `for (i = 0; i < bound; i++)` whose body assigns neither `i` nor a variable of `bound`
    (and `bound` has no call) becomes `forRange i bound body`;
  * `PyList_SET_ITEM(x, i, v);` on a local `x` becomes `x = list_set(x, i, v);`
  * local variables are numbered (parameters first, then in order of first occurrence).
"""
import os
import re

TARGET = "AttrProg.lean"

FUNCTIONS = ["setattr_trait", "setattr_event", "getattr_trait", "default_value_for",
             "call_notifiers", "has_traits_getattro", "has_traits_setattro"]

TYPE_WORDS = {"int", "unsigned", "long", "Py_ssize_t", "PyObject", "PyListObject", "PyDictObject",
              "trait_object", "has_traits_object", "trait_post_setattr", "trait_validate",
              "trait_getattr", "trait_setattr", "static", "const"}
DROP_CALLS = {"Py_INCREF", "Py_DECREF", "Py_XDECREF", "Py_XINCREF", "assert"}
FIELDS = {"flags", "validate", "post_setattr", "getattr", "setattr", "notifiers", "default_value_type",
          "default_value", "obj_dict", "itrait_dict", "ctrait_dict"}
GLOBS = {"Undefined", "Uninitialized", "Py_None", "TraitListObject", "TraitDictObject", "TraitSetObject",
         "PyExc_ValueError", "PyExc_KeyError", "PyExc_AttributeError"}
PRIMS = {"PyDict_GetItem", "PyDict_SetItem", "PyDict_DelItem", "PyDict_New", "PyUnicode_Check",
         "invalid_attribute_error", "default_value_for", "call_notifiers", "PyList_GET_SIZE", "PyList_GET_ITEM",
         "PyList_New", "list_set", "PyTuple_Pack", "PyTuple_GET_ITEM", "PyObject_Call", "PyHasTraits_Check",
         "PySequence_List", "PyDict_Copy", "call_class", "PyErr_SetString", "PyErr_ExceptionMatches",
         "PyErr_SetObject", "PyErr_Clear", "dict_getitem", "get_prefix_trait", "PyObject_GenericGetAttr",
         "has_notifiers"}
PRIM_ALIAS = {"_warn_on_attribute_error": "warn_on_attribute_error"}
BINOPS = {"==": "eq", "!=": "ne", "<": "lt", ">": "gt", "&": "band", "+": "add", "&&": "land", "||": "lor"}


class Unsupported(ValueError):
    pass


# ---------------------------------------------------------------- lexer
TOKEN = re.compile(r"""
    (?P<ws>\s+)
  | (?P<num>0[xX][0-9A-Fa-f]+[uUlL]*|\d+[uUlL]*)
  | (?P<id>[A-Za-z_]\w*)
  | (?P<str>"(?:[^"\\\n]|\\.)*")
  | (?P<op>->|\+\+|--|==|!=|<=|>=|&&|\|\||<<|>>|\+=|-=|\|=|&=|[-+*/%&|^!~<>=?:;,.(){}\[\]])
""", re.X)


def strip_comments(src):
    out, i, n = [], 0, len(src)
    while i < n:
        c = src[i]
        if c == '"':
            j = i + 1
            while j < n and src[j] != '"':
                j += 2 if src[j] == "\\" else 1
            out.append(src[i:j + 1])
            i = j + 1
        elif src.startswith("/*", i):
            j = src.find("*/", i + 2)
            if j < 0:
                raise Unsupported("unterminated comment")
            out.append(" " + "\n" * src.count("\n", i, j))
            i = j + 2
        elif src.startswith("//", i):
            j = src.find("\n", i)
            i = n if j < 0 else j
        else:
            out.append(c)
            i += 1
    return "".join(out)


def tokenize(text):
    toks, i = [], 0
    while i < len(text):
        m = TOKEN.match(text, i)
        if not m:
            raise Unsupported("cannot tokenize at %r" % text[i:i + 30])
        i = m.end()
        k = m.lastgroup
        if k == "ws":
            continue
        toks.append((k, m.group()))
    toks.append(("eof", ""))
    return toks


# ---------------------------------------------------------------- parser
class Parser:
    def __init__(self, toks, macros):
        self.t, self.i, self.macros = toks, 0, macros

    def peek(self, k=0):
        return self.t[min(self.i + k, len(self.t) - 1)]

    def next(self):
        tok = self.t[self.i]
        self.i += 1
        return tok

    def accept(self, val):
        if self.peek()[1] == val and self.peek()[0] in ("op", "id"):
            self.i += 1
            return True
        return False

    def expect(self, val):
        if not self.accept(val):
            raise Unsupported("expected %r, found %r" % (val, self.peek()[1]))

    # ---- expressions
    def expr(self):
        return self.assignment()

    def assignment(self):
        lhs = self.ternary()
        if self.peek() == ("op", "="):
            self.next()
            rhs = self.assignment()
            if lhs[0] == "id":
                return ("assign", lhs[1], rhs)
            if lhs[0] == "field":
                return ("assignField", lhs[1], lhs[2], rhs)
            raise Unsupported("assignment to %r" % (lhs,))
        if self.peek()[1] in ("+=", "-=", "|=", "&=", "++", "--"):
            raise Unsupported("operator %s" % self.peek()[1])
        return lhs

    def ternary(self):
        c = self.binary(0)
        if self.accept("?"):
            a = self.assignment()
            self.expect(":")
            b = self.ternary()
            return ("cond", c, a, b)
        return c

    LEVELS = [["||"], ["&&"], ["|"], ["^"], ["&"], ["==", "!="], ["<", ">", "<=", ">="], ["<<", ">>"],
              ["+", "-"], ["*", "/", "%"]]

    def binary(self, lvl):
        if lvl == len(self.LEVELS):
            return self.unary()
        a = self.binary(lvl + 1)
        while self.peek()[0] == "op" and self.peek()[1] in self.LEVELS[lvl]:
            op = self.next()[1]
            b = self.binary(lvl + 1)
            if op not in BINOPS:
                raise Unsupported("operator %s" % op)
            a = ("bin", op, a, b)
        return a

    def is_cast(self):
        # '(' type-word+ '*'* ')'
        if self.peek() != ("op", "("):
            return None
        j = self.i + 1
        words = []
        while self.t[j][0] == "id" and self.t[j][1] in TYPE_WORDS:
            words.append(self.t[j][1])
            j += 1
        if not words:
            return None
        stars = 0
        while self.t[j] == ("op", "*"):
            stars += 1
            j += 1
        if self.t[j] != ("op", ")"):
            return None
        return (words, stars, j + 1)

    def unary(self):
        if self.accept("!"):
            return ("not", self.unary())
        if self.peek() == ("op", "-"):
            self.next()
            e = self.unary()
            if e[0] == "num":
                return ("num", -e[1])
            raise Unsupported("unary minus on a non-literal")
        if self.peek()[1] in ("~", "*", "&", "++", "--") and self.peek()[0] == "op":
            raise Unsupported("unary operator %s" % self.peek()[1])
        c = self.is_cast()
        if c:
            words, stars, j = c
            self.i = j
            e = self.unary()
            if words == ["PyObject"] and stars == 1:
                return ("castObj", e)
            if stars == 1 and len(words) == 1 and words[0] in ("trait_object", "has_traits_object", "PyDictObject",
                                                                "PyListObject"):
                return e
            raise Unsupported("cast to %s %s" % (" ".join(words), "*" * stars))
        return self.postfix()

    def postfix(self):
        e = self.primary()
        while True:
            if self.accept("->"):
                k, f = self.next()
                if k != "id":
                    raise Unsupported("field name expected")
                e = ("field", e, f)
            elif self.peek() == ("op", "("):
                self.next()
                args = []
                if not self.accept(")"):
                    while True:
                        args.append(self.assignment())
                        if self.accept(")"):
                            break
                        self.expect(",")
                e = self.make_call(e, args)
            elif self.peek()[1] in ("[", ".", "++", "--") and self.peek()[0] == "op":
                raise Unsupported("postfix operator %s" % self.peek()[1])
            else:
                return e

    def make_call(self, f, args):
        if f[0] == "id" and f[1] in self.macros:
            # a function-like macro whose body is translated as a function of its own: sound when the
            # arguments are plain variables (no side effect, evaluating them once or several times is the same)
            params, body = self.macros[f[1]]
            if len(params) != len(args) or any(a[0] != "id" for a in args):
                raise Unsupported("macro %s: arguments must be %d plain variables" % (f[1], len(params)))
            return ("call", f, args)
        return ("call", f, args)

    def primary(self):
        k, v = self.next()
        if k == "num":
            lit = v.rstrip("uUlL")
            return ("num", int(lit, 16) if lit.lower().startswith("0x") else int(lit))
        if k == "str":
            while self.peek()[0] == "str":
                self.next()
            return ("str",)
        if k == "id":
            if v in TYPE_WORDS or v in ("sizeof", "if", "else", "for", "while", "do", "switch", "case", "return",
                                        "goto", "break", "continue", "default"):
                raise Unsupported("unexpected keyword %s in expression" % v)
            return ("id", v)
        if (k, v) == ("op", "("):
            e = self.expr()
            self.expect(")")
            return e
        raise Unsupported("unexpected token %r" % v)

    # ---- statements
    def block_items(self):
        items = []
        while self.peek() != ("op", "}"):
            if self.peek()[0] == "eof":
                raise Unsupported("unexpected end of function")
            items.extend(self.statement())
        return items

    def statement(self):
        """Returns a list of statements (declarations may yield several or none)."""
        k, v = self.peek()
        if (k, v) == ("op", "{"):
            self.next()
            items = self.block_items()
            self.expect("}")
            return [("block", items)]
        if (k, v) == ("op", ";"):
            self.next()
            return []
        if k == "id" and v in TYPE_WORDS:
            return self.declaration()
        if k == "id" and v == "if":
            self.next()
            self.expect("(")
            c = self.expr()
            self.expect(")")
            t = self.statement()
            e = []
            if self.accept("else"):
                e = self.statement()
            return [("if", c, t, e)]
        if k == "id" and v == "return":
            self.next()
            if self.accept(";"):
                raise Unsupported("return without a value")
            e = self.expr()
            self.expect(";")
            return [("return", e)]
        if k == "id" and v == "goto":
            self.next()
            lab = self.next()
            self.expect(";")
            return [("goto", lab[1])]
        if k == "id" and v == "break":
            self.next()
            self.expect(";")
            return [("break",)]
        if k == "id" and v == "for":
            self.next()
            self.expect("(")
            init = self.expr()
            self.expect(";")
            cond = self.expr()
            self.expect(";")
            ki, vi = self.next()
            if ki != "id" or self.next() != ("op", "++"):
                raise Unsupported("for: step is not `i++`")
            self.expect(")")
            body = self.statement()
            if not (init[0] == "assign" and init[1] == vi and init[2] == ("num", 0)):
                raise Unsupported("for: init is not `%s = 0`" % vi)
            if not (cond[0] == "bin" and cond[1] == "<" and cond[2] == ("id", vi)):
                raise Unsupported("for: condition is not `%s < bound`" % vi)
            bound = cond[3]
            if has_effect(bound):
                raise Unsupported("for: bound has side effects")
            assigned = assigned_vars(body)
            if vi in assigned or (ids_of(bound) & assigned):
                raise Unsupported("for: loop variable or bound assigned in the body")
            return [("for", vi, bound, body)]
        if k == "id" and v == "switch":
            self.next()
            self.expect("(")
            e = self.expr()
            self.expect(")")
            self.expect("{")
            if has_effect(e):
                raise Unsupported("switch: scrutinee has side effects")
            arms, labels, body = [], [], []
            while self.peek() != ("op", "}"):
                if self.peek() == ("id", "case"):
                    self.next()
                    lab = self.ternary()
                    self.expect(":")
                    if body:
                        arms.append((labels, body))
                        labels, body = [], []
                    labels.append(lab)
                elif self.peek() == ("id", "default"):
                    raise Unsupported("switch: default label")
                else:
                    if not labels:
                        raise Unsupported("switch: statement before the first case")
                    body.extend(self.statement())
            self.expect("}")
            if labels:
                if not body:
                    raise Unsupported("switch: empty last arm")
                arms.append((labels, body))
            out = []
            for labels, body in reversed(arms):
                last = body[-1]
                if last == ("break",):
                    body = body[:-1]
                elif last[0] != "return":
                    raise Unsupported("switch: arm falls through")
                if contains_break(body):
                    raise Unsupported("switch: inner break")
                cond = None
                for lab in labels:
                    c = ("bin", "==", e, lab)
                    cond = c if cond is None else ("bin", "||", cond, c)
                out = [("if", cond, [("block", body)], out)]
            return out
        if k == "id" and v in ("while", "do", "continue", "else", "case", "default"):
            raise Unsupported("statement %s" % v)
        if k == "id" and self.peek(1) == ("op", ":"):
            self.next()
            self.next()
            return [("label", v)]
        e = self.expr()
        self.expect(";")
        if e[0] == "call" and e[1][0] == "id" and e[1][1] in DROP_CALLS:
            return []
        if e[0] == "call" and e[1] == ("id", "PyList_SET_ITEM"):
            if len(e[2]) != 3 or e[2][0][0] != "id":
                raise Unsupported("PyList_SET_ITEM on a non-variable")
            return [("expr", ("assign", e[2][0][1], ("call", ("id", "list_set"), e[2])))]
        return [("expr", e)]

    def declaration(self):
        while self.peek()[0] == "id" and self.peek()[1] in TYPE_WORDS:
            self.next()
        out = []
        while True:
            while self.accept("*"):
                pass
            k, name = self.next()
            if k != "id":
                raise Unsupported("declarator expected, found %r" % name)
            self.decls.append(name)
            if self.accept("="):
                out.append(("expr", ("assign", name, self.assignment())))
            if self.accept(";"):
                return out
            self.expect(",")

    decls = None


def subst(e, env):
    if e[0] == "id":
        return env.get(e[1], e)
    return tuple(subst(x, env) if isinstance(x, tuple) else
                 ([subst(y, env) for y in x] if isinstance(x, list) else x) for x in e)


def walk_expr(e):
    yield e
    for x in e[1:]:
        if isinstance(x, tuple):
            yield from walk_expr(x)
        elif isinstance(x, list):
            for y in x:
                yield from walk_expr(y)


PURE_CALLS = {"PyList_GET_SIZE", "PyUnicode_Check", "PyHasTraits_Check", "PyTuple_GET_ITEM", "PyList_GET_ITEM"}


def has_effect(e):
    for x in walk_expr(e):
        if x[0] in ("assign", "assignField"):
            return True
        if x[0] == "call" and not (x[1][0] == "id" and x[1][1] in PURE_CALLS):
            return True
    return False


def ids_of(e):
    return {x[1] for x in walk_expr(e) if x[0] == "id"}


def walk_stmts(stmts):
    for s in stmts:
        yield s
        if s[0] == "block":
            yield from walk_stmts(s[1])
        elif s[0] == "if":
            yield from walk_stmts(s[2])
            yield from walk_stmts(s[3])
        elif s[0] == "for":
            yield from walk_stmts(s[3])


def stmt_exprs(s):
    if s[0] in ("expr", "return"):
        return [s[1]]
    if s[0] == "if":
        return [s[1]]
    if s[0] == "for":
        return [s[2]]
    return []


def assigned_vars(stmts):
    out = set()
    for s in walk_stmts(stmts):
        for e in stmt_exprs(s):
            out |= {x[1] for x in walk_expr(e) if x[0] == "assign"}
    return out


def contains_break(stmts):
    for s in stmts:
        if s == ("break",):
            return True
        if s[0] == "block" and contains_break(s[1]):
            return True
        if s[0] == "if" and (contains_break(s[2]) or contains_break(s[3])):
            return True
    return False


# ---------------------------------------------------------------- goto elimination
def ends_in_return(stmts):
    if not stmts:
        return False
    s = stmts[-1]
    if s[0] == "return":
        return True
    if s[0] == "block":
        return ends_in_return(s[1])
    if s[0] == "if":
        return ends_in_return(s[2]) and ends_in_return(s[3])
    return False


def eliminate_gotos(top):
    labels = {s[1]: i for i, s in enumerate(top) if s[0] == "label"}
    for s in walk_stmts(top):
        if s[0] == "label" and s not in top:
            raise Unsupported("label %s is not at the top level" % s[1])

    def tail(label, pos):
        if label not in labels:
            raise Unsupported("goto to unknown label %s" % label)
        if labels[label] <= pos:
            raise Unsupported("backward goto %s" % label)
        t = [x for x in top[labels[label]:] if x[0] != "label"]
        if any(y[0] == "goto" for y in walk_stmts(t)):
            raise Unsupported("goto after label %s" % label)
        if not ends_in_return(t):
            raise Unsupported("code after label %s does not end in return" % label)
        return t

    def rewrite(stmts, pos):
        out = []
        for s in stmts:
            if s[0] == "goto":
                out.append(("block", tail(s[1], pos)))
            elif s[0] == "block":
                out.append(("block", rewrite(s[1], pos)))
            elif s[0] == "if":
                out.append(("if", s[1], rewrite(s[2], pos), rewrite(s[3], pos)))
            elif s[0] == "for":
                out.append(("for", s[1], s[2], rewrite(s[3], pos)))
            elif s[0] == "label":
                pass
            else:
                out.append(s)
        return out

    out = []
    for i, s in enumerate(top):
        out.extend(rewrite([s], i))
    return out


# ---------------------------------------------------------------- source access
def function_source(csrc, name):
    m = re.search(r"^%s\(([^)]*)\)\s*\{" % re.escape(name), csrc, flags=re.M)
    if not m:
        raise Unsupported("definition of %s not found" % name)
    if re.search(r"^%s\([^)]*\)\s*\{" % re.escape(name), csrc[m.end():], flags=re.M):
        raise Unsupported("%s defined twice" % name)
    i, depth = m.end(), 1
    while depth and i < len(csrc):
        if csrc[i] == '"':
            i += 1
            while csrc[i] != '"':
                i += 2 if csrc[i] == "\\" else 1
        elif csrc[i] == "{":
            depth += 1
        elif csrc[i] == "}":
            depth -= 1
        i += 1
    if depth:
        raise Unsupported("unbalanced braces in %s" % name)
    params = []
    for p in m.group(1).split(","):
        ids = re.findall(r"[A-Za-z_]\w*", p)
        if not ids:
            raise Unsupported("parameter list of %s" % name)
        params.append(ids[-1])
    return params, csrc[m.end():i - 1]


def macro_def(csrc, name):
    m = re.search(r"^#define[ \t]+%s\(([^)]*)\)((?:.*\\\n)*.*)$" % re.escape(name), csrc, flags=re.M)
    if not m:
        raise Unsupported("macro %s not found" % name)
    params = [p.strip() for p in m.group(1).split(",")]
    body = m.group(2).replace("\\\n", " ")
    p = Parser(tokenize(body), {})
    e = p.expr()
    if p.peek()[0] != "eof":
        raise Unsupported("macro %s: trailing tokens" % name)
    if has_effect(e):
        raise Unsupported("macro %s has side effects" % name)
    return params, e


def int_defines(csrc):
    out = {}
    for m in re.finditer(r"^#define[ \t]+([A-Z][A-Z0-9_]*)[ \t]+(0x[0-9A-Fa-f]+U?|\d+U?)[ \t]*$", csrc, flags=re.M):
        n = m.group(1)
        if n.startswith(("TRAIT_", "HASTRAITS_", "MAXIMUM_")) or n.endswith("_DEFAULT_VALUE"):
            out[n] = True
    return out


# ---------------------------------------------------------------- emission
class Emitter:
    def __init__(self, params, decls, defines):
        self.slots = {}
        for p in params:
            self.slot(p)
        self.locals = set(params) | set(decls)
        self.defines = defines

    def slot(self, name):
        if name not in self.slots:
            self.slots[name] = len(self.slots)
        return self.slots[name]

    def expr(self, e):
        k = e[0]
        if k == "num":
            return "(.intLit (%d))" % e[1]
        if k == "str":
            return ".strLit"
        if k == "id":
            v = e[1]
            if v in self.locals:
                return "(.var %d)" % self.slot(v)
            if v == "NULL":
                return ".null"
            if v in self.defines:
                return "(.intLit (Generated.%s : Nat))" % v
            if v in GLOBS:
                return "(.glob .%s)" % v
            return '(.glob (.other "%s"))' % v
        if k == "field":
            f = ".%s" % e[2] if e[2] in FIELDS else '(.other "%s")' % e[2]
            return "(.field %s %s)" % (self.expr(e[1]), f)
        if k == "castObj":
            return "(.castObj %s)" % self.expr(e[1])
        if k == "not":
            return "(.not %s)" % self.expr(e[1])
        if k == "bin":
            return "(.bin .%s %s %s)" % (BINOPS[e[1]], self.expr(e[2]), self.expr(e[3]))
        if k == "cond":
            return "(.cond %s %s %s)" % (self.expr(e[1]), self.expr(e[2]), self.expr(e[3]))
        if k == "assign":
            if e[1] not in self.locals:
                raise Unsupported("assignment to non-local %s" % e[1])
            rhs = self.expr(e[2])
            return "(.assign %d %s)" % (self.slot(e[1]), rhs)
        if k == "assignField":
            f = ".%s" % e[2] if e[2] in FIELDS else '(.other "%s")' % e[2]
            rhs = self.expr(e[3])
            return "(.assignField %s %s %s)" % (self.expr(e[1]), f, rhs)
        if k == "call":
            f, args = e[1], e[2]
            a = "[" + ", ".join(self.expr(x) for x in args) + "]"
            if f[0] == "id" and f[1] not in self.locals:
                n = PRIM_ALIAS.get(f[1], f[1])
                if not (n in PRIMS or n in PRIM_ALIAS.values()):
                    raise Unsupported("call of a function the interpreter has no meaning for: %s" % n)
                p = ".%s" % n
                return "(.call %s %s)" % (p, a)
            if f[0] in ("id", "field"):
                return "(.callPtr %s %s)" % (self.expr(f), a)
            raise Unsupported("call through %r" % (f,))
        raise Unsupported("expression %r" % (e,))

    def stmts(self, ss, ind):
        ss = [s for s in ss if not (s[0] == "block" and not s[1])]
        if not ss:
            return ".skip"
        parts = [self.stmt(s, ind) for s in ss]
        out = parts[-1]
        for p in reversed(parts[:-1]):
            out = "(.seq %s\n%s%s)" % (p, ind, out)
        return out

    def stmt(self, s, ind):
        k = s[0]
        if k == "expr":
            return "(.expr %s)" % self.expr(s[1])
        if k == "return":
            return "(.ret %s)" % self.expr(s[1])
        if k == "break":
            return ".brk"
        if k == "block":
            return self.stmts(s[1], ind)
        if k == "if":
            c = self.expr(s[1])
            t = self.stmts(s[2], ind + "  ")
            e = self.stmts(s[3], ind + "  ")
            return "(.ifS %s\n%s  %s\n%s  %s)" % (c, ind, t, ind, e)
        if k == "for":
            i = self.slot(s[1])
            return "(.forRange %d %s\n%s  %s)" % (i, self.expr(s[2]), ind, self.stmts(s[3], ind + "  "))
        raise Unsupported("statement %r" % (s[0],))


def check_breaks(stmts, in_loop=False):
    for s in stmts:
        if s == ("break",) and not in_loop:
            raise Unsupported("break outside a loop")
        if s[0] == "block":
            check_breaks(s[1], in_loop)
        elif s[0] == "if":
            check_breaks(s[2], in_loop)
            check_breaks(s[3], in_loop)
        elif s[0] == "for":
            check_breaks(s[3], True)


# In the setattr functions `traito` is the trait found on the object and `traitd` the trait that defines the behaviour
# (they differ only under delegation, which this cluster does not model: the interpreter identifies the two pointers).
# The translator therefore checks that each is used for exactly what the model attributes to it.
TRAITO_FIELDS = {"notifiers", "getattr"}
TRAITD_FIELDS = {"flags", "validate", "post_setattr"}
FIRST_ARG = {"default_value_for": "traitd", "validate": "traitd", "post_setattr": "traitd", "getattr": "traito"}


def check_trait_roles(fname, params, top):
    if not ("traito" in params and "traitd" in params):
        return
    for st in walk_stmts(top):
        for e0 in stmt_exprs(st):
            for e in walk_expr(e0):
                if e[0] == "field" and e[1] == ("id", "traito") and e[2] not in TRAITO_FIELDS:
                    raise Unsupported("%s reads traito->%s (the model reads it from traitd)" % (fname, e[2]))
                if e[0] == "field" and e[1] == ("id", "traitd") and e[2] not in TRAITD_FIELDS:
                    raise Unsupported("%s reads traitd->%s (the model reads it from traito)" % (fname, e[2]))
                if e[0] == "call":
                    f = e[1]
                    cal = f[1] if f[0] == "id" else f[2] if f[0] == "field" else None
                    if cal in FIRST_ARG and e[2]:
                        if e[2][0] != ("id", FIRST_ARG[cal]):
                            raise Unsupported("%s calls %s with %r as its trait, the model with %s" % (
                                fname, cal, e[2][0], FIRST_ARG[cal]))
                        if f[0] == "field" and f[1] != ("id", FIRST_ARG[cal]):
                            raise Unsupported("%s calls %s of %r, the model of %s" % (fname, cal, f[1], FIRST_ARG[cal]))


def translate_function(csrc, name, macros, defines):
    params, body = function_source(csrc, name)
    p = Parser(tokenize(body), macros)
    p.decls = []
    top = p.block_items() if False else None
    # the body has no closing brace of its own: parse until eof
    items = []
    while p.peek()[0] != "eof":
        items.extend(p.statement())
    top = eliminate_gotos(items)
    check_breaks(top)
    check_trait_roles(name, params, top)
    if not ends_in_return(top):
        raise Unsupported("%s does not end in return" % name)
    dup = [d for d in p.decls if d in params]
    if dup or len(set(p.decls)) != len(p.decls):
        raise Unsupported("%s: redeclared variable" % name)
    em = Emitter(params, p.decls, defines)
    text = em.stmts(top, "      ")
    slots = " ".join("%d=%s" % (i, n) for n, i in sorted(em.slots.items(), key=lambda kv: kv[1]))
    return ("/-- `%s` (traits/ctraits.c); slots %s -/\n"
            "def %s : Func := { nparams := %d, body :=\n      %s }\n" % (name, slots, name, len(params), text))


def emit(traits_dir):
    csrc = strip_comments(open(os.path.join(traits_dir, "ctraits.c")).read())
    macros = {"has_notifiers": macro_def(csrc, "has_notifiers")}
    defines = int_defines(csrc)
    L = ["/- GENERATED by harness/translate/cattr.py from the working tree - do not edit. -/",
         "import TraitsVerif.Model.MiniC",
         "namespace TraitsVerif.Generated.AttrProg",
         "open TraitsVerif TraitsVerif.Model.MiniC", ""]
    for name, (params, body) in macros.items():
        em = Emitter(params, [], defines)
        L.append("/-- the function-like macro `%s(%s)` (traits/ctraits.c) -/\n"
                 "def %s : Func := { nparams := %d, body :=\n      (.ret %s) }\n"
                 % (name, ", ".join(params), name, len(params), em.expr(body)))
    for f in FUNCTIONS:
        L.append(translate_function(csrc, f, macros, defines))
    L += ["end TraitsVerif.Generated.AttrProg"]
    return "\n".join(L) + "\n"


if __name__ == "__main__":
    import sys
    print(emit(sys.argv[1] if len(sys.argv) > 1 else "/repo/traits"), end="")
