"""Translator: the garbage-collector interface of every type defined in traits/ctraits.c, and the position of the
field stores of the raw CTrait setters relative to their error exits.

Reads (regular expressions + bracket matching from translate/ctables.py, no C parser):

  * every `static PyTypeObject NAME = { ... };` initialiser: the struct named in `sizeof(...)`, the functions cast
    to `(destructor)`, `(traverseproc)`, `(inquiry)`, whether `Py_TPFLAGS_HAVE_GC` is among the flags;
  * the `typedef struct ... { ... } STRUCT;` of that struct: every member, in declaration order, split into
    REFERENCE members (declared `Py<Something>Object *name;` - an owned reference by the conventions of this file)
    and others (integers, function pointers through typedef names);
  * the body of the tp_traverse function: it must consist of `Py_VISIT(<expr>);` statements and one final
    `return 0;`.  Each visited expression is emitted, in order: `FIELD` when it is `param->FIELD` (a cast
    `(PyObject *)` in front is dropped), otherwise the normalised text of the expression (e.g. `Py_TYPE(obj)`);
  * the body of the tp_clear function: `Py_CLEAR(param->FIELD);` statements (or the pair `Py_XDECREF(param->FIELD);
    param->FIELD = NULL;`) and a final `return 0;`; emitted as the list of fields (or the expression text);
  * the calls made by the tp_dealloc function, in order (names only);
  * for every function `NAME(trait_object *trait, PyObject *args|value ...)` that stores into a member of `trait`
    AND has an error exit (`return NULL;`, `return -1;`, `return PyErr_Format(`): the events `exit` and
    `store:FIELD` in TEXT order.

Emits Generated/CTraverse.lean (pure data).  Fails closed: an unreadable shape raises ctables.Shape (a ValueError),
which the engine reports as a broken tie.
"""
import os
import re

from . import ctables as CT

TARGET = "CTraverse.lean"
Shape = CT.Shape


def _statements(body):
    """Top-level `;`-terminated statements of a brace-free function body."""
    if "{" in body or "}" in body:
        raise Shape("nested block in a traverse / clear function")
    out = []
    for s in body.split(";"):
        s = " ".join(s.split())
        if s:
            out.append(s)
    return out


def _norm_expr(e, param):
    e = " ".join(e.split())
    e = re.sub(r"^\(\s*PyObject\s*\*\s*\)\s*", "", e)
    m = re.match(r"^%s\s*->\s*(\w+)$" % re.escape(param), e)
    if m:
        return m.group(1)
    return re.sub(r"\s+", "", e)


def _first_param(src, fname, a):
    """Name of the first parameter of the definition whose body starts at `a`."""
    head = src[:a]
    m = None
    for m in re.finditer(r"\b%s\s*\(" % re.escape(fname), head):
        pass
    if m is None:
        raise Shape("no header for %s" % fname)
    p = CT.matching(src, m.end() - 1, "(", ")")
    args = CT.split_args(src[m.end():p])
    if not args:
        raise Shape("%s has no parameter" % fname)
    m2 = re.match(r"^\s*(\w+)\s*\*\s*(\w+)\s*$", args[0])
    if not m2:
        raise Shape("%s: first parameter %r" % (fname, args[0]))
    return m2.group(1), m2.group(2)


def read_struct(src, sname):
    ms = [m for m in re.finditer(r"\btypedef\s+struct\s*(\w+)?\s*\{", src)
          if re.match(r"\s*%s\s*;" % re.escape(sname), src[CT.matching(src, m.end() - 1) + 1:])]
    if len(ms) != 1:
        raise Shape("struct %s: %d definitions" % (sname, len(ms)))
    a = ms[0].end() - 1
    body = src[a + 1:CT.matching(src, a)]
    m = re.match(r"\s*PyObject_HEAD\b", body)
    if not m:
        raise Shape("struct %s does not start with PyObject_HEAD" % sname)
    refs, others = [], []
    for decl in _statements(body[m.end():]):
        m = re.match(r"^((?:unsigned\s+|signed\s+|const\s+)*\w+)\s*(\*?)\s*(\w+)$", decl)
        if not m:
            raise Shape("struct %s: member %r" % (sname, decl))
        typ, star, name = m.group(1), m.group(2), m.group(3)
        if star:
            if not re.match(r"^Py\w*Object$", typ):
                raise Shape("struct %s: pointer member %r is not a Python object" % (sname, decl))
            refs.append(name)
        else:
            others.append(name)
    return refs, others


def read_types(src, funcs):
    fmap = {}
    for name, a, b in funcs:
        if name in fmap:
            raise Shape("function %s defined twice" % name)
        fmap[name] = (a, b)
    out = []
    for m in re.finditer(r"\bstatic\s+PyTypeObject\s+(\w+)\s*=\s*\{", src):
        tname = m.group(1)
        a = m.end() - 1
        init = src[a + 1:CT.matching(src, a)]
        sz = re.findall(r"\bsizeof\s*\(\s*(\w+)\s*\)", init)
        if not sz or len(set(sz)) != 1:
            raise Shape("type %s: sizeof %r" % (tname, sz))
        gc = bool(re.search(r"\bPy_TPFLAGS_HAVE_GC\b", init))
        slot = {}
        for cast in ("destructor", "traverseproc", "inquiry"):
            fs = re.findall(r"\(\s*%s\s*\)\s*(\w+)" % cast, init)
            if len(fs) > 1:
                raise Shape("type %s: %d %s slots" % (tname, len(fs), cast))
            slot[cast] = fs[0] if fs else ""
        refs, others = read_struct(src, sz[0])
        if not gc:
            if refs:
                raise Shape("type %s holds references but is not a GC type" % tname)
            continue
        for cast in ("destructor", "traverseproc", "inquiry"):
            if slot[cast] not in fmap:
                raise Shape("type %s: no definition of its %s %r" % (tname, cast, slot[cast]))
        # ---- tp_traverse
        tf = slot["traverseproc"]
        ta, tb = fmap[tf]
        ptype, param = _first_param(src, tf, ta)
        if ptype != sz[0]:
            raise Shape("%s takes a %s, the type's struct is %s" % (tf, ptype, sz[0]))
        visited = []
        st = _statements(src[ta + 1:tb])
        if not st or st[-1] != "return 0":
            raise Shape("%s does not end with `return 0;`" % tf)
        for s in st[:-1]:
            mm = re.match(r"^Py_VISIT\s*\((.*)\)$", s)
            if not mm:
                raise Shape("%s: statement %r" % (tf, s))
            visited.append(_norm_expr(mm.group(1), param))
        # ---- tp_clear
        cf = slot["inquiry"]
        ca, cb = fmap[cf]
        ptype, param = _first_param(src, cf, ca)
        if ptype != sz[0]:
            raise Shape("%s takes a %s, the type's struct is %s" % (cf, ptype, sz[0]))
        cleared = []
        st = _statements(src[ca + 1:cb])
        if not st or st[-1] != "return 0":
            raise Shape("%s does not end with `return 0;`" % cf)
        st = st[:-1]
        i = 0
        while i < len(st):
            mm = re.match(r"^Py_CLEAR\s*\((.*)\)$", st[i])
            if mm:
                cleared.append(_norm_expr(mm.group(1), param))
                i += 1
                continue
            mm = re.match(r"^Py_XDECREF\s*\((.*)\)$", st[i])
            if mm and i + 1 < len(st):
                e = _norm_expr(mm.group(1), param)
                m2 = re.match(r"^(.*?)\s*=\s*NULL$", st[i + 1])
                if m2 and _norm_expr(m2.group(1), param) == e:
                    cleared.append(e)
                    i += 2
                    continue
            raise Shape("%s: statement %r" % (cf, st[i]))
        # ---- tp_dealloc: the calls it makes, in order
        df = slot["destructor"]
        da, db = fmap[df]
        body = re.sub(r"^\s*#.*$", "", src[da + 1:db], flags=re.M)
        calls = [c for c in re.findall(r"(?:->\s*)?\b(\w+)\s*\(", body) if c not in ("defined",)]
        out.append({"type": tname, "struct": sz[0], "refs": refs, "others": others, "traverse": tf,
                    "visited": visited, "clear": cf, "cleared": cleared, "dealloc": df, "dealloc_calls": calls})
    if not out:
        raise Shape("no GC type found")
    return out


EXIT_RE = r"\breturn\s+NULL\s*;|\breturn\s+-\s*1\s*;|\breturn\s+PyErr_Format\s*\("


def read_setter_events(src, funcs):
    """(function, [events]) for every function whose first parameter is `trait_object *trait` with a second parameter
    `PyObject *args` / `PyObject *value`, that stores into `trait->F` and has an error exit; events in text order."""
    out = []
    for name, a, b in funcs:
        try:
            ptype, param = _first_param(src, name, a)
        except Shape:
            continue
        if ptype != "trait_object" or param != "trait":
            continue
        head = src[:a]
        hm = None
        for hm in re.finditer(r"\b%s\s*\(" % re.escape(name), head):
            pass
        args = CT.split_args(src[hm.end():CT.matching(src, hm.end() - 1, "(", ")")])
        if len(args) < 2 or not re.match(r"^\s*PyObject\s*\*\s*(args|value)\s*$", args[1]):
            continue
        body = src[a:b + 1]
        ev = []
        for m in re.finditer(r"(%s)|\btrait\s*->\s*(\w+)\s*(?:=(?!=)|\|=|&=)" % EXIT_RE, body):
            ev.append((m.start(), "exit" if m.group(1) else "store:" + m.group(2)))
        # `&trait->F` handed to a function (PyArg_ParseTuple / set_value ...) is a store site too
        for m in re.finditer(r"&\s*trait\s*->\s*(\w+)", body):
            ev.append((m.start(), "store:" + m.group(1)))
        ev.sort()
        evs = [e for _, e in ev]
        if "exit" in evs and any(e.startswith("store:") for e in evs):
            out.append((name, evs))
    if not any(n == "_trait_set_default_value" for n, _ in out):
        raise Shape("_trait_set_default_value not found among the setters")
    return out


def emit(traits_dir):
    raw = open(os.path.join(traits_dir, "ctraits.c")).read()
    src = CT.strip_comments(raw)
    funcs = CT.functions(src)
    types = read_types(src, funcs)
    setters = read_setter_events(src, funcs)
    L = ["/- GENERATED by harness/translate/ctraverse.py from traits/ctraits.c of the working tree - do not edit. -/",
         "namespace TraitsVerif.Generated.CTraverse", "",
         "/-- The collector interface of one `static PyTypeObject` with `Py_TPFLAGS_HAVE_GC`.",
         "`refFields`: the members of its struct declared `Py…Object *` (owned references), in declaration order;",
         "`otherFields`: the remaining members; `visited`: the argument of every `Py_VISIT` of tp_traverse, in order",
         "(`FIELD` for `param->FIELD`, otherwise the expression text); `cleared`: likewise for the `Py_CLEAR`s (or",
         "`Py_XDECREF` + `= NULL` pairs) of tp_clear; `deallocCalls`: the calls of tp_dealloc, in order. -/",
         "structure GcType where",
         "  typeObject : String",
         "  struct : String",
         "  refFields : List String",
         "  otherFields : List String",
         "  traverseFn : String",
         "  visited : List String",
         "  clearFn : String",
         "  cleared : List String",
         "  deallocFn : String",
         "  deallocCalls : List String",
         "  deriving DecidableEq, Repr", ""]
    L.append("def types : List GcType := [")
    L.append(",\n".join(
        "  { typeObject := %s, struct := %s,\n    refFields := %s,\n    otherFields := %s,\n    traverseFn := %s,\n"
        "    visited := %s,\n    clearFn := %s,\n    cleared := %s,\n    deallocFn := %s,\n    deallocCalls := %s }" % (
            CT.q(t["type"]), CT.q(t["struct"]), CT.lean_strs(t["refs"]), CT.lean_strs(t["others"]),
            CT.q(t["traverse"]), CT.lean_strs(t["visited"]), CT.q(t["clear"]), CT.lean_strs(t["cleared"]),
            CT.q(t["dealloc"]), CT.lean_strs(t["dealloc_calls"])) for t in types))
    L.append("]")
    L.append("")
    L.append("/-- Every function `f(trait_object *trait, PyObject *args|value)` that stores into a member of `trait` and has")
    L.append("an error exit (`return NULL;` / `return -1;` / `return PyErr_Format(`): `exit` and `store:FIELD` events in TEXT")
    L.append("order (`&trait->FIELD` handed to a call counts as a store). -/")
    L.append("def setterEvents : List (String × List String) := [")
    L.append(",\n".join("  (%s, %s)" % (CT.q(n), CT.lean_strs(ev)) for n, ev in setters))
    L.append("]")
    L.append("")
    L.append("end TraitsVerif.Generated.CTraverse")
    return "\n".join(L) + "\n"


if __name__ == "__main__":
    import sys
    print(emit(sys.argv[1] if len(sys.argv) > 1 else "/repo/traits"), end="")
