"""Translator for C13: the statements of `update_traits_class_dict` (traits/has_traits.py) that build the wildcard
table of a class - everything that touches `prefix_list` or stores into `prefix_traits` - as an ORDERED list of steps
(lean/TraitsVerif/Model/PrefixTable.lean `TStep`), read with `ast` in source order:

    prefix_list = []                                               -> .init   (prefix_traits = {} must be there too)
    if <test>: ... else: name = <stem>; prefix_list.append(name); prefix_traits[name] = value   (declaration loop)
                                                                   -> .own <test> <stem>
    for name in base_prefix_traits['*']: if name not in prefix_list: append; prefix_traits[name] = base_...[name]
                                                                   -> .mergeBases true      (inside `for base in bases`)
    if prefix_traits.get('') is None: prefix_list.append(''); prefix_traits[''] = Python().as_ctrait()
                                                                   -> .default [] true
    prefix_traits['*'] = prefix_list                               -> .store
    prefix_list.sort(key=len, reverse=True)                        -> .sort .len true

Any other statement that mentions `prefix_list`, rebinds `prefix_traits` or stores into `prefix_traits[k]` (except
the anytrait handler under the constant key '@') is emitted as `.unknown "<text>"`: the interpreter is stuck."""
import ast
import os

TARGET = "PrefixTable.lean"


def un(n):
    return ast.unparse(n).replace('"', "'")


def lean_string(s):
    return '"' + s.replace("\\", "\\\\").replace('"', '\\"').replace("\n", " ") + '"'


def name_lit(s):
    return "[" + ", ".join("'%s'" % c for c in s) + "]"


def mentions_list(node):
    return any(isinstance(n, ast.Name) and n.id == "prefix_list" for n in ast.walk(node))


def touches(node):
    """Does this (simple) statement touch the table?"""
    if mentions_list(node):
        return True
    for n in ast.walk(node):
        if isinstance(n, (ast.Assign, ast.AugAssign, ast.AnnAssign, ast.Delete)):
            targets = n.targets if isinstance(n, (ast.Assign, ast.Delete)) else [n.target]
            for t in targets:
                if isinstance(t, ast.Name) and t.id == "prefix_traits":
                    return True
                if isinstance(t, ast.Subscript) and isinstance(t.value, ast.Name) and t.value.id == "prefix_traits":
                    if not (isinstance(t.slice, ast.Constant) and t.slice.value == "@"):
                        return True
        if isinstance(n, ast.Call) and isinstance(n.func, ast.Attribute) and isinstance(n.func.value, ast.Name) \
                and n.func.value.id == "prefix_traits" and n.func.attr in ("update", "pop", "setdefault", "clear",
                                                                            "popitem", "__setitem__", "__delitem__"):
            return True
    return False


def test_of(t):
    if isinstance(t, ast.Compare) and len(t.ops) == 1 and isinstance(t.ops[0], ast.NotEq) \
            and un(t.left) == "name[-1:]" and isinstance(t.comparators[0], ast.Constant) \
            and isinstance(t.comparators[0].value, str) and len(t.comparators[0].value) == 1:
        return "(.lastCharIsNot '%s')" % t.comparators[0].value
    return "(.other %s)" % lean_string(un(t))


def walk(stmts, out, seen_init):
    for s in stmts:
        text = un(s)
        # ---- recognised shapes
        if text == "prefix_list = []":
            out.append(".init")
            continue
        if text == "prefix_traits = {}":
            seen_init.append(True)
            continue
        if text == "prefix_traits['*'] = prefix_list":
            out.append(".store")
            continue
        if isinstance(s, ast.Expr) and isinstance(s.value, ast.Call) and isinstance(s.value.func, ast.Attribute) \
                and un(s.value.func) == "prefix_list.sort" and not s.value.args:
            kws = {k.arg: k.value for k in s.value.keywords}
            if set(kws) <= {"key", "reverse"}:
                key = kws.get("key")
                k = ".none" if key is None else ".len" if un(key) == "len" else "(.other %s)" % lean_string(un(key))
                rv = kws.get("reverse")
                if rv is None or (isinstance(rv, ast.Constant) and isinstance(rv.value, bool)):
                    out.append("(.sort %s %s)" % (k, "true" if (rv is not None and rv.value) else "false"))
                    continue
        if isinstance(s, ast.If) and [un(x) for x in s.orelse[1:]] == ["prefix_list.append(name)",
                                                                      "prefix_traits[name] = value"] \
                and isinstance(s.orelse[0], ast.Assign) and un(s.orelse[0].targets[0]) == "name":
            stem = un(s.orelse[0].value)
            out.append("(.own %s %s)" % (test_of(s.test),
                                         ".dropLast" if stem == "name[:-1]" else "(.other %s)" % lean_string(stem)))
            walk(s.body, out, seen_init)          # the exact-trait branch must not touch the table
            continue
        if isinstance(s, ast.For) and un(s.target) == "name" and un(s.iter) == "base_prefix_traits['*']" \
                and not s.orelse and len(s.body) == 1 and isinstance(s.body[0], ast.If) and not s.body[0].orelse \
                and [un(x) for x in s.body[0].body] == ["prefix_list.append(name)",
                                                        "prefix_traits[name] = base_prefix_traits[name]"]:
            g = un(s.body[0].test)
            out.append("(.mergeBases true)" if g == "name not in prefix_list" else "(.unknown %s)" % lean_string(text))
            continue
        if isinstance(s, ast.If) and not s.orelse and [un(x) for x in s.body] == [
                "prefix_list.append('')", "prefix_traits[''] = Python().as_ctrait()"]:
            t = un(s.test)
            out.append("(.default [] true)" if t == "prefix_traits.get('') is None"
                       else "(.unknown %s)" % lean_string(text))
            continue
        # ---- compound statements: look inside; simple ones: must not touch the table
        if isinstance(s, ast.For) and un(s.iter) == "bases" and un(s.target) == "base":
            walk(s.body, out, seen_init)
            if s.orelse:
                out.append("(.unknown %s)" % lean_string("for base in bases: ... else"))
            continue
        bodies = [getattr(s, f) for f in ("body", "orelse", "finalbody") if isinstance(getattr(s, f, None), list)]
        if isinstance(s, ast.Try):
            bodies += [h.body for h in s.handlers]
        if bodies and not isinstance(s, (ast.FunctionDef, ast.ClassDef)):
            head = [getattr(s, f) for f in ("test", "iter", "target") if getattr(s, f, None) is not None]
            if any(touches(h) for h in head):
                out.append("(.unknown %s)" % lean_string(text[:200]))
            for b in bodies:
                walk(b, out, seen_init)
            continue
        if touches(s):
            out.append("(.unknown %s)" % lean_string(text[:200]))


def emit(traits_dir):
    tree = ast.parse(open(os.path.join(traits_dir, "has_traits.py")).read())
    fns = [n for n in tree.body if isinstance(n, ast.FunctionDef) and n.name == "update_traits_class_dict"]
    if len(fns) != 1:
        raise ValueError("update_traits_class_dict not found")
    out, seen_init = [], []
    walk(fns[0].body, out, seen_init)
    if len(seen_init) != 1:
        out.insert(0, '(.unknown "prefix_traits = {} missing or repeated")')
    lines = ["/- GENERATED by harness/translate/prefixtable.py from the working tree - do not edit. -/",
             "import TraitsVerif.Model.PrefixTable",
             "namespace TraitsVerif.Generated.PrefixTable",
             "open TraitsVerif.Model.PrefixTable", "",
             "def steps : List TStep :=", "  [" + ",\n   ".join(out) + "]", "",
             "end TraitsVerif.Generated.PrefixTable"]
    return "\n".join(lines) + "\n"


if __name__ == "__main__":
    import sys
    print(emit(sys.argv[1] if len(sys.argv) > 1 else "/repo/traits"), end="")
