"""Translator for C11: the delegation code of the working tree as terms of the deep embedding
`lean/TraitsVerif/Model/DelegSrc.lean` (written to Generated/DelegSrc.lean).

C side (traits/ctraits.c; comment stripping, a statement reader for `if / else / for / return / goto /
label / block / expression statement`, a boolean-structure reader for conditions, and a table of the
primitive statements and atoms the embedding knows):
  * delegate_attr_name_name / _prefix / _prefix_name / _class_name        -> `List NStmt`
  * delegate_attr_name_handlers[] (order), class_prefix (interned string)
  * getattr_delegate                                                      -> `CFun` (no loop)
  * setattr_delegate                                                      -> `CFun` (pre; `for (i = 0;;)` body)
Reference-count statements (Py_INCREF / Py_DECREF / Py_XDECREF) are dropped.  Variables are numbered per
kind (object / name / trait), parameters first, then locals in the order of declaration, so that
renaming a local does not change the term.

Python side (`ast`):
  * trait_types.Delegate.__init__ (prefix classification), DelegatesTo / PrototypedFrom `modify=` constants,
    Delegate.as_ctrait argument order                                     -> `PStmt`, Bool, List String
  * has_traits.get_delegate_pattern, HasTraits._trait_delegate_name       -> `PStmt`
  * HasTraits._remove_trait_delegate_listener                             -> `LStmt`
  * HasTraits._init_trait_delegate_listener                               -> normalised statements (strings)
  * the two call sites of get_delegate_pattern that fill `__listener_traits__`

Fails closed: anything that is not recognised raises `Shape` (the engine then emits a failing obligation).
"""
import ast
import os
import re

TARGET = "DelegSrc.lean"


class Shape(ValueError):
    pass


# --------------------------------------------------------------------------- C text utilities

def strip_comments(src):
    out = []
    i, n = 0, len(src)
    while i < n:
        c = src[i]
        if c == '"' or c == "'":
            j = i + 1
            while j < n and src[j] != c:
                j += 2 if src[j] == "\\" else 1
            out.append(src[i:j + 1])
            i = j + 1
        elif src.startswith("/*", i):
            j = src.find("*/", i + 2)
            if j < 0:
                raise Shape("unterminated comment")
            out.append(" ")
            i = j + 2
        elif src.startswith("//", i):
            j = src.find("\n", i)
            j = n if j < 0 else j
            i = j
        else:
            out.append(c)
            i += 1
    return "".join(out)


def matching(src, open_pos):
    o = src[open_pos]
    c = {"(": ")", "{": "}", "[": "]"}[o]
    depth = 0
    i = open_pos
    while i < len(src):
        ch = src[i]
        if ch == '"' or ch == "'":
            j = i + 1
            while j < len(src) and src[j] != ch:
                j += 2 if src[j] == "\\" else 1
            i = j
        elif ch == o:
            depth += 1
        elif ch == c:
            depth -= 1
            if depth == 0:
                return i
        i += 1
    raise Shape("unbalanced %s at %d" % (o, open_pos))


def c_function(src, name):
    """(parameter text, body text) of the definition `name(...) {...}` (exactly one)."""
    found = []
    for m in re.finditer(r"^%s\s*\(" % re.escape(name), src, flags=re.M):
        p = matching(src, m.end() - 1)
        m2 = re.match(r"\s*\{", src[p + 1:])
        if not m2:
            continue
        a = p + 1 + m2.end() - 1
        b = matching(src, a)
        found.append((src[m.end():p], src[a + 1:b]))
    if len(found) != 1:
        raise Shape("C function %s: %d definitions" % (name, len(found)))
    return found[0]


CASTS = re.compile(r"\(\s*(?:PyObject|has_traits_object|trait_object|PyTypeObject)\s*\*\s*\)")


def norm(text):
    """No casts, no white space except one blank between two word characters; string literals kept."""
    text = CASTS.sub("", text)
    out = []
    i, n = 0, len(text)
    while i < n:
        ch = text[i]
        if ch == '"':
            j = i + 1
            while j < n and text[j] != '"':
                j += 2 if text[j] == "\\" else 1
            out.append(text[i:j + 1])
            i = j + 1
        elif ch.isspace():
            j = i
            while j < n and text[j].isspace():
                j += 1
            if out and j < n and re.match(r"\w", out[-1][-1:]) and re.match(r"\w", text[j]):
                out.append(" ")
            i = j
        else:
            out.append(ch)
            i += 1
    return "".join(out)


def read_statements(body):
    """C statements of `body` (text between braces) as a list of nodes:
    ('if', cond, then, else|None) ('for', header, body) ('block', [..]) ('ret', expr) ('goto', label)
    ('label', name) ('stmt', text)."""
    out = []
    i, n = 0, len(body)

    def one(i):
        while i < n and body[i].isspace():
            i += 1
        if i >= n:
            return None, i
        if body[i] == "{":
            j = matching(body, i)
            return ("block", read_statements(body[i + 1:j])), j + 1
        m = re.match(r"(if|for|while|switch|do|else)\b", body[i:])
        if m and m.group(1) == "if":
            k = i + 2
            while body[k].isspace():
                k += 1
            if body[k] != "(":
                raise Shape("if without (")
            j = matching(body, k)
            cond = body[k + 1:j]
            then, i2 = one(j + 1)
            k2 = i2
            while k2 < n and body[k2].isspace():
                k2 += 1
            if re.match(r"else\b", body[k2:]):
                els, i3 = one(k2 + 4)
                return ("if", cond, then, els), i3
            return ("if", cond, then, None), i2
        if m and m.group(1) == "for":
            k = i + 3
            while body[k].isspace():
                k += 1
            j = matching(body, k)
            b, i2 = one(j + 1)
            return ("for", norm(body[k + 1:j]), b), i2
        if m:
            raise Shape("unsupported C statement: %s" % m.group(1))
        m = re.match(r"(\w+)\s*:(?!:)", body[i:])
        if m and m.group(1) not in ("default",):
            return ("label", m.group(1)), i + m.end()
        # expression statement up to ';' at depth 0
        j = i
        depth = 0
        while j < n:
            ch = body[j]
            if ch == '"':
                j2 = j + 1
                while body[j2] != '"':
                    j2 += 2 if body[j2] == "\\" else 1
                j = j2
            elif ch in "([{":
                depth += 1
            elif ch in ")]}":
                depth -= 1
            elif ch == ";" and depth == 0:
                break
            j += 1
        if j >= n:
            raise Shape("statement without ';': %r" % body[i:i + 60])
        text = norm(body[i:j])
        m = re.match(r"return\b ?(.*)$", text)
        if m:
            return ("ret", m.group(1)), j + 1
        m = re.match(r"goto (\w+)$", text)
        if m:
            return ("goto", m.group(1)), j + 1
        return ("stmt", text), j + 1

    while True:
        node, i = one(i)
        if node is None:
            break
        out.append(node)
    return out


def split_top(text, op):
    parts, depth, last, i = [], 0, 0, 0
    while i < len(text):
        ch = text[i]
        if ch == '"':
            j = i + 1
            while text[j] != '"':
                j += 2 if text[j] == "\\" else 1
            i = j
        elif ch == "(":
            depth += 1
        elif ch == ")":
            depth -= 1
        elif depth == 0 and text.startswith(op, i):
            parts.append(text[last:i])
            last = i + len(op)
            i += len(op) - 1
        i += 1
    parts.append(text[last:])
    return parts


def read_cond(text):
    """Boolean structure of a C condition: ('or', [...]) / ('and', [...]) / atom string."""
    text = norm(text)
    while text.startswith("(") and matching(text, 0) == len(text) - 1:
        text = text[1:-1]
    ors = split_top(text, "||")
    if len(ors) > 1:
        return ("or", [read_cond(p) for p in ors])
    ands = split_top(text, "&&")
    if len(ands) > 1:
        return ("and", [read_cond(p) for p in ands])
    return text


DROP = re.compile(r"^Py_(?:INCREF|DECREF|XDECREF|XINCREF)\(\w+(?:->\w+)?\)$")
DECL = re.compile(r"^(PyObject|PyTypeObject|has_traits_object|trait_object|int)\b ?(.*)$")
ID = r"([A-Za-z_]\w*)"

ERRFUNS = {
    "undefined_delegate_error": "undefinedDelegate",
    "bad_delegate_error": "badDelegate",
    "bad_delegate_error2": "badDelegate2",
    "delegation_recursion_error": "recursion",
    "delegation_recursion_error2": "recursion",
}


class CFunReader:
    """Turns the statement tree of getattr_delegate / setattr_delegate into a `Stmt` term."""

    def __init__(self, fname, params, body):
        self.fname = fname
        self.kind = {}          # variable -> 'O' | 'S' | 'T'
        self.order = []         # declaration order
        self.special = {}       # variable -> role ('value', 'dict', 'tp', 'temp', 'result', 'i')
        self.alias = {}         # 'dict' / 'tp' -> owner variable
        for p in [norm(x) for x in params.split(",")]:
            m = re.match(r"^(\w+)\*(\w+)$", p)
            if not m:
                raise Shape("%s: parameter %r" % (fname, p))
            t, v = m.groups()
            self.declare(t, v, param=True)
        self.nodes = read_statements(body)
        self.tail_label = None

    def declare(self, ctype, v, param=False):
        if v in self.kind or v in self.special:
            raise Shape("%s: %s declared twice" % (self.fname, v))
        if ctype == "trait_object":
            self.kind[v] = "T"
        elif ctype == "has_traits_object":
            self.kind[v] = "O"
        elif ctype == "int":
            if v not in ("i", "result", "instance"):
                raise Shape("%s: unexpected int variable %s" % (self.fname, v))
            self.special[v] = v
            return
        elif ctype == "PyTypeObject":
            self.special[v] = "tp"
            return
        else:  # PyObject *
            if param and v == "name":
                self.kind[v] = "S"
            elif param and v in ("value", "args"):
                self.special[v] = v
                return
            elif param:
                raise Shape("%s: unexpected PyObject parameter %s" % (self.fname, v))
            elif v in ("result", "dict"):
                self.special[v] = v
                return
            else:
                self.kind[v] = None  # decided by use
        self.order.append(v)

    def use(self, v, kind):
        if v not in self.kind:
            raise Shape("%s: %s used as %s but not a register variable" % (self.fname, v, kind))
        if self.kind[v] is None:
            self.kind[v] = kind
        elif self.kind[v] != kind:
            raise Shape("%s: %s used as %s and %s" % (self.fname, v, self.kind[v], kind))
        return v

    def reg(self, v):
        k = self.kind[v]
        return [w for w in self.order if self.kind[w] == k].index(v)

    # ---- first pass: declarations are removed, initialisers become statements -------------
    def strip_decls(self, nodes, top):
        out = []
        for nd in nodes:
            if nd[0] == "stmt":
                m = DECL.match(nd[1])
                if m:
                    if not top:
                        raise Shape("%s: declaration in a nested block" % self.fname)
                    ctype, rest = m.groups()
                    for part in split_top(rest, ","):
                        m2 = re.match(r"^\*?(\w+)(?:=(.*))?$", part)
                        if not m2:
                            raise Shape("%s: declaration %r" % (self.fname, nd[1]))
                        self.declare(ctype, m2.group(1))
                        if m2.group(2) is not None:
                            out.append(("stmt", "%s=%s" % (m2.group(1), m2.group(2))))
                    continue
                if DROP.match(nd[1]):
                    continue
                out.append(nd)
            elif nd[0] == "block":
                out.append(("block", self.strip_decls(nd[1], False)))
            elif nd[0] == "if":
                out.append(("if", nd[1], self.strip_one(nd[2]), None if nd[3] is None else self.strip_one(nd[3])))
            elif nd[0] == "for":
                out.append(("for", nd[1], self.strip_one(nd[2])))
            else:
                out.append(nd)
        return out

    def strip_one(self, nd):
        r = self.strip_decls([nd], False)
        return ("block", r)

    # ---- conditions ---------------------------------------------------------------------
    def cond(self, text):
        """(constructor text, negated?)"""
        c = read_cond(text)
        T = lambda v: self.reg(self.use(v, "T"))
        O = lambda v: self.reg(self.use(v, "O"))
        S = lambda v: self.reg(self.use(v, "S"))
        if isinstance(c, tuple) and c[0] == "or" and len(c[1]) == 2 and all(isinstance(x, str) for x in c[1]):
            a, b = c[1]
            m1 = re.match(r"^%s->delegate_name==NULL$" % ID, a)
            m2 = re.match(r"^%s->delegate_attr_name==NULL$" % ID, b)
            if m1 and m2 and m1.group(1) == m2.group(1):
                return ".undefinedDelegate %d" % T(m1.group(1)), False
            m2 = re.match(r"^\(%s=PyDict_GetItem\(dict,%s->delegate_name\)\)==NULL$" % (ID, ID), b)
            if a == "dict==NULL" and m2 and "dict" in self.alias:
                return ".dictProbe %d %d %d" % (O(self.alias["dict"]), T(m2.group(2)), O(m2.group(1))), True
        if isinstance(c, tuple) and c[0] == "and" and len(c[1]) == 2 and all(isinstance(x, str) for x in c[1]):
            a, b = c[1]
            m2 = re.match(r"^\(%s=PyDict_GetItem\(dict,%s->delegate_name\)\)!=NULL$" % (ID, ID), b)
            if a == "dict!=NULL" and m2 and "dict" in self.alias:
                return ".dictProbe %d %d %d" % (O(self.alias["dict"]), T(m2.group(2)), O(m2.group(1))), False
        if isinstance(c, tuple) and c[0] == "and" and len(c[1]) == 3:
            a, b, d = c[1]
            if isinstance(a, tuple) and a[0] == "or" and len(a[1]) == 2 and all(isinstance(x, str) for x in a[1]) \
                    and isinstance(b, str) and isinstance(d, str):
                m1 = re.match(r"^%s->itrait_dict==NULL$" % ID, a[1][0])
                m2 = re.match(r"^\(%s=dict_getitem\(%s->itrait_dict,%s\)\)==NULL$" % (ID, ID, ID), a[1][1])
                m3 = re.match(r"^\(%s=dict_getitem\(%s->ctrait_dict,%s\)\)==NULL$" % (ID, ID, ID), b)
                m4 = re.match(r"^\(%s=get_prefix_trait\(%s,%s,1\)\)==NULL$" % (ID, ID, ID), d)
                if m1 and m2 and m3 and m4:
                    objs = {m1.group(1), m2.group(2), m3.group(2), m4.group(2)}
                    dsts = {m2.group(1), m3.group(1), m4.group(1)}
                    names = {m2.group(3), m3.group(3), m4.group(3)}
                    if len(objs) == 1 and len(dsts) == 1 and len(names) == 1:
                        return ".traitLookupFails %d %d %d" % (O(objs.pop()), S(names.pop()), T(dsts.pop())), False
        if isinstance(c, tuple) and c[0] == "or" and len(c[1]) == 2 and all(isinstance(x, str) for x in c[1]) \
                and re.match(r"^instance>=-?\d+$", c[1][0]):
            (a, na), (b, nb) = self.cond(c[1][0]), self.cond(c[1][1])
            if not na and not nb:
                return ".or (%s) (%s)" % (a, b), False
        if isinstance(c, tuple) and c[0] == "and" and len(c[1]) == 3:
            a, b, d = c[1]
            if isinstance(a, tuple) and a[0] == "or" and len(a[1]) == 2 and all(isinstance(x, str) for x in a[1]) \
                    and isinstance(b, str) and isinstance(d, str):
                m1 = re.match(r"^%s->itrait_dict==NULL$" % ID, a[1][0])
                m2 = re.match(r"^\(%s=dict_getitem\(%s->itrait_dict,%s\)\)==NULL$" % (ID, ID, ID), a[1][1])
                m3 = re.match(r"^\(%s=dict_getitem\(%s->ctrait_dict,%s\)\)==NULL$" % (ID, ID, ID), b)
                m4 = re.match(r"^\(%s=get_prefix_trait\(%s,%s,0\)\)==NULL$" % (ID, ID, ID), d)
                if m1 and m2 and m3 and m4:
                    objs = {m1.group(1), m2.group(2), m3.group(2), m4.group(2)}
                    dsts = {m2.group(1), m3.group(1), m4.group(1)}
                    names = {m2.group(3), m3.group(3)}
                    if len(objs) == 1 and len(dsts) == 1 and len(names) == 1:
                        return ".traitLookupFails2 %d %d %d %d" % (O(objs.pop()), S(names.pop()), S(m4.group(3)),
                                                                   T(dsts.pop())), False
        if isinstance(c, str):
            m = re.match(r"^instance>=(-?\d+)$", c)
            if m and self.special.get("instance"):
                return ".instanceGe (%s)" % m.group(1), False
            if c == "dict!=NULL" and "dict" in self.alias:
                return ".dictNotNull %d" % O(self.alias["dict"]), False
            m = re.match(r"^%s==NULL$" % ID, c)
            if m:
                v = m.group(1)
                if self.special.get(v) == "temp":
                    return ".tempNull", False
                if self.kind.get(v) == "T":
                    return ".traitNull %d" % T(v), False
                if self.kind.get(v) == "S":
                    return ".nameNull %d" % S(v), False
                return ".objNull %d" % O(v), False
            m = re.match(r"^!PyUnicode_Check\(%s\)$" % ID, c)
            if m:
                return ".nameNotStr %d" % S(m.group(1)), False
            m = re.match(r"^%s->tp_getattro!=NULL$" % ID, c)
            if m and self.special.get(m.group(1)) == "tp" and "tp" in self.alias:
                return ".hasGetattro %d" % O(self.alias["tp"]), False
            if re.match(r'^Py_EnterRecursiveCall\("[^"]*"\)$', c):
                return ".enterRecursiveFails", False
            m = re.match(r"^!PyHasTraits_Check\(%s\)$" % ID, c)
            if m:
                return ".notHasTraits %d" % O(m.group(1)), False
            m = re.match(r"^Py_TYPE\(%s\)!=ctrait_type$" % ID, c)
            if m:
                return ".notCTrait %d" % T(m.group(1)), False
            m = re.match(r"^%s->delegate_attr_name==NULL$" % ID, c)
            if m:
                return ".noAttrNameFn %d" % T(m.group(1)), False
            m = re.match(r"^%s->flags&TRAIT_MODIFY_DELEGATE$" % ID, c)
            if m:
                return ".modifyDelegate %d" % T(m.group(1)), False
            if c == "result>=0":
                return ".resultOk", False
            m = re.match(r"^\+\+i>=(\d+)$", c)
            if m:
                return ".incrGe %s" % m.group(1), False
        raise Shape("%s: unknown condition %r" % (self.fname, norm(text)))

    # ---- statements ---------------------------------------------------------------------
    def stmt(self, text):
        T = lambda v: self.reg(self.use(v, "T"))
        O = lambda v: self.reg(self.use(v, "O"))
        S = lambda v: self.reg(self.use(v, "S"))
        m = re.match(r"^%s=%s->obj_dict$" % (ID, ID), text)
        if m and m.group(1) == "dict":
            self.use(m.group(2), "O")
            self.alias["dict"] = m.group(2)
            self.dict_assigned = getattr(self, "dict_assigned", 0) + 1
            return None
        m = re.match(r"^%s=Py_TYPE\(%s\)$" % (ID, ID), text)
        if m and self.special.get(m.group(1)) == "tp":
            if "tp" in self.alias:
                raise Shape("%s: tp assigned twice" % self.fname)
            self.use(m.group(2), "O")
            self.alias["tp"] = m.group(2)
            return None
        m = re.match(r"^%s=has_traits_getattro\(%s,%s->delegate_name\)$" % (ID, ID, ID), text)
        if m:
            return ".getattro %d %d %d" % (O(m.group(1)), O(m.group(2)), T(m.group(3)))
        m = re.match(r"^%s=%s->delegate_attr_name\(%s,%s,%s\)$" % (ID, ID, ID, ID, ID), text)
        if m and m.group(2) == m.group(3):
            return ".attrName %d %d %d %d" % (S(m.group(1)), T(m.group(2)), O(m.group(4)), S(m.group(5)))
        m = re.match(r"^result=\(\*%s->tp_getattro\)\(%s,%s\)$" % (ID, ID, ID), text)
        if m and self.special.get(m.group(1)) == "tp" and self.alias.get("tp") == m.group(2):
            return ".callGetattro %d %d" % (O(m.group(2)), S(m.group(3)))
        if text == "Py_LeaveRecursiveCall()":
            return ".leaveRecursive"
        if text == "break":
            return ".brk"
        if text == "fatal_trait_error()":
            return ".raise .fatalTrait"
        m = re.match(r"^%s=get_trait\(%s,%s,instance\)$" % (ID, ID, ID), text)
        if m:
            return ".getTrait %d %d %d" % (T(m.group(1)), O(m.group(2)), S(m.group(3)))
        m = re.match(r"^%s=NULL$" % ID, text)
        if m and self.kind.get(m.group(1)) == "O":
            return ".objSetNull %d" % O(m.group(1))
        m = re.match(r"^%s=PyDict_GetItem\(dict,%s->delegate_name\)$" % (ID, ID), text)
        if m and "dict" in self.alias:
            return ".dictGet %d %d %d" % (O(m.group(1)), O(self.alias["dict"]), T(m.group(2)))
        m = re.match(r"^result=%s->setattr\(%s,%s,%s,%s,value\)$" % (ID, ID, ID, ID, ID), text)
        if m:
            return ".setattr %d %d %d %d %d" % (T(m.group(1)), T(m.group(2)), T(m.group(3)), O(m.group(4)), S(m.group(5)))
        m = re.match(r'^%s=PyObject_CallMethod\(%s,"_remove_trait_delegate_listener","\(Oi\)",%s,value!=NULL\)$'
                     % (ID, ID, ID), text)
        if m and self.kind.get(m.group(1), 0) is None:
            self.kind.pop(m.group(1))
            self.order.remove(m.group(1))
            self.special[m.group(1)] = "temp"
        if m and self.special.get(m.group(1)) == "temp":
            return ".removeListener %d %d" % (O(m.group(2)), S(m.group(3)))
        if text in ("result=-1", "result=NULL"):
            return ".resultFail"
        m = re.match(r"^(\w+)\(%s,%s\)$" % (ID, ID), text)
        if m and m.group(1) in ERRFUNS:
            if (self.reg(self.use(m.group(2), "O")), self.reg(self.use(m.group(3), "S"))) != (0, 0):
                raise Shape("%s: error helper on %s" % (self.fname, text))
            return ".raise .%s" % ERRFUNS[m.group(1)]
        m = re.match(r"^invalid_attribute_error\(%s\)$" % ID, text)
        if m and S(m.group(1)) == 0:
            return ".raise .invalidAttribute"
        if re.match(r"^PyErr_Format\(DelegationError,", text):
            return ".raise .delegationFormat"
        m = re.match(r"^%s=%s$" % (ID, ID), text)
        if m:
            a, b = m.groups()
            ka, kb = self.kind.get(a, 0), self.kind.get(b, 0)
            if ka == 0 or kb == 0:
                raise Shape("%s: copy %s" % (self.fname, text))
            k = ka or kb
            if k is None:
                raise Shape("%s: copy between variables of unknown kind: %s" % (self.fname, text))
            self.use(a, k)
            self.use(b, k)
            if k == "S":
                return ".copyName %d %d" % (self.reg(a), self.reg(b))
            if k == "O":
                return ".copyObj %d %d" % (self.reg(a), self.reg(b))
        raise Shape("%s: unknown statement %r" % (self.fname, text))

    def ret(self, text):
        if text == "result":
            return ".retResult"
        if text in ("NULL", "-1"):
            return ".retErr .pending"
        if text == "fatal_trait_error()":
            return ".retErr .fatalTrait"
        if self.kind.get(text) == "T":
            return ".retTrait %d" % self.reg(text)
        m = re.match(r"^(\w+)\(%s,%s\)$" % (ID, ID), text)
        if m and m.group(1) in ERRFUNS:
            if (self.reg(self.use(m.group(2), "O")), self.reg(self.use(m.group(3), "S"))) != (0, 0):
                raise Shape("%s: error helper on %s" % (self.fname, text))
            return ".retErr .%s" % ERRFUNS[m.group(1)]
        raise Shape("%s: unknown return %r" % (self.fname, text))

    def seq(self, nodes):
        terms = []
        for nd in nodes:
            t = self.node(nd)
            if t is not None:
                terms.append(t)
        return self.mkseq(terms)

    @staticmethod
    def mkseq(terms):
        if not terms:
            return ".skip"
        out = terms[-1]
        for t in reversed(terms[:-1]):
            out = "(.seq %s %s)" % (t, out)
        return out

    def node(self, nd):
        k = nd[0]
        if k == "stmt":
            t = self.stmt(nd[1])
            return None if t is None else "(%s)" % t
        if k == "ret":
            return "(%s)" % self.ret(nd[1])
        if k == "goto":
            if nd[1] != self.tail_label:
                raise Shape("%s: goto %s" % (self.fname, nd[1]))
            return "(.retResult)"
        if k == "block":
            return self.seq(nd[1])
        if k == "if" and norm(nd[1]) == '!PyArg_ParseTuple(args,"Oi",&name,&instance)' \
                and self.special.get("args") and nd[3] is None and self.node(nd[2]) == "(.retErr .pending)":
            self.use("name", "S")
            return None
        if k == "if":
            c, neg = self.cond(nd[1])
            a = self.node(nd[2]) or ".skip"
            b = ".skip" if nd[3] is None else (self.node(nd[3]) or ".skip")
            if neg:
                a, b = b, a
            return "(.ite (%s) %s %s)" % (c, a, b)
        raise Shape("%s: unexpected %s" % (self.fname, k))

    post = ".skip"

    def translate(self):
        nodes = self.strip_decls(self.nodes, True)
        # a trailing `label: return result;` makes `goto label` a return of the result
        labels = [i for i, nd in enumerate(nodes) if nd[0] == "label"]
        if labels:
            if len(labels) != 1:
                raise Shape("%s: several labels" % self.fname)
            i = labels[0]
            if nodes[i + 1:] != [("ret", "result")]:
                raise Shape("%s: statements after the label %s are not `return result`" % (self.fname, nodes[i][1]))
            self.tail_label = nodes[i][1]
            nodes = nodes[:i] + nodes[i + 1:]
        fors = [i for i, nd in enumerate(nodes) if nd[0] == "for"]
        if not fors:
            pre = self.seq(nodes)
            loop = "none"
        else:
            if len(fors) != 1:
                raise Shape("%s: more than one loop" % self.fname)
            fi = fors[0]
            if nodes[fi][1] != "i=0;;":
                raise Shape("%s: loop header %r" % (self.fname, nodes[fi][1]))
            pre = self.seq(nodes[:fi])
            loop = "(some %s)" % (self.node(nodes[fi][2]) or ".skip")
            self.post = self.seq(nodes[fi + 1:])
        if getattr(self, "dict_assigned", 0) > 1:
            raise Shape("%s: dict assigned more than once" % self.fname)
        for v, kd in self.kind.items():
            if kd is None:
                raise Shape("%s: variable %s has no recognised use" % (self.fname, v))
        return pre, loop

    def registers(self):
        return {k: [v for v in self.order if self.kind[v] == k] for k in "OST"}


def chars(s):
    def one(ch):
        if ch == "'":
            return "'\\''"
        if ch == "\\":
            return "'\\\\'"
        if ch == "\n":
            return "'\\n'"
        if not (32 <= ord(ch) < 127):
            raise Shape("character %r in a name" % ch)
        return "'%s'" % ch
    return "[" + ", ".join(one(c) for c in s) + "]"


def lean_str(s):
    return '"' + s.replace("\\", "\\\\").replace('"', '\\"').replace("\n", " ") + '"'


def read_name_function(src, fname, class_prefix_value):
    params, body = c_function(src, fname)
    if [norm(p) for p in params.split(",")] != ["trait_object*trait", "has_traits_object*obj", "PyObject*name"]:
        raise Shape("%s: parameters %r" % (fname, norm(params)))
    nodes = read_statements(body)
    locs = []
    out = []

    def expr(t):
        if t == "name":
            return ".name"
        if t == "trait->delegate_prefix":
            return ".delegPrefix"
        if t in locs:
            return "(.var %d)" % locs.index(t)
        m = re.match(r"^PyUnicode_Concat\((.+),(.+)\)$", t)
        if m and "(" not in m.group(1) + m.group(2):
            return "(.concat %s %s)" % (expr(m.group(1)), expr(m.group(2)))
        if t == "PyObject_GetAttr(Py_TYPE(obj),class_prefix)":
            return "(.typeAttr %s)" % chars(class_prefix_value)
        raise Shape("%s: unknown expression %r" % (fname, t))

    for nd in nodes:
        if nd[0] == "stmt":
            t = nd[1]
            if DROP.match(t):
                continue
            m = DECL.match(t)
            if m:
                if m.group(1) != "PyObject":
                    raise Shape("%s: declaration %r" % (fname, t))
                for part in split_top(m.group(2), ","):
                    m2 = re.match(r"^\*(\w+)(?:=(.*))?$", part)
                    if not m2 or m2.group(1) in locs or m2.group(1) in ("name", "trait", "obj"):
                        raise Shape("%s: declaration %r" % (fname, t))
                    locs.append(m2.group(1))
                    if m2.group(2) is not None:
                        out.append(".assign %d %s" % (locs.index(m2.group(1)), expr(m2.group(2))))
                continue
            m = re.match(r"^(\w+)=(.*)$", t)
            if m and m.group(1) in locs:
                out.append(".assign %d %s" % (locs.index(m.group(1)), expr(m.group(2))))
                continue
            raise Shape("%s: unknown statement %r" % (fname, t))
        elif nd[0] == "ret":
            out.append(".ret %s" % expr(nd[1]))
        elif nd[0] == "if":
            c = read_cond(nd[1])
            m = re.match(r"^(\w+)==NULL$", c) if isinstance(c, str) else None
            inner = nd[2][1] if nd[2][0] == "block" else [nd[2]]
            inner = [x for x in inner if not (x[0] == "stmt" and DROP.match(x[1]))]
            if not m or m.group(1) not in locs or nd[3] is not None or len(inner) != 2 \
                    or inner[0] != ("stmt", "PyErr_Clear()") or inner[1][0] != "ret":
                raise Shape("%s: unknown if statement %r" % (fname, norm(nd[1])))
            out.append(".ifNullClearRet %d %s" % (locs.index(m.group(1)), expr(inner[1][1])))
        else:
            raise Shape("%s: unexpected %s" % (fname, nd[0]))
    return "[" + ", ".join(out) + "]"


def read_c(src):
    src = strip_comments(src)
    m = re.findall(r"^\s*class_prefix\s*=\s*PyUnicode_(?:FromString|InternFromString)\(\"([^\"]*)\"\)\s*;", src, flags=re.M)
    if len(m) != 1:
        raise Shape("class_prefix initialisation: %d found" % len(m))
    class_prefix_value = m[0]
    # the handler table
    ms = list(re.finditer(r"\bdelegate_attr_name_handlers\s*\[\s*\]\s*=\s*\{", src))
    if len(ms) != 1:
        raise Shape("delegate_attr_name_handlers: %d initialisers" % len(ms))
    a = ms[0].end() - 1
    b = matching(src, a)
    entries = [e.strip() for e in src[a + 1:b].split(",") if e.strip()]
    if not entries or entries[-1] != "NULL" or "NULL" in entries[:-1]:
        raise Shape("delegate_attr_name_handlers: %r" % entries)
    handlers = entries[:-1]
    # `_trait_delegate`: how the integer selects the handler
    _, tb = c_function(src, "_trait_delegate")
    tbn = norm(tb)
    if "trait->delegate_attr_name=delegate_attr_name_handlers[prefix_type];" not in tbn:
        raise Shape("_trait_delegate: handler selection not recognised")
    m = re.search(r"if\(\(prefix_type<0\)\|\|\(prefix_type>(\d+)\)\)\{prefix_type=(\d+);\}", tbn)
    if not m:
        raise Shape("_trait_delegate: range clamp not recognised")
    clamp_hi, clamp_to = int(m.group(1)), int(m.group(2))
    m = re.search(r'PyArg_ParseTuple\(args,"(\w+)",&(\w+),&(\w+),&(\w+),&(\w+)\)', tbn)
    if not m:
        raise Shape("_trait_delegate: argument parsing not recognised")
    parse_args = list(m.groups())
    if "if(modify_delegate){trait->flags|=TRAIT_MODIFY_DELEGATE;}else{trait->flags&=~TRAIT_MODIFY_DELEGATE;}" not in tbn \
            or "trait->delegate_name=delegate_name;" not in tbn or "trait->delegate_prefix=delegate_prefix;" not in tbn:
        raise Shape("_trait_delegate: field stores not recognised")
    bodies = {h: read_name_function(src, h, class_prefix_value) for h in handlers}
    # the two big functions
    gp, gb = c_function(src, "getattr_delegate")
    g = CFunReader("getattr_delegate", gp, gb)
    gpre, gloop = g.translate()
    sp, sb = c_function(src, "setattr_delegate")
    s = CFunReader("setattr_delegate", sp, sb)
    spre, sloop = s.translate()
    bp, bb = c_function(src, "_has_traits_trait")
    bt = CFunReader("_has_traits_trait", bp, bb)
    bpre, bloop = bt.translate()
    return dict(base=(bpre, bloop, bt.registers(), bt.post), handlers=handlers, bodies=bodies, clamp=(clamp_hi, clamp_to), parse_args=parse_args,
                get=(gpre, gloop, g.registers()), set=(spre, sloop, s.registers()))


# --------------------------------------------------------------------------- Python side

def un(node):
    return ast.unparse(node).replace('"', "'")


def find_func(tree, name, cls=None):
    hits = []
    for n in ast.walk(tree):
        if cls is not None:
            if isinstance(n, ast.ClassDef) and n.name == cls:
                hits += [m for m in n.body if isinstance(m, ast.FunctionDef) and m.name == name]
        elif isinstance(n, ast.Module):
            hits += [m for m in n.body if isinstance(m, ast.FunctionDef) and m.name == name]
    if len(hits) != 1:
        raise Shape("python function %s.%s: %d definitions" % (cls, name, len(hits)))
    return hits[0]


def body_of(fn):
    return [s for s in fn.body if not (isinstance(s, ast.Expr) and isinstance(s.value, ast.Constant)
                                       and isinstance(s.value.value, str))]


class PyStr:
    """String programs -> PStmt."""

    def __init__(self, fname, variables, trait_var=None, self_class_attr=False):
        self.fname = fname
        self.vars = list(variables)
        self.trait_var = trait_var
        self.self_class_attr = self_class_attr

    def var(self, name, create=False):
        if name not in self.vars:
            if not create:
                raise Shape("%s: unknown variable %s" % (self.fname, name))
            self.vars.append(name)
        return self.vars.index(name)

    def expr(self, e):
        if isinstance(e, ast.Name):
            return "(.var %d)" % self.var(e.id)
        if isinstance(e, ast.Constant) and isinstance(e.value, str):
            return "(.lit %s)" % chars(e.value)
        if isinstance(e, ast.Call) and un(e.func) == "self._trait_delegate_name" and len(e.args) == 2 and not e.keywords:
            return "(.delegateName %s %s)" % (self.expr(e.args[0]), self.expr(e.args[1]))
        if isinstance(e, ast.Subscript) and un(e.slice) == "-1" and isinstance(e.value, ast.Call) \
                and isinstance(e.value.func, ast.Attribute) and e.value.func.attr == "split" \
                and [un(a) for a in e.value.args] == ["':'"] and not e.value.keywords:
            return "(.afterColon %s)" % self.expr(e.value.func.value)
        if isinstance(e, ast.Subscript) and isinstance(e.slice, ast.Slice) and e.slice.upper is None \
                and e.slice.step is None and isinstance(e.slice.lower, ast.Name):
            return "(.dropVar %s %d)" % (self.expr(e.value), self.var(e.slice.lower.id))
        if isinstance(e, ast.Subscript):
            s = e.slice
            if isinstance(s, ast.Slice) and s.lower is None and s.step is None and un(s.upper) == "-1":
                return "(.dropLast %s)" % self.expr(e.value)
            if isinstance(s, ast.Slice) and s.upper is None and s.step is None and un(s.lower) == "-1":
                return "(.lastSlice %s)" % self.expr(e.value)
            if not isinstance(s, ast.Slice) and un(s) == "-1":
                return "(.lastChar %s)" % self.expr(e.value)
        if isinstance(e, ast.BinOp) and isinstance(e.op, ast.Add):
            return "(.concat %s %s)" % (self.expr(e.left), self.expr(e.right))
        if isinstance(e, ast.BinOp) and isinstance(e.op, ast.Mod) and isinstance(e.left, ast.Constant) \
                and isinstance(e.left.value, str) and isinstance(e.right, ast.Tuple):
            pieces = e.left.value.split("%s")
            if "%" in "".join(pieces) or len(pieces) != len(e.right.elts) + 1:
                raise Shape("%s: format %r" % (self.fname, e.left.value))
            parts = []
            for lit, arg in zip(pieces, list(e.right.elts) + [None]):
                if lit:
                    parts.append("(.lit %s)" % chars(lit))
                if arg is not None:
                    parts.append(self.expr(arg))
            out = parts[-1]
            for p in reversed(parts[:-1]):
                out = "(.concat %s %s)" % (p, out)
            return out
        if isinstance(e, ast.Attribute) and isinstance(e.value, ast.Name) and e.value.id == self.trait_var:
            return "(.tmeta %s)" % chars(e.attr)
        if self.self_class_attr and isinstance(e, ast.Call) and un(e.func) == "getattr" and len(e.args) == 3 \
                and un(e.args[0]) == "self.__class__" and all(
                    isinstance(a, ast.Constant) and isinstance(a.value, str) for a in e.args[1:]) and not e.keywords:
            return "(.classAttr %s %s)" % (chars(e.args[1].value), chars(e.args[2].value))
        raise Shape("%s: unknown expression %s" % (self.fname, un(e)))

    def cond(self, c):
        if isinstance(c, ast.BoolOp) and isinstance(c.op, ast.And):
            out = self.cond(c.values[-1])
            for v in reversed(c.values[:-1]):
                out = "(.and %s %s)" % (self.cond(v), out)
            return out
        if isinstance(c, ast.Compare) and len(c.ops) == 1:
            op, l, r = c.ops[0], c.left, c.comparators[0]
            if isinstance(op, ast.Eq):
                return "(.eq %s %s)" % (self.expr(l), self.expr(r))
            if isinstance(op, ast.NotEq):
                return "(.ne %s %s)" % (self.expr(l), self.expr(r))
            if isinstance(op, ast.Gt) and isinstance(l, ast.Call) and un(l.func) == "len" and len(l.args) == 1 \
                    and isinstance(r, ast.Constant) and isinstance(r.value, int) and r.value >= 0:
                return "(.lenGt %s %d)" % (self.expr(l.args[0]), r.value)
        raise Shape("%s: unknown condition %s" % (self.fname, un(c)))

    def stmts(self, body, ignore=()):
        terms = []
        for s in body:
            if un(s) in ignore:
                continue
            terms.append(self.stmt(s))
        return CFunReader.mkseq(terms)

    def stmt(self, s):
        if isinstance(s, ast.If):
            return "(.ite %s %s %s)" % (self.cond(s.test), self.stmts(s.body), self.stmts(s.orelse))
        if isinstance(s, ast.Return) and s.value is not None:
            return "(.ret %s)" % self.expr(s.value)
        if isinstance(s, ast.Assign) and len(s.targets) == 1:
            t = s.targets[0]
            if isinstance(t, ast.Name):
                if isinstance(s.value, ast.Constant) and isinstance(s.value.value, int) \
                        and not isinstance(s.value.value, bool) and s.value.value >= 0:
                    return "(.assignInt %d %d)" % (self.var(t.id, True), s.value.value)
                if isinstance(s.value, ast.Call) and un(s.value.func) == "len" and len(s.value.args) == 1 \
                        and not s.value.keywords:
                    e = self.expr(s.value.args[0])
                    return "(.assignLen %d %s)" % (self.var(t.id, True), e)
                e = self.expr(s.value)
                return "(.assign %d %s)" % (self.var(t.id, True), e)
            if isinstance(t, ast.Subscript) and un(t.value) == "metadata" and isinstance(t.slice, ast.Constant) \
                    and isinstance(s.value, ast.Name):
                return "(.setMeta %s %d)" % (chars(t.slice.value), self.var(s.value.id))
            if isinstance(t, ast.Attribute) and un(t.value) == "self" and isinstance(s.value, ast.Name):
                return "(.setSelf %s %d)" % (chars(t.attr), self.var(s.value.id))
        raise Shape("%s: unknown statement %s" % (self.fname, un(s)))


def params_of(fn):
    a = fn.args
    if a.vararg or a.kwonlyargs or a.posonlyargs:
        raise Shape("%s: parameter list" % fn.name)
    return [x.arg for x in a.args], [None] * (len(a.args) - len(a.defaults)) + [un(d) for d in a.defaults], \
        (a.kwarg.arg if a.kwarg else None)


LCLASS_PAT = "self.__class__.__listener_traits__[name][1]"


def read_remove_listener(fn):
    names, _, kw = params_of(fn)
    if names != ["self", "name", "remove"] or kw:
        raise Shape("_remove_trait_delegate_listener: parameters %r" % names)
    body = body_of(fn)
    if not body or un(body[0]) != "dict = self.__dict__.setdefault(ListenerTraits, {})":
        raise Shape("_remove_trait_delegate_listener: table lookup %s" % (un(body[0]) if body else ""))

    def pat(e):
        t = un(e)
        if t == "self._trait_delegate_name(name, %s)" % LCLASS_PAT:
            return ".viaDelegateName"
        if t == LCLASS_PAT:
            return ".classPattern"
        return ".other"

    def cond(c):
        t = un(c)
        table = {"remove": ".remove", "name in dict": ".inTable", "name not in dict": ".notInTable",
                 "len(dict) == 0": ".tableEmpty", "not dict": ".tableEmpty"}
        if t not in table:
            raise Shape("_remove_trait_delegate_listener: condition %s" % t)
        return table[t]

    def stmts(ss):
        return CFunReader.mkseq([stmt(s) for s in ss])

    def stmt(s):
        if isinstance(s, ast.If):
            return "(.ite %s %s %s)" % (cond(s.test), stmts(s.body), stmts(s.orelse))
        if isinstance(s, ast.Return) and s.value is None:
            return ".ret"
        t = un(s)
        if t == "del dict[name]":
            return ".delEntry"
        if t == "del self.__dict__[ListenerTraits]":
            return ".dropTable"
        if isinstance(s, ast.Expr) and isinstance(s.value, ast.Call):
            c = s.value
            f = un(c.func)
            if f == "self.on_trait_change" and len(c.args) == 2 and un(c.args[0]) == "dict[name]" \
                    and [(k.arg, un(k.value)) for k in c.keywords] == [("remove", "True")]:
                return "(.unhook %s)" % pat(c.args[1])
            if f == "self._init_trait_delegate_listener" and len(c.args) == 3 and un(c.args[0]) == "name" \
                    and not c.keywords:
                return "(.initListener %s)" % pat(c.args[2])
        raise Shape("_remove_trait_delegate_listener: statement %s" % t)

    return stmts(body[1:])


def read_py(traits_dir):
    tt = ast.parse(open(os.path.join(traits_dir, "trait_types.py")).read())
    ht = ast.parse(open(os.path.join(traits_dir, "has_traits.py")).read())
    out = {}
    # Delegate.__init__
    fn = find_func(tt, "__init__", "Delegate")
    names, defaults, kw = params_of(fn)
    if names != ["self", "delegate", "prefix", "modify", "listenable"] or kw != "metadata" \
            or defaults != [None, None, "''", "False", "True"]:
        raise Shape("Delegate.__init__: parameters %r %r" % (names, defaults))
    ps = PyStr("Delegate.__init__", names[1:])
    out["initDelegate"] = ps.stmts(body_of(fn), ignore=("metadata['_listenable'] = listenable",
                                                        "super().__init__(**metadata)"))
    out["initDelegateVars"] = ps.vars
    # as_ctrait
    fn = find_func(tt, "as_ctrait", "Delegate")
    calls = [n for n in ast.walk(fn) if isinstance(n, ast.Call) and un(n.func) == "trait.delegate"]
    if len(calls) != 1 or calls[0].keywords:
        raise Shape("Delegate.as_ctrait: call of trait.delegate")
    out["asCtraitArgs"] = [un(a) for a in calls[0].args]
    # DelegatesTo / PrototypedFrom
    for cls in ("DelegatesTo", "PrototypedFrom"):
        fn = find_func(tt, "__init__", cls)
        names, defaults, kw = params_of(fn)
        if len(names) != 4 or names[0] != "self" or names[2:] != ["prefix", "listenable"] or defaults[2] != "''":
            raise Shape("%s.__init__: parameters" % cls)
        body = body_of(fn)
        if len(body) != 1 or not (isinstance(body[0], ast.Expr) and isinstance(body[0].value, ast.Call)
                                  and un(body[0].value.func) == "super().__init__"):
            raise Shape("%s.__init__: body" % cls)
        c = body[0].value
        kws = {k.arg: un(k.value) for k in c.keywords}
        if [un(a) for a in c.args] != [names[1]] or kws.get("prefix") != "prefix" \
                or kws.get("modify") not in ("True", "False"):
            raise Shape("%s.__init__: super call %s" % (cls, un(c)))
        bases = [un(b) for b in next(n for n in ast.walk(tt) if isinstance(n, ast.ClassDef) and n.name == cls).bases]
        if bases != ["Delegate"]:
            raise Shape("%s: bases %r" % (cls, bases))
        out["modify" + cls] = kws["modify"] == "True"
    # get_delegate_pattern
    fn = find_func(ht, "get_delegate_pattern")
    names, _, kw = params_of(fn)
    if names != ["name", "trait"] or kw:
        raise Shape("get_delegate_pattern: parameters")
    ps = PyStr("get_delegate_pattern", names, trait_var="trait")
    out["delegatePattern"] = ps.stmts(body_of(fn))
    # _trait_delegate_name
    fn = find_func(ht, "_trait_delegate_name", "HasTraits")
    names, _, kw = params_of(fn)
    if names != ["self", "name", "pattern"] or kw:
        raise Shape("_trait_delegate_name: parameters")
    ps = PyStr("_trait_delegate_name", names[1:], self_class_attr=True)
    out["traitDelegateName"] = ps.stmts(body_of(fn))
    # _remove_trait_delegate_listener
    out["removeListener"] = read_remove_listener(find_func(ht, "_remove_trait_delegate_listener", "HasTraits"))
    # _init_trait_delegate_listener: a program
    fn = find_func(ht, "_init_trait_delegate_listener", "HasTraits")
    names, _, kw = params_of(fn)
    if names != ["self", "name", "kind", "pattern"] or kw:
        raise Shape("_init_trait_delegate_listener: parameters")
    body = body_of(fn)
    closures = [i for i, s_ in enumerate(body) if isinstance(s_, ast.FunctionDef)]
    if len(closures) != 1 or len(body) != closures[0] + 3:
        raise Shape("_init_trait_delegate_listener: expected <assignments>; def notify; on_trait_change; table store")
    ci = closures[0]
    ps = PyStr("_init_trait_delegate_listener", names[1:])
    pre = ps.stmts(body[:ci])
    cl = body[ci]
    cnames, _, ckw = params_of(cl)
    if cl.name != "notify" or [un(d_) for d_ in cl.decorator_list] != ["weak_arg(self)"] \
            or cnames != ["self", "object", "notify_name", "old", "new"] or ckw or len(body_of(cl)) != 1:
        raise Shape("_init_trait_delegate_listener: closure %s" % un(cl).split("\n")[0])
    cs = body_of(cl)[0]
    if not (isinstance(cs, ast.Expr) and isinstance(cs.value, ast.Call)
            and un(cs.value.func) == "self.trait_property_changed" and len(cs.value.args) == 3
            and [un(a) for a in cs.value.args[1:]] == ["old", "new"] and not cs.value.keywords):
        raise Shape("_init_trait_delegate_listener: closure body %s" % un(cs))
    notify_var = ps.var("notify_name", True)
    notify_name = ps.expr(cs.value.args[0])
    reg = body[ci + 1]
    if not (isinstance(reg, ast.Expr) and isinstance(reg.value, ast.Call) and un(reg.value.func) == "self.on_trait_change"
            and len(reg.value.args) == 2 and un(reg.value.args[0]) == "notify"
            and [(k_.arg, un(k_.value)) for k_ in reg.value.keywords] == [("target", "self")]):
        raise Shape("_init_trait_delegate_listener: registration %s" % un(reg))
    reg_pat = ps.expr(reg.value.args[1])
    st_ = body[ci + 2]
    if not (isinstance(st_, ast.Assign) and len(st_.targets) == 1 and isinstance(st_.targets[0], ast.Subscript)
            and un(st_.targets[0].value) == "self.__dict__.setdefault(ListenerTraits, {})" and un(st_.value) == "notify"):
        raise Shape("_init_trait_delegate_listener: table store %s" % un(st_))
    key = ps.expr(st_.targets[0].slice)
    out["initListener"] = ("{ body := %s,\n    notifyVar := %d,\n    notifyName := %s,\n    registerPattern := %s,\n    storeKey := %s }"
                           % (pre, notify_var, notify_name, reg_pat, key))
    out["initListenerVars"] = ps.vars
    # who fills __listener_traits__ with the pattern
    sites = []
    for n in ast.walk(ht):
        if isinstance(n, ast.Call) and un(n.func) == "get_delegate_pattern":
            sites.append(un(n))
    out["patternSites"] = sorted(sites)
    return out


def emit(traits_dir):
    c = read_c(open(os.path.join(traits_dir, "ctraits.c")).read())
    p = read_py(traits_dir)
    L = ["/- GENERATED by harness/translate/delegsrc.py from the working tree - do not edit. -/",
         "import TraitsVerif.Model.DelegSrc",
         "namespace TraitsVerif.Generated.DelegSrc",
         "open TraitsVerif.Model.DelegSrc", ""]
    L.append("/-- `delegate_attr_name_handlers[]` (ctraits.c), in table order. -/")
    L.append("def handlerNames : List String := [%s]" % ", ".join(lean_str(h) for h in c["handlers"]))
    L.append("def attrNameHandlers : List (List NStmt) := [")
    L.append(",\n".join("  %s" % c["bodies"][h] for h in c["handlers"]))
    L.append("]")
    L.append("/-- `_trait_delegate`: `prefix_type` outside `0..clampHi` selects handler `clampTo`. -/")
    L.append("def clampHi : Nat := %d" % c["clamp"][0])
    L.append("def clampTo : Nat := %d" % c["clamp"][1])
    L.append("def traitDelegateArgs : List String := [%s]" % ", ".join(lean_str(a) for a in c["parse_args"]))
    L.append("")
    for key, nm in (("get", "getattrDelegate"), ("set", "setattrDelegate"), ("base", "hasTraitsTrait")):
        pre, loop, regs = c[key][:3]
        post = c[key][3] if len(c[key]) > 3 else ".skip"
        L.append("/-- registers: objects %s, names %s, traits %s -/" % (regs["O"], regs["S"], regs["T"]))
        L.append("def %s : CFun := {\n  nO := %d,\n  nS := %d,\n  pre := %s,\n  loop := %s,\n  post := %s }"
                 % (nm, len(regs["O"]), len(regs["S"]), pre, loop, post))
        L.append("")
    L.append("/-- `Delegate.__init__`: variables %s -/" % p["initDelegateVars"])
    L.append("def initDelegate : PStmt := %s" % p["initDelegate"])
    L.append("def asCtraitArgs : List String := [%s]" % ", ".join(lean_str(a) for a in p["asCtraitArgs"]))
    L.append("def modifyDelegatesTo : Bool := %s" % ("true" if p["modifyDelegatesTo"] else "false"))
    L.append("def modifyPrototypedFrom : Bool := %s" % ("true" if p["modifyPrototypedFrom"] else "false"))
    L.append("def delegatePattern : PStmt := %s" % p["delegatePattern"])
    L.append("def traitDelegateName : PStmt := %s" % p["traitDelegateName"])
    L.append("def removeListener : LStmt := %s" % p["removeListener"])
    L.append("/-- `_init_trait_delegate_listener`: variables %s -/" % p["initListenerVars"])
    L.append("def initListener : InitListener :=\n  %s" % p["initListener"])
    L.append("def patternSites : List String := [%s]" % ", ".join(lean_str(a) for a in p["patternSites"]))
    L += ["", "end TraitsVerif.Generated.DelegSrc"]
    return "\n".join(L) + "\n"


if __name__ == "__main__":
    import sys
    print(emit(sys.argv[1] if len(sys.argv) > 1 else "/repo/traits"), end="")
