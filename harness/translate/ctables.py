"""Translator: the table-like parts of traits/ctraits.c (DESIGN §3.1).

Reads, with regular expressions only (no C parser):

  * the initialisers of the seven function-pointer tables, as lists of names,
    `NULL` entries and terminators kept in position;
  * every assignment `x->FIELD = RHS;` to one of the five function-pointer
    fields of `trait_object` (function it occurs in, field, normalised RHS);
  * for every table subscript used on such a right-hand side, the integer
    guard that protects it in the same function (range test, rejecting range
    test, or `switch` with `goto done`), as the list of admitted values;
    subscripts in `_trait_setstate` are unguarded in the source and are
    emitted as such;
  * the guard of `_trait_set_default_value`, the tuple shapes it checks, the
    `case` labels of `default_value_for` and the tuple subscripts they use;
  * the `case` labels of `validate_trait_complex`;
  * reference ownership facts: what every `PyTuple_SET_ITEM` / `PyList_SET_ITEM`
    stores (new reference or borrowed), the first statement of every
    `tp_dealloc`, the list `call_notifiers` dispatches from, every variable
    handed to a reference-STEALING argument (`PyException_SetCause`,
    `PyTuple_SET_ITEM`, `PyList_SET_ITEM`, `PyErr_Restore`) with the number of
    releases of it that can follow in the function, every `Py_(X)DECREF`
    applied directly to a struct field with whether the field is stored again
    afterwards, and the field copies / INCREFs of `trait_clone`;
  * all `#define TRAIT_* / HASTRAITS_* / *_DEFAULT_VALUE / MAXIMUM_*` constants.

Emits Generated/CTables.lean (pure data).  Fails closed: any shape it does not
recognise raises ValueError, which the engine reports as a broken tie.
"""
import os
import re

TARGET = "CTables.lean"

TABLES = [
    ("getattr_handlers", "getattrHandlers"),
    ("setattr_handlers", "setattrHandlers"),
    ("setattr_property_handlers", "setattrPropertyHandlers"),
    ("getattr_property_handlers", "getattrPropertyHandlers"),
    ("setattr_validate_handlers", "setattrValidateHandlers"),
    ("validate_handlers", "validateHandlers"),
    ("delegate_attr_name_handlers", "delegateAttrNameHandlers"),
]
FIELDS = ["getattr", "setattr", "post_setattr", "validate", "delegate_attr_name"]
UNGUARDED_FUNCTIONS = ["_trait_setstate"]  # indices come from a pickled tuple; no check in the source


class Shape(ValueError):
    pass


def strip_comments(src):
    """Remove /* */ and // comments, keep string literals and line structure."""
    out = []
    i, n = 0, len(src)
    while i < n:
        c = src[i]
        if c == '"' or c == "'":
            j = i + 1
            while j < n and src[j] != c:
                j += 2 if src[j] == "\\" else 1
            out.append(src[i:j + 1])
            i = j + 1
        elif src.startswith("/*", i):
            j = src.find("*/", i + 2)
            if j < 0:
                raise Shape("unterminated comment")
            out.append(re.sub(r"[^\n]", " ", src[i:j + 2]))
            i = j + 2
        elif src.startswith("//", i):
            j = src.find("\n", i)
            j = n if j < 0 else j
            out.append(" " * (j - i))
            i = j
        else:
            out.append(c)
            i += 1
    return "".join(out)


def matching(src, open_pos, o="{", c="}"):
    """Position of the bracket matching src[open_pos]."""
    assert src[open_pos] == o, src[open_pos:open_pos + 20]
    depth = 0
    i = open_pos
    while i < len(src):
        ch = src[i]
        if ch == '"' or ch == "'":
            j = i + 1
            while j < len(src) and src[j] != ch:
                j += 2 if src[j] == "\\" else 1
            i = j
        elif ch == o:
            depth += 1
        elif ch == c:
            depth -= 1
            if depth == 0:
                return i
        i += 1
    raise Shape("unbalanced %s at %d" % (o, open_pos))


def read_defines(src):
    consts = {}
    order = []
    for m in re.finditer(r"^#define[ \t]+(\w+)[ \t]+(0[xX][0-9a-fA-F]+|\d+)[uU]?[ \t]*$", src, flags=re.M):
        name, val = m.group(1), m.group(2)
        if re.match(r"(TRAIT_|HASTRAITS_|MAXIMUM_)\w+$|\w+_DEFAULT_VALUE$", name):
            if name in consts:
                raise Shape("constant %s defined twice" % name)
            consts[name] = int(val, 0)
            order.append(name)
    for must in ("TRAIT_PROPERTY", "HASTRAITS_NO_NOTIFY", "MAXIMUM_DEFAULT_VALUE_TYPE", "CONSTANT_DEFAULT_VALUE"):
        if must not in consts:
            raise Shape("constant %s not found" % must)
    return consts, order


def read_table(src, cname):
    ms = list(re.finditer(r"\b%s\s*\[\s*\]\s*=\s*\{" % re.escape(cname), src))
    if len(ms) != 1:
        raise Shape("table %s: %d initialisers found" % (cname, len(ms)))
    a = ms[0].end() - 1
    b = matching(src, a)
    if not re.match(r"\s*;", src[b + 1:]):
        raise Shape("table %s: no ';' after initialiser" % cname)
    body = src[a + 1:b]
    entries = [e.strip() for e in body.split(",")]
    if entries and entries[-1] == "":
        entries.pop()
    out = []
    for e in entries:
        m = re.match(r"^(?:\(\s*\w+\s*\)\s*)?(\w+)$", e)
        if not m:
            raise Shape("table %s: unknown entry %r" % (cname, e))
        out.append(m.group(1))
    if not out:
        raise Shape("table %s is empty" % cname)
    return out


def functions(src):
    """[(name, start_of_body '{', end '}')] for definitions written as
    `type\\nname(args)\\n{` (the style of this file)."""
    out = []
    for m in re.finditer(r"^(\w+)\s*\(", src, flags=re.M):
        p = matching(src, m.end() - 1, "(", ")")
        m2 = re.match(r"\s*\{", src[p + 1:])
        if not m2:
            continue  # prototype or macro use
        a = p + 1 + m2.end() - 1
        out.append((m.group(1), a, matching(src, a)))
    return out


def enclosing(funcs, pos):
    for name, a, b in funcs:
        if a <= pos <= b:
            return name, a, b
    raise Shape("assignment at offset %d is outside every function" % pos)


def resolve(tok, consts):
    if re.match(r"^-?\d+$", tok):
        return int(tok)
    if tok in consts:
        return consts[tok]
    raise Shape("cannot resolve integer %r" % tok)


def switch_cases(src, sw_open, consts):
    """Parse the body of a switch whose '{' is at sw_open.  Returns
    [(labels, segment_text)] with fall-through labels grouped."""
    end = matching(src, sw_open)
    body = src[sw_open + 1:end]
    # only labels at nesting depth 0 of this switch
    labels = []
    depth = 0
    i = 0
    while i < len(body):
        ch = body[i]
        if ch in "{(":
            depth += 1
        elif ch in "})":
            depth -= 1
        elif depth == 0:
            m = re.match(r"(case\s+(\w+)\s*:|default\s*:)", body[i:])
            if m and (i == 0 or not (body[i - 1].isalnum() or body[i - 1] == "_")):
                labels.append((i, i + m.end(), m.group(2)))
                i += m.end()
                continue
        i += 1
    groups = []
    pending = []
    for k, (a, b, lab) in enumerate(labels):
        nxt = labels[k + 1][0] if k + 1 < len(labels) else len(body)
        seg = body[b:nxt]
        pending.append(None if lab is None else resolve(lab, consts))
        if seg.strip():
            groups.append((pending, seg))
            pending = []
    if pending:
        raise Shape("switch ends with empty case labels")
    return groups, end


def guard_for(src, fname, fa, fb, var, site_pos, consts):
    """Admitted values of `var` at `site_pos` inside function (fa, fb)."""
    body = src[fa:fb]
    v = re.escape(var)
    # shape A: if ((var >= L) && (var <= H)) { ... site ... }
    for m in re.finditer(r"\(\s*%s\s*>=\s*(\w+)\s*\)\s*&&\s*\(\s*%s\s*<=\s*(\w+)\s*\)" % (v, v), body):
        lo, hi = resolve(m.group(1), consts), resolve(m.group(2), consts)
        br = body.find("{", m.end())
        if br < 0:
            continue
        end = matching(body, br)
        if fa + br < site_pos < fa + end:
            _no_other_writes(body[br:site_pos - fa], var, [])
            return list(range(lo, hi + 1)), "range"
    # shape B: if (... (var < L) || (var > H) ...) { return / var = c; }  then site
    for m in re.finditer(r"\(\s*%s\s*<\s*(\w+)\s*\)\s*\|\|\s*\(\s*%s\s*>\s*(\w+)\s*\)" % (v, v), body):
        if fa + m.end() > site_pos:
            continue
        lo, hi = resolve(m.group(1), consts), resolve(m.group(2), consts)
        br = body.find("{", m.end())
        end = matching(body, br)
        if fa + end > site_pos:
            continue
        blk = body[br:end + 1]
        clamp = re.findall(r"\b%s\s*=\s*(-?\d+)\s*;" % v, blk)
        if not (re.search(r"\breturn\b", blk) or clamp):
            raise Shape("%s: out-of-range branch for %s neither returns nor clamps" % (fname, var))
        allowed = list(range(lo, hi + 1))
        for c in clamp:
            if int(c) not in allowed:
                raise Shape("%s: %s clamped to %s outside %d..%d" % (fname, var, c, lo, hi))
        _no_other_writes(body[end + 1:site_pos - fa], var, [])
        return allowed, "reject-outside"
    # shape C: switch (var) { case N: ... goto done; ... break; }  ... return NULL; done: site
    m = re.search(r"switch\s*\(\s*%s\s*\)\s*\{" % v, body)
    if m:
        groups, end = switch_cases(body, m.end() - 1, consts)
        allowed = []
        for labs, seg in groups:
            if None in labs:
                raise Shape("%s: switch(%s) has a default label" % (fname, var))
            if "goto done;" not in seg or not seg.strip().endswith("break;"):
                raise Shape("%s: case %s of switch(%s) has an unknown shape" % (fname, labs, var))
            allowed += labs
        dl = re.search(r"^\s*done\s*:", body, flags=re.M)
        if not dl or not (end < dl.start() < site_pos - fa):
            raise Shape("%s: no 'done:' label between switch(%s) and its use" % (fname, var))
        if not re.search(r"\breturn\s+NULL\s*;", body[end:dl.start()]):
            raise Shape("%s: code after switch(%s) falls through to done:" % (fname, var))
        # other ways to reach done: `var = N; goto done;`
        direct = []
        for m2 in re.finditer(r"\b%s\s*=\s*(\d+)\s*;\s*goto\s+done\s*;" % v, body):
            direct.append(int(m2.group(1)))
        ngoto = len(re.findall(r"goto\s+done\s*;", body))
        inside = sum(seg.count("goto done;") for _, seg in groups)
        if ngoto != inside + len(direct):
            raise Shape("%s: a 'goto done' is not accounted for" % fname)
        return sorted(set(allowed)), "switch", sorted(set(direct))
    raise Shape("%s: no guard found for index variable %s" % (fname, var))


def _no_other_writes(text, var, allowed):
    for m in re.finditer(r"\b%s\s*(=(?!=)|\+=|-=|\+\+|--)" % re.escape(var), text):
        raise Shape("index variable %s is written between its guard and its use" % var)


def read_sites(src, funcs, tables, consts):
    known_fn = set(n for n, _, _ in funcs)
    sites = []
    guards = {}
    fld = "|".join(FIELDS)
    # any other way of writing the fields is an unknown shape
    for m in re.finditer(r"&\s*\w+\s*->\s*(%s)\b" % fld, src):
        raise Shape("address of a function-pointer field is taken at offset %d" % m.start())
    for m in re.finditer(r"(\w+)\s*->\s*(%s)\s*(=(?!=)|[-+*/|&^]=)" % fld, src):
        if m.group(3) != "=":
            raise Shape("compound assignment to ->%s" % m.group(2))
        end = src.find(";", m.end())
        rhs = " ".join(src[m.end():end].split())
        fname, fa, fb = enclosing(funcs, m.start())
        rhs = re.sub(r"^\(\s*\w+\s*\)\s*", "", rhs)  # cast
        mt = re.match(r"^(\w+)\s*\[\s*(\w+)\s*\]$", rhs)
        mc = re.match(r"^(\w+)\s*->\s*(\w+)$", rhs)
        if mt:
            tbl, var = mt.group(1), mt.group(2)
            if tbl not in tables:
                raise Shape("%s: subscript of unknown table %s" % (fname, tbl))
            if fname in UNGUARDED_FUNCTIONS:
                if re.search(r"\b%s\s*[<>]=?|[<>]=?\s*%s\b" % (var, var), src[fa:fb]):
                    raise Shape("%s: %s is compared now - update the translator" % (fname, var))
                guards.setdefault((fname, var), None)
            elif (fname, var) not in guards:
                guards[(fname, var)] = guard_for(src, fname, fa, fb, var, m.start(), consts)
            else:
                guard_for(src, fname, fa, fb, var, m.start(), consts)  # every use must be covered
            sites.append((fname, m.group(2), "tbl", tbl, var))
        elif rhs == "NULL":
            sites.append((fname, m.group(2), "null", "", ""))
        elif mc:
            if mc.group(2) != m.group(2):
                raise Shape("%s: ->%s copied from ->%s" % (fname, m.group(2), mc.group(2)))
            sites.append((fname, m.group(2), "copy", "", ""))
        elif re.match(r"^\w+$", rhs) and rhs in known_fn:
            sites.append((fname, m.group(2), "fn", rhs, ""))
        else:
            raise Shape("%s: unknown right-hand side for ->%s: %r" % (fname, m.group(2), rhs))
    if not sites:
        raise Shape("no assignment sites found")
    return sites, guards


def read_default_value(src, funcs, consts):
    byname = {}
    for n, a, b in funcs:
        byname.setdefault(n, (a, b))
    for f in ("_trait_set_default_value", "default_value_for"):
        if f not in byname:
            raise Shape("function %s not found" % f)
    a, b = byname["_trait_set_default_value"]
    body = src[a:b]
    m = re.search(r"\(\s*value_type\s*<\s*(\w+)\s*\)\s*\|\|\s*\(\s*value_type\s*>\s*(\w+)\s*\)", body)
    if not m:
        raise Shape("_trait_set_default_value: guard on value_type not found")
    br = body.find("{", m.end())
    if "return" not in body[br:matching(body, br)]:
        raise Shape("_trait_set_default_value: guard does not return")
    lo, hi = resolve(m.group(1), consts), resolve(m.group(2), consts)
    asg = re.search(r"trait\s*->\s*default_value_type\s*=\s*value_type\s*;", body)
    if not asg or asg.start() < m.end():
        raise Shape("_trait_set_default_value: assignment of default_value_type not after its guard")
    checked = []
    ms = re.search(r"switch\s*\(\s*value_type\s*\)\s*\{", body)
    if ms:
        groups, _ = switch_cases(body, ms.end() - 1, consts)
        for labs, seg in groups:
            mt = re.search(r"!\s*PyTuple_Check\s*\(\s*value\s*\)\s*\|\|\s*PyTuple_GET_SIZE\s*\(\s*value\s*\)\s*!=\s*(\d+)", seg)
            if not mt or "return NULL;" not in seg:
                raise Shape("_trait_set_default_value: unknown validation for cases %s" % labs)
            for l in labs:
                checked.append((l, int(mt.group(1))))
    a, b = byname["default_value_for"]
    body = src[a:b]
    ms = re.search(r"switch\s*\(\s*trait\s*->\s*default_value_type\s*\)\s*\{", body)
    if not ms:
        raise Shape("default_value_for: switch not found")
    groups, _ = switch_cases(body, ms.end() - 1, consts)
    cases, tuple_use = [], []
    for labs, seg in groups:
        if None in labs:
            raise Shape("default_value_for: has a default label now - update the translator")
        if not re.search(r"(break|return\s+[^;]*)\s*;\s*$", seg.strip()):
            raise Shape("default_value_for: cases %s fall through" % labs)
        cases += labs
        alias = set(["trait->default_value"])
        for m2 in re.finditer(r"\b(\w+)\s*=\s*trait\s*->\s*default_value\s*;", seg):
            alias.add(m2.group(1))
        idx = [int(m2.group(2)) for m2 in re.finditer(r"PyTuple_GET_ITEM\s*\(\s*([\w>-]+)\s*,\s*(\d+)\s*\)", seg)
               if m2.group(1).replace(" ", "") in alias]
        if "PyTuple_GET_ITEM" in seg and not idx:
            raise Shape("default_value_for: tuple access of unknown shape in cases %s" % labs)
        if idx:
            for l in labs:
                tuple_use.append((l, max(idx) + 1))
    return (lo, hi), checked, cases, tuple_use


def read_state_layout(src, funcs):
    """(position, field, table) for every func_index call of _trait_getstate, and
    the format string + argument list of the PyArg_ParseTuple of _trait_setstate."""
    byname = dict((n, (a, b)) for n, a, b in reversed(funcs))
    for f in ("_trait_getstate", "_trait_setstate", "func_index"):
        if f not in byname:
            raise Shape("function %s not found" % f)
    a, b = byname["_trait_getstate"]
    body = src[a:b]
    slots = []
    for m in re.finditer(r"PyTuple_SET_ITEM\s*\(", body):
        e = matching(body, m.end() - 1, "(", ")")
        arg = " ".join(body[m.end():e].split())
        if "func_index" not in arg:
            continue
        m2 = re.match(r"^result\s*,\s*(\d+)\s*,\s*PyLong_FromLong\s*\(\s*func_index\s*\(\s*\(void \*\)\s*trait\s*->\s*(\w+)\s*,"
                      r"\s*\(void \*\*\)\s*(\w+)\s*\)\s*\)$", arg)
        if not m2:
            raise Shape("_trait_getstate: unknown func_index call %r" % arg)
        slots.append((int(m2.group(1)), m2.group(2), m2.group(3)))
    if len(re.findall(r"\bfunc_index\s*\(", body)) != len(slots):
        raise Shape("_trait_getstate: a func_index call is not accounted for")
    mt = re.search(r"PyTuple_New\s*\(\s*(\d+)\s*\)", body)
    if not mt:
        raise Shape("_trait_getstate: tuple size not found")
    size = int(mt.group(1))
    a, b = byname["_trait_setstate"]
    body = src[a:b]
    ms = list(re.finditer(r"PyArg_ParseTuple\s*\(", body))
    if len(ms) != 1:
        raise Shape("_trait_setstate: %d PyArg_ParseTuple calls" % len(ms))
    e = matching(body, ms[0].end() - 1, "(", ")")
    arg = " ".join(body[ms[0].end():e].split())
    m2 = re.match(r'^args\s*,\s*"\(([a-zA-Z]+)\)"\s*,\s*(.*)$', arg)
    if not m2:
        raise Shape("_trait_setstate: unknown PyArg_ParseTuple shape")
    fmt = m2.group(1)
    args = []
    for x in m2.group(2).split(","):
        x = x.strip()
        m3 = re.match(r"^&\s*(\w+(?:\s*->\s*\w+)?)$", x)
        if not m3:
            raise Shape("_trait_setstate: unknown output argument %r" % x)
        args.append(m3.group(1).replace(" ", ""))
    if len(args) != len(fmt):
        raise Shape("_trait_setstate: %d format units, %d arguments" % (len(fmt), len(args)))
    # the body of func_index: the unbounded scan this whole translator is about
    a, b = byname["func_index"]
    fi = " ".join(src[a:b].split())
    if not re.search(r"for \(i = 0; function != function_table\[i\]; i\+\+\) \{ ; \} return i;", fi):
        raise Shape("func_index no longer has the shape `for (i = 0; function != function_table[i]; i++)`")
    return size, slots, fmt, args


def statements_around(src, start, end, fa, fb):
    """The statement just before `start` and just after `end` (positions of one
    statement, `end` at its ';') inside function body (fa, fb), normalised."""
    i = start - 1
    while i > fa and src[i] not in ";{}":
        i -= 1
    j = i - 1
    while j > fa and src[j] not in ";{}":
        j -= 1
    before = " ".join(src[j + 1:i + 1].split()) if src[i] == ";" else ""
    k = src.find(";", end + 1)
    after = " ".join(src[end + 1:k + 1].split()) if 0 <= k < fb else ""
    return before, after


def read_stolen_references(src, funcs):
    """Every `PyTuple_SET_ITEM` / `PyList_SET_ITEM` (which STEAL a reference):
    (function, stored expression, how the reference is owned).  `call`: the
    argument is a call returning a new reference; `incref`: a variable with
    `Py_INCREF(var);` as the statement just before or just after; `owned`: a
    variable last assigned from a call returning a new reference;
    `BORROWED`: none of these - the container would steal a borrowed reference."""
    borrowed_calls = ("PyTuple_GET_ITEM", "PyList_GET_ITEM", "PyDict_GetItem", "PyDict_GetItemString",
                      "PyTuple_GetItem", "PyList_GetItem", "PyWeakref_GET_OBJECT", "dict_getitem")
    rows = []
    for m in re.finditer(r"\bPy(Tuple|List)_SET_ITEM\s*\(", src):
        e = matching(src, m.end() - 1, "(", ")")
        semi = src.find(";", e)
        if not re.match(r"\s*;", src[e + 1:semi + 1]):
            raise Shape("SET_ITEM at offset %d is not a statement" % m.start())
        inner = src[m.end():e]
        # split the three arguments at top-level commas
        depth, parts, cur = 0, [], ""
        for ch in inner:
            if ch in "([":
                depth += 1
            elif ch in ")]":
                depth -= 1
            if ch == "," and depth == 0:
                parts.append(cur)
                cur = ""
            else:
                cur += ch
        parts.append(cur)
        if len(parts) != 3:
            raise Shape("SET_ITEM with %d arguments" % len(parts))
        arg = " ".join(parts[2].split())
        arg_nocast = re.sub(r"^\(\s*\w+\s*\*?\s*\)\s*", "", arg)
        fname, fa, fb = enclosing(funcs, m.start())
        mc = re.match(r"^(\w+)\s*\(", arg_nocast)
        if mc:
            kind = "BORROWED" if mc.group(1) in borrowed_calls else "call"
        elif re.match(r"^\w+$", arg_nocast):
            var = arg_nocast
            before, after = statements_around(src, m.start(), semi, fa, fb)
            inc = "Py_INCREF(%s);" % var
            if before.replace(" ", "") == inc or after.replace(" ", "") == inc:
                kind = "incref"
            else:
                # last assignment to the variable before the site, in this function
                asg = list(re.finditer(r"\b%s\s*=(?!=)\s*([^;]+);" % re.escape(var), src[fa:m.start()]))
                if not asg:
                    raise Shape("%s: no assignment to %s before SET_ITEM" % (fname, var))
                rhs = " ".join(asg[-1].group(1).split())
                rhs = re.sub(r"^\(\s*\w+\s*\*?\s*\)\s*", "", rhs)
                mr = re.match(r"^([\w>.-]+)\s*\(", rhs)
                if mr and mr.group(1).split("->")[-1] not in borrowed_calls:
                    kind = "owned"
                else:
                    kind = "BORROWED"
        else:
            raise Shape("%s: unknown stored expression %r" % (fname, arg))
        rows.append((fname, arg[:60], kind))
    if not rows:
        raise Shape("no SET_ITEM found")
    return rows


def read_deallocs(src, funcs):
    """(function, function called by the first statement) of every tp_dealloc of the file; the types of
    this file all have Py_TPFLAGS_HAVE_GC (checked)."""
    slots = re.findall(r"\(\s*destructor\s*\)\s*(\w+)\s*,", src)
    if len(slots) < 2:
        raise Shape("tp_dealloc slots not found")
    ntypes = len(re.findall(r"\bPyTypeObject\s+\w+\s*=\s*\{", src))
    if len(re.findall(r"Py_TPFLAGS_HAVE_GC", src)) < len(set(slots)) or ntypes < len(set(slots)):
        raise Shape("a type with a tp_dealloc has no Py_TPFLAGS_HAVE_GC - update the translator")
    byname = dict((n, (a, b)) for n, a, b in reversed(funcs))
    rows = []
    for f in sorted(set(slots)):
        if f not in byname:
            raise Shape("tp_dealloc %s not found" % f)
        a, b = byname[f]
        body = src[a + 1:b]
        body = re.sub(r"^[ \t]*#.*$", "", body, flags=re.M)   # preprocessor lines
        first = " ".join(body.split(";")[0].split())
        mc = re.match(r"^(\w+)\s*\(", first)
        rows.append((f, mc.group(1) if mc else first[:80]))
    return rows


def read_call_notifiers(src, funcs):
    """Which list the dispatch loop of call_notifiers reads, and where that list comes from."""
    byname = dict((n, (a, b)) for n, a, b in reversed(funcs))
    if "call_notifiers" not in byname:
        raise Shape("call_notifiers not found")
    a, b = byname["call_notifiers"]
    body = src[a:b]
    sources = []
    for m in re.finditer(r"\ball_notifiers\s*=(?!=)\s*([^;]+);", body):
        rhs = re.sub(r"^\(\s*\w+\s*\*?\s*\)\s*", "", " ".join(m.group(1).split()))
        mc = re.match(r"^(\w+)\s*\(", rhs)
        sources.append(mc.group(1) if mc else rhs[:60])
    reads = []
    for m in re.finditer(r"PyObject_Call\w*\s*\(", body):
        e = matching(body, m.end() - 1, "(", ")")
        arg = " ".join(body[m.end():e].split())
        mg = re.match(r"^PyList_GET_ITEM\s*\(\s*(\w+)\s*,", arg)
        if mg:
            reads.append(mg.group(1))
        elif not arg.startswith("PyList_GET_ITEM"):
            reads.append("<" + arg.split(",")[0][:40] + ">")
        else:
            raise Shape("call_notifiers: unknown callable expression %r" % arg[:60])
    if not sources or not reads:
        raise Shape("call_notifiers: loop shape not recognised")
    return sources, reads


def split_args(inner):
    depth, parts, cur = 0, [], ""
    for ch in inner:
        if ch in "([":
            depth += 1
        elif ch in ")]":
            depth -= 1
        if ch == "," and depth == 0:
            parts.append(cur)
            cur = ""
        else:
            cur += ch
    parts.append(cur)
    return [" ".join(p.split()) for p in parts]


def block_chain(src, fa, pos):
    """Positions of the `{` of every block of the function body starting at `fa` that encloses `pos`."""
    chain = []
    i = fa
    while i < pos:
        ch = src[i]
        if ch == "{":
            chain.append(i)
        elif ch == "}":
            chain.pop()
        i += 1
    return chain


def else_arm_of(src, first_open, other_open):
    """Is the block opened at `other_open` an `else` / `else if` arm of the `if` whose arm opens at `first_open`?"""
    cur = first_open
    while True:
        close = matching(src, cur)
        nxt = src.find("{", close)
        if nxt < 0:
            return False
        between = " ".join(src[close + 1:nxt].split())
        if not re.match(r"^else\b", between):
            return False
        if between != "else" and not re.match(r"^else if \(.*\)$", between):
            raise Shape("else arm without braces near offset %d" % close)
        if nxt == other_open:
            return True
        cur = nxt


def reachable_after(src, fa, s, d):
    """Can the statement at `d` run after the statement at `s` (d textually later, same function; loops and gotos
    ignored)?  Only excluded: `d` sits in an else arm of the `if` whose earlier arm holds `s`."""
    cs, cd = block_chain(src, fa, s), block_chain(src, fa, d)
    k = 0
    while k < len(cs) and k < len(cd) and cs[k] == cd[k]:
        k += 1
    if k < len(cs) and k < len(cd):
        return not else_arm_of(src, cs[k], cd[k])
    return True


STEALING = [("PyException_SetCause", [1]), ("PyTuple_SET_ITEM", [2]), ("PyList_SET_ITEM", [2]),
            ("PyErr_Restore", [0, 1, 2])]


def read_steals(src, funcs):
    """Every variable handed to an argument position that STEALS the reference: (function, API, variable, number of
    `Py_DECREF` / `Py_XDECREF` / `Py_CLEAR` of that variable that can run afterwards in the same function before the
    variable is assigned again)."""
    rows = []
    for m in re.finditer(r"\b(%s)\s*\(" % "|".join(a for a, _ in STEALING), src):
        e = matching(src, m.end() - 1, "(", ")")
        fname, fa, fb = enclosing(funcs, m.start())
        if fname is None:
            raise Shape("stealing call outside a function at offset %d" % m.start())
        parts = split_args(src[m.end():e])
        for i in dict(STEALING)[m.group(1)]:
            if i >= len(parts):
                raise Shape("%s: %s with %d arguments" % (fname, m.group(1), len(parts)))
            arg = re.sub(r"^\(\s*\w+\s*\*?\s*\)\s*", "", parts[i])
            if not re.match(r"^\w+$", arg):
                continue                      # a call expression: nothing to release afterwards
            stop = fb
            ra = re.search(r"\b%s\s*=(?!=)" % re.escape(arg), src[e:fb])
            if ra:
                stop = e + ra.start()
            n = 0
            for d in re.finditer(r"\bPy_(?:X?DECREF|CLEAR)\s*\(\s*%s\s*\)" % re.escape(arg), src[e:stop]):
                if reachable_after(src, fa, m.start(), e + d.start()):
                    n += 1
            rows.append((fname, m.group(1), arg, n))
    if not any(r[1] == "PyException_SetCause" for r in rows):
        raise Shape("no PyException_SetCause call found")
    return rows


def read_field_releases(src, funcs):
    """(function, `var->field`, stored again afterwards) for every `Py_DECREF` / `Py_XDECREF` applied directly to a
    struct field: the release runs arbitrary code (finalizers) - and, when the new value is the old one, frees it -
    while the field still points to the released object, unless nothing is stored there afterwards (`Py_CLEAR` and
    the store-then-release-a-local pattern are the safe forms and are not listed)."""
    rows = []
    for m in re.finditer(r"\bPy_X?DECREF\s*\(\s*(\w+)\s*->\s*(\w+)\s*\)\s*;", src):
        fname, fa, fb = enclosing(funcs, m.start())
        if fname is None:
            raise Shape("field release outside a function at offset %d" % m.start())
        later = re.search(r"\b%s\s*->\s*%s\s*=(?!=)" % (m.group(1), m.group(2)), src[m.end():fb])
        rows.append((fname, "%s->%s" % (m.group(1), m.group(2)), bool(later)))
    return rows


def read_trait_clone(src, funcs):
    """`trait_object`'s reference-holding fields, and for `trait_clone` the fields it copies from the source with
    whether the copy is followed by an INCREF of that field."""
    ms = re.search(r"typedef\s+struct\s+_trait_object\s*\{", src)
    if not ms:
        raise Shape("struct _trait_object not found")
    body = src[ms.end():matching(src, ms.end() - 1)]
    owned = re.findall(r"\bPy(?:List|Dict)?Object\s*\*\s*(\w+)\s*;", body)
    if len(owned) < 6:
        raise Shape("struct _trait_object: reference fields not recognised")
    byname = dict((n, (a, b)) for n, a, b in reversed(funcs))
    if "trait_clone" not in byname:
        raise Shape("trait_clone not found")
    a, b = byname["trait_clone"]
    fbody = src[a:b]
    copies = []
    for m in re.finditer(r"\btrait\s*->\s*(\w+)\s*=\s*source\s*->\s*(\w+)\s*;", fbody):
        if m.group(1) != m.group(2):
            raise Shape("trait_clone copies %s from %s" % (m.group(1), m.group(2)))
        f = m.group(1)
        inc = re.search(r"\bPy_X?INCREF\s*\(\s*(?:trait|source)\s*->\s*%s\s*\)" % f, fbody[m.end():])
        copies.append((f, bool(inc)))
    if len(re.findall(r"\btrait\s*->\s*\w+\s*=(?!=)", fbody)) != len(copies):
        raise Shape("trait_clone: a store that is not `trait->f = source->f`")
    return owned, copies


def read_field_stores(src, funcs, fields):
    """Every store into one of `fields` (the reference-holding fields `trait_clone` copies) through a variable
    named `trait`: (function, field, discipline).  `saved`: a local was assigned from `trait->F` before the store and
    that local is released (`Py_DECREF` / `Py_XDECREF`) after it; `set_value`: the address of the field is handed to
    `set_value` (INCREF new, store, XDECREF old); `UNRELEASED`: neither - the old reference is overwritten.  A
    `&trait->F` argument of `PyArg_ParseTuple` counts as a store at that place."""
    rows = []
    alt = "|".join(fields)
    sites = []
    for m in re.finditer(r"\btrait\s*->\s*(%s)\s*=(?!=)" % alt, src):
        sites.append((m.start(), m.group(1), None))
    for m in re.finditer(r"&\s*trait\s*->\s*(%s)\b" % alt, src):
        # the call this argument belongs to
        i, depth = m.start(), 0
        while i > 0:
            if src[i] == ")":
                depth += 1
            elif src[i] == "(":
                if depth == 0:
                    break
                depth -= 1
            i -= 1
        callee = re.search(r"(\w+)\s*$", src[:i])
        sites.append((m.start(), m.group(1), callee.group(1) if callee else "?"))
    for pos, field, callee in sorted(sites):
        fname, fa, fb = enclosing(funcs, pos)
        if callee == "set_value":
            rows.append((fname, field, "set_value"))
            continue
        if callee not in (None, "PyArg_ParseTuple"):
            raise Shape("%s: address of trait->%s handed to %s" % (fname, field, callee))
        how = "UNRELEASED"
        for ml in re.finditer(r"\b(\w+)\s*=\s*trait\s*->\s*%s\s*;" % field, src[fa:pos]):
            local = ml.group(1)
            if re.search(r"\bPy_X?DECREF\s*\(\s*%s\s*\)" % re.escape(local), src[pos:fb]):
                how = "saved"
        rows.append((fname, field, how))
    if not any(r[0] == "trait_clone" for r in rows):
        raise Shape("no field store found in trait_clone")
    return rows


def read_complex_cases(src, funcs, consts):
    # since /repo baa32de `validate_trait_complex` pins `trait->py_validate` and calls
    # `validate_trait_complex_body`, which holds the switch; the wrapper must be exactly that call-through
    target = "validate_trait_complex"
    by_name = {n: (a, b) for n, a, b in funcs}
    if target in by_name and "validate_trait_complex_body" in by_name:
        wa, wb = by_name[target]
        wrapper = src[wa:wb]
        if "switch" in wrapper or not re.search(r"result\s*=\s*validate_trait_complex_body\s*\(\s*trait\s*,\s*obj\s*,\s*name\s*,\s*value\s*\)", wrapper):
            raise Shape("validate_trait_complex: neither the switch nor the call-through to validate_trait_complex_body")
        target = "validate_trait_complex_body"
    for n, a, b in funcs:
        if n == target:
            body = src[a:b]
            ms = re.search(r"switch\s*\(\s*PyLong_AsLong\s*\(\s*PyTuple_GET_ITEM\s*\(\s*type_info\s*,\s*0\s*\)\s*\)\s*\)\s*\{", body)
            if not ms:
                raise Shape("validate_trait_complex: switch not found")
            groups, _ = switch_cases(body, ms.end() - 1, consts)
            out = []
            for labs, _ in groups:
                out += [l for l in labs if l is not None]
            return out
    raise Shape("validate_trait_complex not found")


# ------------------------------------------------------------------ emission

def q(s):
    return '"%s"' % s


def lean_strs(xs):
    return "[" + ", ".join(q(x) for x in xs) + "]"


def lean_nats(xs):
    return "[" + ", ".join(str(x) for x in xs) + "]"


def emit(traits_dir):
    raw = open(os.path.join(traits_dir, "ctraits.c")).read()
    src = strip_comments(raw)
    consts, order = read_defines(src)
    tables = {}
    for cname, _ in TABLES:
        tables[cname] = read_table(src, cname)
    funcs = functions(src)
    sites, guards = read_sites(src, funcs, tables, consts)
    dv_guard, dv_checked, dv_cases, dv_tuple = read_default_value(src, funcs, consts)
    complex_cases = read_complex_cases(src, funcs, consts)
    st_size, st_slots, st_fmt, st_args = read_state_layout(src, funcs)
    stolen = read_stolen_references(src, funcs)
    deallocs = read_deallocs(src, funcs)
    cn_sources, cn_reads = read_call_notifiers(src, funcs)
    steals = read_steals(src, funcs)
    releases = read_field_releases(src, funcs)
    owned_fields, clone_copies = read_trait_clone(src, funcs)
    field_stores = read_field_stores(src, funcs, [f for f, inc in clone_copies if inc])

    L = ["/- GENERATED by harness/translate/ctables.py from traits/ctraits.c of the working tree - do not edit. -/",
         "namespace TraitsVerif.Generated.CTables", ""]
    L.append("/-! Function-pointer tables, in source order; `NULL` entries and terminators kept in position. -/")
    for cname, lname in TABLES:
        L.append("def %s : List String := %s" % (lname, lean_strs(tables[cname])))
    L.append("")
    L.append("/-- C name of a table ↦ its contents. -/")
    L.append("def tables : List (String × List String) := [")
    L.append(",\n".join("  (%s, %s)" % (q(c), l) for c, l in TABLES))
    L.append("]")
    L.append("")
    L.append("/-- Every assignment `x->FIELD = RHS;` to a function-pointer field of `trait_object`:")
    L.append("(enclosing function, field, rhs kind, a, b).  rhs kind `tbl`: `a[b]`; `fn`: the function `a`;")
    L.append("`null`: NULL; `copy`: the same field of another trait. -/")
    L.append("def assignSites : List (String × String × String × String × String) := [")
    L.append(",\n".join("  (%s, %s, %s, %s, %s)" % tuple(q(x) for x in s) for s in sites))
    L.append("]")
    L.append("")
    L.append("/-- Guard of every index variable used in a table subscript on such a right-hand side:")
    L.append("(function, variable, admitted values); `none` = the source has no check (`_trait_setstate`). -/")
    L.append("def indexGuards : List (String × String × Option (List Nat)) := [")
    rows = []
    extra = []
    for (f, v), g in guards.items():
        if g is None:
            rows.append("  (%s, %s, none)" % (q(f), q(v)))
        else:
            allowed = list(g[0])
            if g[1] == "switch":
                allowed = sorted(set(allowed) | set(g[2]))
                extra.append((f, v, g[0], g[2]))
            if any(a < 0 for a in allowed):
                raise Shape("%s: negative index admitted for %s" % (f, v))
            rows.append("  (%s, %s, some %s)" % (q(f), q(v), lean_nats(allowed)))
    L.append(",\n".join(rows))
    L.append("]")
    L.append("")
    for f, v, sw, direct in extra:
        if f != "_trait_set_validate":
            raise Shape("switch guard in unexpected function %s" % f)
        L.append("/-- `_trait_set_validate`: the `case` labels that `goto done`, and the kinds assigned directly. -/")
        L.append("def setValidateSwitchCases : List Nat := %s" % lean_nats(sw))
        L.append("def setValidateDirectKinds : List Nat := %s" % lean_nats(direct))
    if not extra:
        raise Shape("_trait_set_validate: switch guard not found")
    L.append("")
    L.append("/-- `_trait_set_default_value`: admitted range of `value_type`; (case, required tuple size) it checks. -/")
    L.append("def defaultValueTypeGuard : Nat × Nat := (%d, %d)" % dv_guard)
    L.append("def defaultValueCheckedTuples : List (Nat × Nat) := [%s]" % ", ".join("(%d, %d)" % t for t in dv_checked))
    L.append("/-- `default_value_for`: its `case` labels; (case, tuple size its code subscripts). -/")
    L.append("def defaultValueForCases : List Nat := %s" % lean_nats(dv_cases))
    L.append("def defaultValueForTupleUse : List (Nat × Nat) := [%s]" % ", ".join("(%d, %d)" % t for t in dv_tuple))
    L.append("")
    L.append("/-- `_trait_getstate`: size of the state tuple; (position, field, table) of every `func_index` call. -/")
    L.append("def getstateTupleSize : Nat := %d" % st_size)
    L.append("def getstateIndexed : List (Nat × String × String) := [%s]" % ", ".join(
        "(%d, %s, %s)" % (p, q(f), q(t)) for p, f, t in st_slots))
    L.append("/-- `_trait_setstate`: the `PyArg_ParseTuple` format units and, position by position, their targets. -/")
    L.append("def setstateFormat : List Char := [%s]" % ", ".join("'%s'" % c for c in st_fmt))
    L.append("def setstateTargets : List String := %s" % lean_strs(st_args))
    L.append("")
    L.append("/-- `case` labels of `validate_trait_complex`. -/")
    L.append("def validateComplexCases : List Nat := %s" % lean_nats(complex_cases))
    L.append("")
    L.append("/-- Every `PyTuple_SET_ITEM` / `PyList_SET_ITEM` (they steal a reference): (function, stored")
    L.append("expression, ownership): `call` new reference from a call, `incref` variable with an adjacent")
    L.append("`Py_INCREF`, `owned` variable last assigned from a call, `BORROWED` none of these. -/")
    L.append("def stolenReferences : List (String × String × String) := [")
    L.append(",\n".join("  (%s, %s, %s)" % (q(a), q(b.replace('"', "'")), q(c)) for a, b, c in stolen))
    L.append("]")
    L.append("/-- (function, function called by its first statement) of every `tp_dealloc` (all types of the file are GC types). -/")
    L.append("def deallocFirstStatement : List (String × String) := [")
    L.append(",\n".join("  (%s, %s)" % (q(a), q(b.replace('"', "'"))) for a, b in deallocs))
    L.append("]")
    L.append("")
    L.append("/-- `call_notifiers`: the function every assignment to `all_notifiers` takes its value from, and the")
    L.append("list every `PyObject_Call` of the function reads its callable from. -/")
    L.append("def callNotifiersListSources : List String := %s" % lean_strs(cn_sources))
    L.append("def callNotifiersLoopReads : List String := %s" % lean_strs(cn_reads))
    L.append("")
    L.append("/-- Every variable passed in an argument position that STEALS the reference (`PyException_SetCause` 2nd,")
    L.append("`PyTuple_SET_ITEM` / `PyList_SET_ITEM` 3rd, `PyErr_Restore` all three): (function, API, variable, number of")
    L.append("`Py_DECREF` / `Py_XDECREF` / `Py_CLEAR` of that variable that can run afterwards in the same function before")
    L.append("the variable is assigned again; an `else` arm of the `if` holding the call does not count). -/")
    L.append("def stolenThenReleased : List (String × String × String × Nat) := [")
    L.append(",\n".join("  (%s, %s, %s, %d)" % (q(a), q(b), q(c), n) for a, b, c, n in steals))
    L.append("]")
    L.append("/-- Every `Py_DECREF` / `Py_XDECREF` applied directly to a struct field: (function, field expression, is the")
    L.append("field stored again later in the function).  `true`: the old object is released - finalizers run, and it is")
    L.append("freed if the new value is the old one - while the field still points to it. -/")
    L.append("def fieldReleases : List (String × String × Bool) := [")
    L.append(",\n".join("  (%s, %s, %s)" % (q(a), q(b), "true" if c else "false") for a, b, c in releases))
    L.append("]")
    L.append("/-- The reference-holding fields of `trait_object`; the fields `trait_clone` copies (`trait->f = source->f`)")
    L.append("with whether an INCREF of that field follows the copy (the function has no other store). -/")
    L.append("def traitObjectFields : List String := %s" % lean_strs(owned_fields))
    L.append("def traitCloneCopies : List (String × Bool) := [%s]" % ", ".join(
        "(%s, %s)" % (q(f), "true" if i else "false") for f, i in clone_copies))
    L.append("/-- Every store into one of those copied reference fields through `trait->F = …` (or `&trait->F` given to")
    L.append("`PyArg_ParseTuple` / `set_value`): (function, field, discipline).  `saved`: the old content was put into a")
    L.append("local before the store and that local is released after it; `set_value`: done by `set_value` (INCREF new,")
    L.append("store, XDECREF old); `UNRELEASED`: the old reference is overwritten and never released. -/")
    L.append("def traitFieldStores : List (String × String × String) := [")
    L.append(",\n".join("  (%s, %s, %s)" % (q(a), q(b), q(c)) for a, b, c in field_stores))
    L.append("]")
    L.append("")
    L.append("/-! `#define` constants. -/")
    L.append("def constants : List (String × Nat) := [")
    L.append(",\n".join("  (%s, %d)" % (q(n), consts[n]) for n in order))
    L.append("]")
    for n in order:
        L.append("def %s : Nat := %d" % (n, consts[n]))
    L.append("")
    L.append("end TraitsVerif.Generated.CTables")
    return "\n".join(L) + "\n"


if __name__ == "__main__":
    import sys
    print(emit(sys.argv[1] if len(sys.argv) > 1 else "/repo/traits"), end="")
