"""Translator: the SOURCE TEXT of the IObserver interface of the five observers -> terms of NodeL (Model/NodeL.lean).

Translated, from traits/observation/ of the working tree (emits Generated/NodeProg.lean):
  * _named_trait_observer.py NamedTraitObserver, _list_item_observer.py ListItemObserver, _dict_item_observer.py
    DictItemObserver, _set_item_observer.py SetItemObserver, _filtered_trait_observer.py FilteredTraitObserver:
    __init__ (rows `self.<f> = <parameter>`), iter_observables, iter_objects, get_notifier, get_maintainer,
    iter_extra_graphs (St);
  * _has_traits_helpers.py object_has_named_trait, iter_objects; _anytrait_filter.py anytrait_filter;
    _metadata_filter.py MetadataFilter.__call__, _filtered_trait_observer.py _ListedTraitFilter.__call__ (St,
    collected in `table` under their qualified names);
  * _trait_added_observer.py TraitAddedObserver (__init__, notify, iter_observables, iter_objects, get_maintainer,
    iter_extra_graphs) and _RestrictedNamedTraitObserver (the same + get_notifier).

The translation is purely syntactic (one NodeL constructor per Python construct).  Parameters (after `self`) and
locals are numbered slots in order of first binding, so renaming one changes nothing; keyword arguments of the four
constructor calls are matched by keyword, so their order does not matter; a name that is not a slot is resolved
through the imports / top-level definitions of its module to `<module>.<name>` and must be bound exactly once in
the module; the arguments of a raised exception (constants, names, attributes, `type(x)`, `"..".format(..)`) are
dropped; docstrings and `pass` are dropped.  Fails closed (raises Unknown) on anything outside the subset.
"""
import ast
import os

TARGET = "NodeProg.lean"

OBS_DIR = "traits/observation/"
METHODS = [("iter_observables", "IterObservables", 1), ("iter_objects", "IterObjects", 1),
           ("get_notifier", "GetNotifier", 3), ("get_maintainer", "GetMaintainer", 4),
           ("iter_extra_graphs", "IterExtraGraphs", 1)]
CLASSES = [     # file, class, prefix of the emitted definitions
    ("_named_trait_observer.py", "NamedTraitObserver", "named"),
    ("_list_item_observer.py", "ListItemObserver", "listItems"),
    ("_dict_item_observer.py", "DictItemObserver", "dictItems"),
    ("_set_item_observer.py", "SetItemObserver", "setItems"),
    ("_filtered_trait_observer.py", "FilteredTraitObserver", "filtered"),
]
HELPERS = [     # file, class or None, function, emitted definition, number of parameters (after self)
    ("_has_traits_helpers.py", None, "object_has_named_trait", "objectHasNamedTrait", 2),
    ("_has_traits_helpers.py", None, "iter_objects", "iterObjects", 2),
    ("_anytrait_filter.py", None, "anytrait_filter", "anytraitFilter", 2),
    ("_metadata_filter.py", "MetadataFilter", "__call__", "metadataFilterCall", 2),
    ("_filtered_trait_observer.py", "_ListedTraitFilter", "__call__", "listedFilterCall", 2),
]
ADDED_FILE = "_trait_added_observer.py"
CLASSES2 = [    # class, prefix, [(method, suffix, number of parameters, is a property)]
    ("TraitAddedObserver", "added",
     [("notify", "Notify", 0, True), ("iter_observables", "IterObservables", 1, False),
      ("iter_objects", "IterObjects", 1, False), ("get_maintainer", "GetMaintainer", 4, False),
      ("iter_extra_graphs", "IterExtraGraphs", 1, False)]),
    ("_RestrictedNamedTraitObserver", "restricted",
     [("notify", "Notify", 0, True), ("iter_observables", "IterObservables", 1, False),
      ("iter_objects", "IterObjects", 1, False), ("get_notifier", "GetNotifier", 3, False),
      ("get_maintainer", "GetMaintainer", 4, False), ("iter_extra_graphs", "IterExtraGraphs", 1, False)]),
]
CALLABLE = {"_has_traits_helpers.object_has_named_trait", "_has_traits_helpers.iter_objects"}
BUILTINS = ["isinstance", "all", "getattr", "type", "ValueError"]
EXCS = {"ValueError": ".valueError"}
SF = {"name": ".name", "notify": ".notify", "optional": ".optional", "filter": ".filter",
      "metadata_name": ".metadataName", "match_func": ".matchFunc", "_wrapped_observer": ".wrapped"}
CLS = {"ctraits.CHasTraits": ".cHasTraits", "trait_list_object.TraitList": ".traitList",
       "trait_dict_object.TraitDict": ".traitDict", "trait_set_object.TraitSet": ".traitSet"}
CONSTS = {"trait_base.Undefined": ".undefined", "trait_base.Uninitialized": ".uninitialized"}
USER = "_trait_event_notifier.TraitEventNotifier"
MAINT = "_observer_change_notifier.ObserverChangeNotifier"
GRAPH = "_observer_graph.ObserverGraph"
ADDED = "_trait_added_observer.TraitAddedObserver"
LISTED = "_filtered_trait_observer._ListedTraitFilter"
ARG_NODES = (ast.Constant, ast.Name, ast.Attribute, ast.Load, ast.Call)
DEFS = (ast.FunctionDef, ast.AsyncFunctionDef, ast.ClassDef)


class Unknown(Exception):
    pass


def is_name(n, s):
    return isinstance(n, ast.Name) and n.id == s


def is_docstring(s):
    return isinstance(s, ast.Expr) and isinstance(s.value, ast.Constant) and isinstance(s.value.value, str)


def short(n):
    return ast.dump(n)[:90]


def lean_str(s):
    if not all(c.isalnum() or c in "._" for c in s):
        raise Unknown("name %r" % s)
    return '"%s"' % s


def bound(tree):
    """every name bound anywhere in the tree (with repetitions)"""
    out = []
    for n in ast.walk(tree):
        out += ([n.name] if isinstance(n, DEFS) or (isinstance(n, ast.ExceptHandler) and n.name) else
                [(n.asname or n.name).split(".")[0]] if isinstance(n, ast.alias) else
                [n.id] if isinstance(n, ast.Name) and not isinstance(n.ctx, ast.Load) else
                [n.arg] if isinstance(n, ast.arg) else
                n.names if isinstance(n, (ast.Global, ast.Nonlocal)) else [])
    return out


class Module:
    """A parsed module: what its global names denote."""

    def __init__(self, path):
        self.path = path
        self.mod = os.path.basename(path)[:-3]
        self.tree = ast.parse(open(path).read())
        # module scope: a def / class binds its name only (class-level and local bindings are invisible to, or are
        # slots of, the translated bodies: `Fn` refuses to resolve a name bound anywhere inside its function)
        self.names = [x for st in self.tree.body for x in ([st.name] if isinstance(st, DEFS) else bound(st))]
        bad = [b for b in BUILTINS + ["*"] if b in self.names]
        if bad:
            raise Unknown("%s: binds %s" % (path, bad))
        self.globals = {}           # name -> qualified name
        self.lists = {}             # name -> the ast.List a module-level constant is bound to
        for s in self.tree.body:
            if isinstance(s, ast.ImportFrom) and s.level == 0 and s.module and s.module.startswith("traits."):
                for a in s.names:
                    if a.asname is None:
                        self.globals[a.name] = s.module.split(".")[-1] + "." + a.name
            elif isinstance(s, (ast.FunctionDef, ast.ClassDef)) and not \
                    [d for d in s.decorator_list if not self.is_register(d)]:
                self.globals[s.name] = self.mod + "." + s.name
            elif isinstance(s, ast.Assign) and len(s.targets) == 1 and isinstance(s.targets[0], ast.Name) \
                    and isinstance(s.value, ast.List):
                self.lists[s.targets[0].id] = s.value

    @staticmethod
    def is_register(d):
        """`@IObserver.register` (ABC registration returns the class unchanged)"""
        return isinstance(d, ast.Attribute) and d.attr == "register" and is_name(d.value, "IObserver")

    def resolve(self, name):
        """the qualified name of a global bound exactly once in the module"""
        if name in self.globals and self.names.count(name) == 1:
            return self.globals[name]

    def methods(self, cname):
        """the names bound exactly once, by a def, in the body of the top-level class"""
        cls = [s for s in self.tree.body if isinstance(s, ast.ClassDef) and s.name == cname]
        if len(cls) != 1:
            return []
        inner = [x for s in cls[0].body for x in ([s.name] if isinstance(s, DEFS) else bound(s))]
        return [s.name for s in cls[0].body if isinstance(s, ast.FunctionDef) and inner.count(s.name) == 1]

    def function(self, cname, fname, prop=False):
        """the undecorated function / method (decorated with exactly `@property` if prop), bound exactly once in
        its scope"""
        scope = self.tree.body
        if cname is not None:
            cls = [s for s in scope if isinstance(s, ast.ClassDef) and s.name == cname]
            if len(cls) != 1 or self.resolve(cname) is None or cls[0].keywords \
                    or [b for b in cls[0].bases if not is_name(b, "object")]:
                raise Unknown("%s: class %s not found exactly once, without bases" % (self.path, cname))
            scope = cls[0].body
            inner = [x for s in scope for x in ([s.name] if isinstance(s, DEFS) else bound(s))]
            if inner.count(fname) != 1:
                raise Unknown("%s: %s.%s is not bound exactly once" % (self.path, cname, fname))
        elif self.resolve(fname) is None:
            raise Unknown("%s: %s is not bound exactly once" % (self.path, fname))
        d = [s for s in scope if isinstance(s, ast.FunctionDef) and s.name == fname]
        decs = d[0].decorator_list if len(d) == 1 else None
        if decs is None or (decs and not (prop and len(decs) == 1 and is_name(decs[0], "property")
                                          and "property" not in self.names)) or (prop and not decs):
            raise Unknown("%s: %s not found exactly once, undecorated" % (self.path, fname))
        return d[0]


def plain_params(fn, method, kwonly=False):
    """the parameter names (after `self` for a method) of a function without defaults / * / **"""
    a = fn.args
    if a.vararg or a.kwarg or a.posonlyargs or a.defaults or [d for d in a.kw_defaults if d is not None] \
            or (a.kwonlyargs and not kwonly):
        raise Unknown("%s: defaults / non-positional parameters" % fn.name)
    names = [x.arg for x in a.args]
    if method:
        if not names or names[0] != "self":
            raise Unknown("%s: the first parameter is not self" % fn.name)
        names = names[1:]
    names += [x.arg for x in a.kwonlyargs]
    if len(set(names)) != len(names) or "self" in names:
        raise Unknown("%s: parameters %s" % (fn.name, names))
    return names


class Fn:
    """Translation of the body of a function / method: `.term`."""

    def __init__(self, m, fn, method, nparams, cname=None):
        self.m, self.method, self.cname = m, method, cname
        names = plain_params(fn, method)
        if len(names) != nparams:
            raise Unknown("%s: parameters %s" % (fn.name, names))
        self.slots = {n: i for i, n in enumerate(names)}
        self.local = set(bound(fn)) - {fn.name}
        self.nslots = len(names)
        for n in (x for s in fn.body for x in ast.walk(s)):
            if isinstance(n, (ast.Global, ast.Nonlocal, ast.FunctionDef, ast.ClassDef, ast.NamedExpr, ast.Delete,
                              ast.Await, ast.Try, ast.With, ast.While)):
                raise Unknown("%s: %s" % (fn.name, short(n)))
        self.term = self.block(fn.body)

    def fresh(self, name):
        if name == "self" or name in self.slots:
            raise Unknown("rebinding of %s" % name)
        self.slots[name] = self.nslots
        self.nslots += 1
        return self.slots[name]

    def glob(self, n):
        """the qualified name a (non-slot) Name denotes"""
        if isinstance(n, ast.Name) and n.id not in self.slots and n.id not in self.local and n.id != "self":
            return self.m.resolve(n.id)

    def self_attr(self, n):
        if isinstance(n, ast.Attribute) and is_name(n.value, "self") and self.method \
                and "self" not in self.slots and n.attr in SF:
            return SF[n.attr]

    def keywords(self, n, wanted):
        """the keyword arguments of a call without positional arguments, exactly the wanted ones"""
        kws = {k.arg: k.value for k in n.keywords}
        if n.args or len(kws) != len(n.keywords) or set(kws) != set(wanted):
            raise Unknown("arguments of %s" % short(n))
        return [kws[w] for w in wanted]

    def qual(self, n):
        if isinstance(n, ast.Attribute) and is_name(n.value, "self") and self.method and self.cname \
                and "self" not in self.slots and n.attr in self.m.methods(self.cname):
            return lean_str("%s.%s.%s" % (self.m.mod, self.cname, n.attr))      # `self.<method of the class>`
        q = self.glob(n)
        if q is None:
            raise Unknown("not a global function: %s" % short(n))
        return lean_str(q)

    def pe(self, n):
        if isinstance(n, ast.Lambda):
            a = n.args
            if len(a.args) == 1 and not (a.vararg or a.kwarg or a.posonlyargs or a.kwonlyargs or a.defaults) \
                    and isinstance(n.body, ast.Constant) and type(n.body.value) is bool:
                return "(.constLam %s)" % str(n.body.value).lower()
            raise Unknown("lambda %s" % short(n))
        return "(.ref %s)" % self.qual(n)

    def const(self, n):
        if isinstance(n, ast.Constant) and n.value is None:
            return ".noneLit"
        return CONSTS.get(self.glob(n))

    def pos_args(self, n, k):
        if isinstance(n, ast.Call) and len(n.args) == k and not n.keywords \
                and not any(isinstance(a, ast.Starred) for a in n.args):
            return n.args

    # -- expressions -------------------------------------------------------------
    def ex(self, n):
        if isinstance(n, ast.Name):
            if n.id in self.slots:
                return "(.var %d)" % self.slots[n.id]
            c = self.const(n)
            if c:
                return "(.const %s)" % c
        if isinstance(n, ast.Constant):
            if type(n.value) is bool:
                return "(.boolLit %s)" % str(n.value).lower()
            if n.value is None:
                return "(.const .noneLit)"
            if type(n.value) is str:
                return "(.strLit %s)" % lean_str(n.value)
        if isinstance(n, ast.Attribute) and self.self_attr(n.value) and n.attr in SF:
            return "(.attr %s %s)" % (self.ex(n.value), SF[n.attr])
        if isinstance(n, ast.Subscript) and isinstance(n.slice, ast.Slice) and n.slice.upper is None \
                and n.slice.step is None and n.slice.lower is not None:
            k, neg = n.slice.lower, False
            if isinstance(k, ast.UnaryOp) and isinstance(k.op, ast.USub):
                k, neg = k.operand, True
            if isinstance(k, ast.Constant) and type(k.value) is int:
                return "(.sliceFrom %s (%d))" % (self.ex(n.value), -k.value if neg else k.value)
        f = self.self_attr(n)
        if f:
            return "(.selfF %s)" % f
        if isinstance(n, ast.UnaryOp) and isinstance(n.op, ast.Not):
            return "(.not %s)" % self.ex(n.operand)
        if isinstance(n, ast.BoolOp) and isinstance(n.op, ast.And):
            r = self.ex(n.values[-1])
            for v in reversed(n.values[:-1]):
                r = "(.and %s %s)" % (self.ex(v), r)
            return r
        if isinstance(n, ast.Compare) and len(n.ops) == 1:
            op, a, b = n.ops[0], n.left, n.comparators[0]
            if isinstance(op, ast.IsNot) and isinstance(b, ast.Constant) and b.value is None:
                return "(.isNotNone %s)" % self.ex(a)
            if isinstance(op, ast.Eq):
                return "(.eq %s %s)" % (self.ex(a), self.ex(b))
            if isinstance(op, ast.NotEq):
                return "(.ne %s %s)" % (self.ex(a), self.ex(b))
        if isinstance(n, ast.Lambda):
            a = n.args
            if len(a.args) != 2 or a.vararg or a.kwarg or a.posonlyargs or a.kwonlyargs or a.defaults:
                raise Unknown("lambda %s" % short(n))
            ps = [x.arg for x in a.args]
            for x in ast.walk(n.body):
                if isinstance(x, ast.Lambda) or (isinstance(x, ast.Name) and x.id not in ps + ["self"]):
                    raise Unknown("lambda body reads %s" % short(x))
            i, j = self.fresh(ps[0]), self.fresh(ps[1])
            body = self.ex(n.body)
            del self.slots[ps[0]], self.slots[ps[1]]
            return "(.lam2 %d %d %s)" % (i, j, body)
        if isinstance(n, ast.Call):
            return self.call(n)
        raise Unknown("expression %s" % short(n))

    def call(self, n):
        f = n.func
        if is_name(f, "isinstance") and self.pos_args(n, 2):
            c = CLS.get(self.glob(n.args[1]))
            if c:
                return "(.isInstance %s %s)" % (self.ex(n.args[0]), c)
        if is_name(f, "getattr") and self.pos_args(n, 2):
            return "(.getattr %s %s)" % (self.ex(n.args[0]), self.ex(n.args[1]))
        if is_name(f, "all") and self.pos_args(n, 1) and isinstance(n.args[0], ast.GeneratorExp):
            g = n.args[0]
            c = g.generators[0]
            e = g.elt
            if len(g.generators) == 1 and not c.ifs and not c.is_async and isinstance(c.target, ast.Name) \
                    and c.target.id not in self.slots and c.target.id != "self" \
                    and isinstance(e, ast.Compare) and len(e.ops) == 1 and isinstance(e.ops[0], ast.IsNot) \
                    and is_name(e.comparators[0], c.target.id) \
                    and not any(is_name(x, c.target.id) for x in ast.walk(e.left)):
                lst = c.iter
                if isinstance(lst, ast.Name) and lst.id not in self.local and self.m.names.count(lst.id) == 1:
                    lst = self.m.lists.get(lst.id)
                if isinstance(lst, ast.List):
                    cs = [self.const(x) for x in lst.elts]
                    if all(cs):
                        return "(.allIsNot %s [%s])" % (self.ex(e.left), ", ".join(cs))
        if isinstance(f, ast.Attribute) and f.attr == "_trait" and self.pos_args(n, 2):
            k = n.args[1]
            if isinstance(k, ast.Constant) and type(k.value) is int and k.value >= 0:
                return "(.traitOf %s %s %d)" % (self.ex(f.value), self.ex(n.args[0]), k.value)
        if isinstance(f, ast.Attribute) and f.attr == "get" and isinstance(f.value, ast.Attribute) \
                and f.value.attr == "__dict__" and self.pos_args(n, 2):
            return "(.dictGet %s %s %s)" % (self.ex(f.value.value), self.ex(n.args[0]), self.ex(n.args[1]))
        if self.self_attr(f) and self.pos_args(n, 2):
            return "(.callF %s %s %s)" % (self.ex(f), self.ex(n.args[0]), self.ex(n.args[1]))
        q = self.glob(f)
        if q in CALLABLE and self.pos_args(n, 2):
            return "(.call2 %s %s %s)" % (lean_str(q), self.ex(n.args[0]), self.ex(n.args[1]))
        if q == USER:
            hd, tg, dp, ef, pe = self.keywords(n, ["handler", "target", "dispatcher", "event_factory", "prevent_event"])
            return "(.userNotifier %s %s %s %s %s)" % (self.ex(hd), self.ex(tg), self.ex(dp), self.qual(ef), self.pe(pe))
        if q == MAINT:
            oh, ef, pe, g, hd, tg, dp = self.keywords(
                n, ["observer_handler", "event_factory", "prevent_event", "graph", "handler", "target", "dispatcher"])
            return "(.maintNotifier %s %s %s %s %s %s %s)" % (
                self.qual(oh), self.qual(ef), self.pe(pe), self.ex(g), self.ex(hd), self.ex(tg), self.ex(dp))
        if q == ADDED:
            mf, opt = self.keywords(n, ["match_func", "optional"])
            return "(.traitAdded %s %s)" % (self.ex(mf), self.ex(opt))
        if q == GRAPH:
            node, ch = self.keywords(n, ["node", "children"])
            if isinstance(ch, ast.List) and len(ch.elts) == 1 and not isinstance(ch.elts[0], ast.Starred):
                return "(.graph1 %s %s)" % (self.ex(node), self.ex(ch.elts[0]))
        if q == LISTED and self.pos_args(n, 1):
            return "(.listedFilter %s)" % self.ex(n.args[0])
        raise Unknown("call %s" % short(n))

    def it(self, n):
        """what a `yield from` iterates"""
        if isinstance(n, ast.Tuple) and not n.elts:
            return ".empty"
        if isinstance(n, ast.Call):
            f = n.func
            if isinstance(f, ast.Attribute) and f.attr == "values" and self.pos_args(n, 0) is not None:
                return "(.values %s)" % self.ex(f.value)
            q = self.glob(f)
            if q in CALLABLE and self.pos_args(n, 2):
                return "(.call2 %s %s %s)" % (lean_str(q), self.ex(n.args[0]), self.ex(n.args[1]))
            raise Unknown("yield from %s" % short(n))
        if isinstance(n, ast.Name) and n.id in self.slots:
            return "(.iter %s)" % self.ex(n)
        raise Unknown("yield from %s" % short(n))

    # -- statements --------------------------------------------------------------
    def st(self, s):
        if isinstance(s, ast.Pass) or is_docstring(s):
            return []
        if isinstance(s, ast.If):
            return ["(.ifS %s %s %s)" % (self.ex(s.test), self.block(s.body), self.block(s.orelse))]
        if isinstance(s, ast.Return) and isinstance(s.value, ast.Call) and isinstance(s.value.func, ast.Attribute) \
                and self.self_attr(s.value.func.value):
            c = s.value                 # `return self.<attr>.<meth>(a1, .., an)`
            if c.keywords or any(isinstance(a, ast.Starred) for a in c.args) or len(c.args) > 4:
                raise Unknown("tail call %s" % short(c))
            return ["(.retTail %s %s [%s])" % (self.ex(c.func.value), lean_str(c.func.attr),
                                               ", ".join(self.ex(a) for a in c.args))]
        if isinstance(s, ast.Return):
            return [".ret" if s.value is None else "(.retE %s)" % self.ex(s.value)]
        if isinstance(s, ast.Raise) and s.cause is None and s.exc is not None:
            e = s.exc
            f, args = (e.func, e.args + [k.value for k in e.keywords]) if isinstance(e, ast.Call) else (e, [])
            if isinstance(f, ast.Name) and f.id in EXCS and f.id not in self.slots \
                    and all(isinstance(x, ARG_NODES) for a in args for x in ast.walk(a)) \
                    and all(is_name(x.func, "type") or (isinstance(x.func, ast.Attribute) and x.func.attr == "format"
                                                         and isinstance(x.func.value, ast.Constant))
                            for a in args for x in ast.walk(a) if isinstance(x, ast.Call)):
                return ["(.raise %s)" % EXCS[f.id]]
        if isinstance(s, ast.Expr) and isinstance(s.value, ast.Yield) and s.value.value is not None:
            return ["(.yield %s)" % self.ex(s.value.value)]
        if isinstance(s, ast.Expr) and isinstance(s.value, ast.YieldFrom):
            return ["(.yieldFrom %s)" % self.it(s.value.value)]
        if isinstance(s, ast.Assign) and len(s.targets) == 1 and isinstance(s.targets[0], ast.Name):
            e = self.ex(s.value)
            t = s.targets[0].id
            if t == "self":
                raise Unknown("assignment to self")
            i = self.slots[t] if t in self.slots else self.fresh(t)
            return ["(.assign %d %s)" % (i, e)]
        if isinstance(s, ast.For) and not s.orelse and isinstance(s.target, ast.Tuple) and len(s.target.elts) == 2 \
                and all(isinstance(t, ast.Name) for t in s.target.elts):
            c = s.iter
            if self.pos_args(c, 0) is not None and isinstance(c.func, ast.Attribute) and c.func.attr == "items":
                c = c.func.value
                if self.pos_args(c, 0) is not None and isinstance(c.func, ast.Attribute) and c.func.attr == "traits":
                    o = self.ex(c.func.value)
                    a, b = [t.id for t in s.target.elts]
                    i, j = [self.slots[t] if t in self.slots else self.fresh(t) for t in (a, b)]
                    if i == j or "self" in (a, b):
                        raise Unknown("for targets %s %s" % (a, b))
                    return ["(.forTraits %d %d %s %s)" % (i, j, o, self.block(s.body))]
        raise Unknown("statement %s" % short(s))

    def block(self, stmts):
        out = [x for s in stmts for x in self.st(s)]
        r = out.pop() if out else ".skip"
        for x in reversed(out):
            r = "(.seq %s %s)" % (x, r)
        return r


def init_rows(fn):
    """`__init__`: only `self.<f> = <parameter>` statements -> rows"""
    ps = plain_params(fn, True, kwonly=True)
    out = []
    for s in fn.body:
        if is_docstring(s) or isinstance(s, ast.Pass):
            continue
        t = s.targets[0] if isinstance(s, ast.Assign) and len(s.targets) == 1 else None
        if not (isinstance(t, ast.Attribute) and is_name(t.value, "self") and t.attr in SF
                and isinstance(s.value, ast.Name) and s.value.id in ps):
            raise Unknown("__init__: %s" % short(s))
        out.append('(%s, "%s")' % (SF[t.attr], s.value.id))
    return "[%s]" % ", ".join(out)


def emit(traits_dir):
    lines = ["/- GENERATED by harness/translate/nodel.py from the working tree - do not edit. -/",
             "import TraitsVerif.Model.NodeL",
             "namespace TraitsVerif.Generated.NodeProg",
             "open TraitsVerif TraitsVerif.Model.NodeL", ""]
    mods = {}

    def module(fname):
        if fname not in mods:
            mods[fname] = Module(os.path.join(traits_dir, "observation", fname))
        return mods[fname]

    table = []
    for fname, cname, f, dname, nparams in HELPERS:
        m = module(fname)
        q = m.mod + "." + (cname + "." if cname else "") + f
        lines += ["/-- %s%s (%s%s) -/" % (cname + "." if cname else "", f, OBS_DIR, fname), "def %s : St :=" % dname,
                  "  " + Fn(m, m.function(cname, f), cname is not None, nparams, cname).term, ""]
        table.append("(%s, %s)" % (lean_str(q), dname))
    lines += ["/-- the translated callees under their qualified names -/", "def table : List (String × St) :=",
              "  [%s]" % ", ".join(table), ""]
    for fname, cname, prefix in CLASSES:
        m = module(fname)
        lines += ["/-- %s.__init__ (%s%s) -/" % (cname, OBS_DIR, fname), "def %sInit : InitRows :=" % prefix,
                  "  " + init_rows(m.function(cname, "__init__")), ""]
        for meth, suffix, nparams in METHODS:
            lines += ["/-- %s.%s (%s%s) -/" % (cname, meth, OBS_DIR, fname), "def %s%s : St :=" % (prefix, suffix),
                      "  " + Fn(m, m.function(cname, meth), True, nparams, cname).term, ""]
    m = module(ADDED_FILE)
    for cname, prefix, meths in CLASSES2:
        lines += ["/-- %s.__init__ (%s%s) -/" % (cname, OBS_DIR, ADDED_FILE), "def %sInit : InitRows :=" % prefix,
                  "  " + init_rows(m.function(cname, "__init__")), ""]
        for meth, suffix, nparams, prop in meths:
            lines += ["/-- %s.%s (%s%s) -/" % (cname, meth, OBS_DIR, ADDED_FILE), "def %s%s : St :=" % (prefix, suffix),
                      "  " + Fn(m, m.function(cname, meth, prop), True, nparams, cname).term, ""]
    lines.append("end TraitsVerif.Generated.NodeProg")
    return "\n".join(lines) + "\n"


if __name__ == "__main__":
    import sys
    print(emit(sys.argv[1] if len(sys.argv) > 1 else "/repo/traits"), end="")
