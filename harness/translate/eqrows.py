"""Translator: __eq__ / __hash__ of the observer, filter, graph and expression classes -> Generated/DslEqRows.lean.

Every `__eq__` must be  `return (type(self) is type(other) and self.a == other.a and ...)`
(a term `set(self.a) == set(other.a)` is the operator "seteq"); every `__hash__` must be
`return hash((type(self).__name__, self.a, ..., frozenset(self.b)))`.  They become rows
(class, [(field, operator)]) - `("__class__", "is")` is the type test - read with `ast`
from the working tree; anything of another shape raises (fails closed).
`anytrait_filter` must be a plain module-level function (compared by identity).
"""
import ast
import os

TARGET = "DslEqRows.lean"

CLASSES = [
    ("_named_trait_observer.py", "NamedTraitObserver"),
    ("_list_item_observer.py", "ListItemObserver"),
    ("_dict_item_observer.py", "DictItemObserver"),
    ("_set_item_observer.py", "SetItemObserver"),
    ("_filtered_trait_observer.py", "FilteredTraitObserver"),
    ("_metadata_filter.py", "MetadataFilter"),
    ("_observer_graph.py", "ObserverGraph"),
    ("expression.py", "SingleObserverExpression"),
    ("expression.py", "SeriesObserverExpression"),
    ("expression.py", "ParallelObserverExpression"),
]


def _attr_of(e, who):
    return e.attr if isinstance(e, ast.Attribute) and isinstance(e.value, ast.Name) and e.value.id == who else None


def _single_return(fn, where):
    body = [s for s in fn.body
            if not (isinstance(s, ast.Expr) and isinstance(s.value, ast.Constant) and isinstance(s.value.value, str))]
    if len(body) != 1 or not isinstance(body[0], ast.Return) or body[0].value is None:
        raise ValueError("%s: body is not a single return" % where)
    return body[0].value


def _type_call(e, who):
    return isinstance(e, ast.Call) and isinstance(e.func, ast.Name) and e.func.id == "type" and len(e.args) == 1 \
        and isinstance(e.args[0], ast.Name) and e.args[0].id == who and not e.keywords


def eq_rows(fn, where):
    args = [a.arg for a in fn.args.args]
    if len(args) != 2 or fn.args.vararg or fn.args.kwarg or fn.args.kwonlyargs or fn.decorator_list:
        raise ValueError("%s: signature" % where)
    me, other = args
    v = _single_return(fn, where)
    if not (isinstance(v, ast.BoolOp) and isinstance(v.op, ast.And)):
        raise ValueError("%s: not a conjunction" % where)
    rows = []
    for t in v.values:
        if not (isinstance(t, ast.Compare) and len(t.ops) == 1):
            raise ValueError("%s: conjunct is not a comparison" % where)
        a, op, b = t.left, t.ops[0], t.comparators[0]
        if isinstance(op, ast.Is) and _type_call(a, me) and _type_call(b, other):
            rows.append(("__class__", "is"))
        elif isinstance(op, ast.Eq) and _attr_of(a, me) and _attr_of(a, me) == _attr_of(b, other):
            rows.append((_attr_of(a, me), "eq"))
        elif isinstance(op, ast.Eq) and all(
                isinstance(x, ast.Call) and isinstance(x.func, ast.Name) and x.func.id == "set" and len(x.args) == 1
                and not x.keywords for x in (a, b)) \
                and _attr_of(a.args[0], me) and _attr_of(a.args[0], me) == _attr_of(b.args[0], other):
            rows.append((_attr_of(a.args[0], me), "seteq"))
        else:
            raise ValueError("%s: conjunct %s" % (where, ast.dump(t)[:120]))
    return rows


def hash_rows(fn, where):
    args = [a.arg for a in fn.args.args]
    if len(args) != 1 or fn.args.vararg or fn.args.kwarg or fn.args.kwonlyargs or fn.decorator_list:
        raise ValueError("%s: signature" % where)
    me = args[0]
    v = _single_return(fn, where)
    if not (isinstance(v, ast.Call) and isinstance(v.func, ast.Name) and v.func.id == "hash" and len(v.args) == 1
            and not v.keywords and isinstance(v.args[0], ast.Tuple)):
        raise ValueError("%s: not hash((...))" % where)
    rows = []
    for t in v.args[0].elts:
        if isinstance(t, ast.Attribute) and t.attr == "__name__" and _type_call(t.value, me):
            rows.append(("__class__", "is"))
        elif _attr_of(t, me):
            rows.append((_attr_of(t, me), "eq"))
        elif isinstance(t, ast.Call) and isinstance(t.func, ast.Name) and t.func.id == "frozenset" \
                and len(t.args) == 1 and not t.keywords and _attr_of(t.args[0], me):
            rows.append((_attr_of(t.args[0], me), "seteq"))
        else:
            raise ValueError("%s: component %s" % (where, ast.dump(t)[:120]))
    return rows


def _s(x):
    if not all(32 <= ord(c) < 127 and c not in '"\\' for c in x):
        raise ValueError("odd identifier %r" % x)
    return '"' + x + '"'


def emit(traits_dir):
    d = os.path.join(traits_dir, "observation")
    eqs, hashes = [], []
    for fname, cname in CLASSES:
        tree = ast.parse(open(os.path.join(d, fname), encoding="utf-8").read())
        cls = [n for n in tree.body if isinstance(n, ast.ClassDef) and n.name == cname]
        if len(cls) != 1:
            raise ValueError("%s: class %s" % (fname, cname))
        ms = {}
        for n in cls[0].body:
            if isinstance(n, ast.FunctionDef) and n.name in ("__eq__", "__hash__"):
                if n.name in ms:
                    raise ValueError("%s.%s defined twice" % (cname, n.name))
                ms[n.name] = n
            if isinstance(n, ast.Assign) and any(isinstance(t, ast.Name) and t.id in ("__eq__", "__hash__")
                                                 for t in n.targets):
                raise ValueError("%s: __eq__/__hash__ assigned" % cname)
        if set(ms) != {"__eq__", "__hash__"}:
            raise ValueError("%s: __eq__ / __hash__ missing" % cname)
        eqs.append((cname, eq_rows(ms["__eq__"], cname + ".__eq__")))
        hashes.append((cname, hash_rows(ms["__hash__"], cname + ".__hash__")))
    tree = ast.parse(open(os.path.join(d, "_anytrait_filter.py"), encoding="utf-8").read())
    fns = [n for n in tree.body if isinstance(n, ast.FunctionDef) and n.name == "anytrait_filter"]
    rebound = [n for n in tree.body if isinstance(n, (ast.Assign, ast.ClassDef))
               and "anytrait_filter" in ast.dump(n)]
    if len(fns) != 1 or fns[0].decorator_list or rebound:
        raise ValueError("anytrait_filter is not a plain module-level function")

    def rows(rs):
        return ",\n".join("  (%s, [%s])" % (_s(c), ", ".join("(%s, %s)" % (_s(f), _s(o)) for f, o in r))
                           for c, r in rs)
    return ("/- GENERATED by harness/translate/eqrows.py from the __eq__ / __hash__ methods of"
            " traits/observation/{_*_observer,_metadata_filter,_observer_graph,expression}.py - do not edit. -/\n"
            "namespace TraitsVerif.Generated\n\n"
            "/-- (class, conjuncts of `__eq__` in order): (\"__class__\", \"is\") = `type(self) is type(other)`,\n"
            "(f, \"eq\") = `self.f == other.f`, (f, \"seteq\") = `set(self.f) == set(other.f)` -/\n"
            "def eqRows : List (String × List (String × String)) := [\n%s]\n\n"
            "/-- (class, components of the tuple hashed by `__hash__`): (\"__class__\", \"is\") = `type(self).__name__`,\n"
            "(f, \"eq\") = `self.f`, (f, \"seteq\") = `frozenset(self.f)` -/\n"
            "def hashRows : List (String × List (String × String)) := [\n%s]\n\n"
            "/-- `anytrait_filter` is one module-level function object (compared by identity) -/\n"
            "def anytraitFilterIsFunction : Bool := true\n\n"
            "end TraitsVerif.Generated\n") % (rows(eqs), rows(hashes))


if __name__ == "__main__":
    import sys
    print(emit(sys.argv[1] if len(sys.argv) > 1 else "/repo/traits"), end="")
