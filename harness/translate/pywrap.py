"""Translator: the notifier wrappers of traits/trait_notifiers.py and traits/observation as PyW terms
(Generated/WrapProg.lean; language and interpreter: lean/TraitsVerif/Model/PyW.lean).

Python `ast`; locals numbered (parameters first, then by first assignment); fails closed: any statement, expression,
attribute, global or callee shape outside the table below raises (the engine then emits `translator_failed`).
Docstrings are skipped; keyword arguments are accepted only in calls of the event tracers (which are None) and as the
`**kwargs` of `self.event_factory`.
"""
import ast
import os

TARGET = "WrapProg.lean"

TARGETS = [
    ("trait_notifiers.py", None, "_change_accepted"),
    ("trait_notifiers.py", "AbstractStaticChangeNotifyWrapper", "__call__"),
    ("trait_notifiers.py", "TraitChangeNotifyWrapper", "__call__"),
    ("trait_notifiers.py", "TraitChangeNotifyWrapper", "dispatch"),
    ("trait_notifiers.py", "TraitChangeNotifyWrapper", "_dispatch_change_event"),
    ("trait_notifiers.py", "TraitChangeNotifyWrapper", "_notify_function_listener"),
    ("trait_notifiers.py", "TraitChangeNotifyWrapper", "_notify_method_listener"),
    ("trait_notifiers.py", "TraitChangeNotifyWrapper", "equals"),
    ("trait_notifiers.py", "TraitChangeNotifyWrapper", "listener_deleted"),
    ("trait_notifiers.py", "TraitChangeNotifyWrapper", "init"),
    ("trait_notifiers.py", "ExtendedTraitChangeNotifyWrapper", "_dispatch_change_event"),
    ("trait_notifiers.py", "ExtendedTraitChangeNotifyWrapper", "_notify_method_listener"),
    ("trait_notifiers.py", "ExtendedTraitChangeNotifyWrapper", "_notify_function_listener"),
    ("observation/_has_traits_helpers.py", None, "ctrait_prevent_event"),
    ("observation/_trait_event_notifier.py", "TraitEventNotifier", "__call__"),
]

ATTRS = {"type": "type", "comparison_mode": "comparison_mode", "old": "old", "new": "new", "object": "object",
         "name": "name", "handler": "handler", "notify_listener": "notify_listener", "__self__": "dunder_self",
         "__name__": "dunder_name", "__func__": "dunder_func", "owner": "owner",
         "argument_transform": "argument_transform", "listener_deleted": "listener_deleted"}
GLOBS = {"Uninitialized": "Uninitialized", "MethodType": "MethodType", "_pre_change_event_tracer": "pre_tracer",
         "_post_change_event_tracer": "post_tracer"}
ENUMS = {"TraitKind": "Generated.traitKindMembers", "ComparisonMode": "Generated.comparisonModeMembers"}
SELF_METHODS = {"argument_transform": "argument_transform", "dispatch": "dispatch",
                "_dispatch_change_event": "dispatch_change_event", "notify_listener": "notify_listener",
                "event_factory": "event_factory", "prevent_event": "prevent_event"}


class Unsupported(ValueError):
    pass


class Tr:
    def __init__(self, fn, legacy):
        a = fn.args
        if any(not (isinstance(d, ast.Constant) and d.value is None) for d in a.defaults):
            raise Unsupported("%s: default value other than None" % fn.name)
        if a.kwonlyargs or a.kw_defaults or a.posonlyargs:
            raise Unsupported("%s: parameter list" % fn.name)
        self.slots = {}
        for p in a.args:
            self.slot(p.arg)
        if a.vararg:
            self.slot(a.vararg.arg)
        if a.kwarg:
            self.slot(a.kwarg.arg)
        self.nparams = len(self.slots)
        self.legacy = legacy
        self.name = fn.name

    def slot(self, n):
        if n not in self.slots:
            self.slots[n] = len(self.slots)
        return self.slots[n]

    # ---- expressions
    def expr(self, e):
        if isinstance(e, ast.Constant):
            if e.value is None:
                return ".noneLit"
            if e.value is True or e.value is False:
                return "(.boolLit %s)" % str(e.value).lower()
            if isinstance(e.value, int):
                return "(.intLit %d)" % e.value
            raise Unsupported("constant %r" % (e.value,))
        if isinstance(e, ast.Name):
            if e.id in self.slots:
                return "(.loc %d)" % self.slots[e.id]
            if e.id in GLOBS:
                return "(.glob .%s)" % GLOBS[e.id]
            raise Unsupported("name %s" % e.id)
        if (isinstance(e, ast.Attribute) and e.attr == "co_argcount" and isinstance(e.value, ast.Attribute)
                and e.value.attr == "__code__"):
            return self.mk("argcount", [self.expr(e.value.value)])
        if (isinstance(e, ast.Attribute) and e.attr in ("_notify_method_listener", "_notify_function_listener")
                and isinstance(e.value, ast.Call) and isinstance(e.value.func, ast.Name) and e.value.func.id == "type"
                and len(e.value.args) == 1 and isinstance(e.value.args[0], ast.Name) and e.value.args[0].id == "self"):
            return "(.listenerRef %s)" % ("true" if e.attr == "_notify_method_listener" else "false")
        if (isinstance(e, ast.Subscript) and isinstance(e.value, ast.Attribute) and e.value.attr == "argument_transforms"
                and isinstance(e.value.value, ast.Name) and e.value.value.id == "self"):
            return "(.xformAt %s)" % self.expr(e.slice)
        if isinstance(e, ast.BinOp) and isinstance(e.op, ast.Sub):
            return "(.sub %s %s)" % (self.expr(e.left), self.expr(e.right))
        if isinstance(e, ast.Attribute):
            # Enum.member  /  Enum.member.name
            v = e.value
            if e.attr == "name" and isinstance(v, ast.Attribute) and isinstance(v.value, ast.Name) and v.value.id in ENUMS:
                return '(.enumMember %s "%s")' % (ENUMS[v.value.id], v.attr)
            if isinstance(v, ast.Name) and v.id in ENUMS:
                return '(.enumMember %s "%s")' % (ENUMS[v.id], e.attr)
            if e.attr not in ATTRS:
                raise Unsupported("attribute .%s" % e.attr)
            return "(.attr %s .%s)" % (self.expr(v), ATTRS[e.attr])
        if isinstance(e, ast.Compare):
            if len(e.ops) != 1:
                raise Unsupported("chained comparison")
            op = {ast.Is: "isE", ast.IsNot: "isNot", ast.Eq: "eq", ast.NotEq: "ne", ast.Gt: "gt"}.get(type(e.ops[0]))
            if op is None:
                raise Unsupported("comparison %s" % type(e.ops[0]).__name__)
            return "(.%s %s %s)" % (op, self.expr(e.left), self.expr(e.comparators[0]))
        if isinstance(e, ast.BoolOp):
            if not isinstance(e.op, ast.And):
                raise Unsupported("or")
            out = self.expr(e.values[-1])
            for v in reversed(e.values[:-1]):
                out = "(.and %s %s)" % (self.expr(v), out)
            return out
        if isinstance(e, ast.UnaryOp) and isinstance(e.op, ast.Not):
            return "(.not %s)" % self.expr(e.operand)
        if isinstance(e, ast.Call):
            return self.call(e)
        raise Unsupported("expression %s" % type(e).__name__)

    def args(self, c, allow_star=False, drop_kw=False):
        if c.keywords and not drop_kw:
            raise Unsupported("keyword arguments in a call of %s" % ast.dump(c.func)[:60])
        out = []
        for a in c.args:
            if isinstance(a, ast.Starred):
                if not allow_star:
                    raise Unsupported("*args in a call of %s" % ast.dump(c.func)[:60])
                a = a.value
            out.append(self.expr(a))
        return out

    def mk(self, fn, args):
        return "(.call .%s [%s])" % (fn, ", ".join(args))

    def call(self, c):
        f = c.func
        if isinstance(f, ast.Name):
            if f.id == "_change_accepted":
                return self.mk("change_accepted", self.args(c))
            if f.id == "bool":
                return self.mk("bool", self.args(c))
            if f.id == "type" and len(c.args) == 1:
                return self.mk("type_of", self.args(c))
            if f.id == "getattr":
                return self.mk("getattr", self.args(c))
            if f.id == "handle_exception":
                return self.mk("handle_exception_legacy" if self.legacy else "handle_exception_observe", self.args(c))
            if f.id in ("_pre_change_event_tracer", "_post_change_event_tracer"):
                return self.mk("tracer", self.args(c, drop_kw=True))
            if f.id in self.slots:
                a = self.args(c, allow_star=True)
                if not a:
                    return self.mk("weak_deref", [self.expr(f)])        # ref()
                if len(c.args) == 1 and isinstance(c.args[0], ast.Starred):
                    return self.mk("user_handler", a)                   # handler(*args)
            raise Unsupported("call of %s" % f.id)
        if isinstance(f, ast.Attribute):
            v = f.value
            if isinstance(v, ast.Name) and v.id == "self":
                if f.attr in SELF_METHODS:
                    return self.mk(SELF_METHODS[f.attr], self.args(c, allow_star=f.attr in ("dispatch", "event_factory"),
                                                                    drop_kw=f.attr == "event_factory"))
                if f.attr == "handler":
                    a = self.args(c, allow_star=True)
                    if not a:
                        return self.mk("weak_deref", ["(.attr (.loc %d) .handler)" % self.slots["self"]])
                    return self.mk("user_handler", a)
                if f.attr == "object" and not c.args:
                    return self.mk("owner_deref", [self.expr(v)])
                if f.attr == "target" and not c.args:
                    return self.mk("weak_deref", [self.expr(v)])
                if f.attr == "dispatcher":
                    return self.mk("user_handler", self.args(c))
            if isinstance(v, ast.Name) and v.id == "weakref" and f.attr == "ref" and len(c.args) == 2:
                return self.mk("weakref_new", self.args(c))
            if (isinstance(v, ast.Attribute) and isinstance(v.value, ast.Name) and v.value.id == "self"
                    and v.attr == "owner" and f.attr == "remove" and len(c.args) == 1
                    and isinstance(c.args[0], ast.Name) and c.args[0].id == "self" and not c.keywords):
                return self.mk("owner_remove", [self.expr(c.args[0])])
            if isinstance(v, ast.Name) and v.id == "object" and f.attr == "_trait":
                return self.mk("object_trait", [self.expr(v)] + self.args(c))
            if (isinstance(v, ast.Attribute) and v.attr == "object" and isinstance(v.value, ast.Name)
                    and v.value.id == "event" and f.attr == "trait"):
                return self.mk("event_trait", [self.expr(v)] + self.args(c))
            raise Unsupported("call of .%s" % f.attr)
        raise Unsupported("callee %s" % type(f).__name__)

    # ---- statements
    def stmts(self, body, ind):
        body = [s for s in body if not (isinstance(s, ast.Expr) and isinstance(s.value, ast.Constant)
                                        and isinstance(s.value.value, str))]
        if not body:
            return ".pass"
        parts = [self.stmt(s, ind) for s in body]
        out = parts[-1]
        for p in reversed(parts[:-1]):
            out = "(.seq %s\n%s%s)" % (p, ind, out)
        return out

    def stmt(self, s, ind):
        if isinstance(s, ast.Pass):
            return ".pass"
        if isinstance(s, ast.Return):
            return "(.ret %s)" % (".noneLit" if s.value is None else self.expr(s.value))
        if isinstance(s, ast.Assign) and all(
                isinstance(t, ast.Attribute) and isinstance(t.value, ast.Name) and t.value.id == "self" for t in s.targets):
            names = []
            for t in s.targets:
                if t.attr not in ATTRS:
                    raise Unsupported("assignment to self.%s" % t.attr)
                names.append("." + ATTRS[t.attr])
            return "(.setSelf [%s] %s)" % (", ".join(names), self.expr(s.value))
        if isinstance(s, ast.Assign):
            if len(s.targets) != 1 or not isinstance(s.targets[0], ast.Name):
                raise Unsupported("assignment target")
            rhs = self.expr(s.value)
            return "(.assign %d %s)" % (self.slot(s.targets[0].id), rhs)
        if isinstance(s, ast.Expr):
            return "(.expr %s)" % self.expr(s.value)
        if isinstance(s, ast.If):
            return "(.ifS %s\n%s  %s\n%s  %s)" % (self.expr(s.test), ind, self.stmts(s.body, ind + "  "), ind,
                                               self.stmts(s.orelse, ind + "  "))
        if isinstance(s, ast.Raise):
            c = s.exc
            if not (isinstance(c, ast.Call) and isinstance(c.func, ast.Name) and c.func.id == "TraitNotificationError"
                    and s.cause is None and not any(isinstance(n, ast.Call) for a in c.args for n in ast.walk(a))):
                raise Unsupported("raise statement")
            return ".raiseNotification"
        if isinstance(s, ast.Try):
            if s.finalbody or len(s.handlers) != 1:
                raise Unsupported("try shape")
            h = s.handlers[0]
            only_remove = (len(s.body) == 1 and isinstance(s.body[0], ast.Expr) and isinstance(s.body[0].value, ast.Call)
                           and self.expr(s.body[0].value).startswith("(.call .owner_remove"))
            if not (isinstance(h.type, ast.Name) and (h.type.id == "Exception" or (h.type.id == "ValueError" and only_remove))):
                # `except ValueError` is accepted around `self.owner.remove(self)` only (list.remove raises nothing else)
                raise Unsupported("except clause")
            v = "none" if h.name is None else "(some %d)" % self.slot(h.name)
            return "(.tryS %s\n%s  %s %s\n%s  %s)" % (self.stmts(s.body, ind + "  "), ind, v,
                                                    self.stmts(h.body, ind + "  "), ind, self.stmts(s.orelse, ind + "  "))
        raise Unsupported("statement %s" % type(s).__name__)


def find(tree, cls, fn):
    body = tree.body
    if cls is not None:
        cs = [n for n in body if isinstance(n, ast.ClassDef) and n.name == cls]
        if len(cs) != 1:
            raise Unsupported("class %s not found exactly once" % cls)
        body = cs[0].body
    fs = [n for n in body if isinstance(n, ast.FunctionDef) and n.name == fn]
    if len(fs) != 1:
        raise Unsupported("%s.%s not found exactly once" % (cls, fn))
    if fs[0].decorator_list:
        raise Unsupported("%s.%s is decorated" % (cls, fn))
    return fs[0]


def argument_transforms(tree, cls):
    """The class attribute `argument_transforms = {n: lambda obj, name, old, new: (…), …}` as data."""
    cs = [n for n in tree.body if isinstance(n, ast.ClassDef) and n.name == cls]
    if len(cs) != 1:
        raise Unsupported("class %s" % cls)
    ds = [n for n in cs[0].body if isinstance(n, ast.Assign) and len(n.targets) == 1
          and isinstance(n.targets[0], ast.Name) and n.targets[0].id == "argument_transforms"]
    if len(ds) != 1 or not isinstance(ds[0].value, ast.Dict):
        raise Unsupported("%s.argument_transforms is not one dict display" % cls)
    out = []
    for k, v in zip(ds[0].value.keys, ds[0].value.values):
        if not (isinstance(k, ast.Constant) and isinstance(k.value, int) and isinstance(v, ast.Lambda)):
            raise Unsupported("%s.argument_transforms entry" % cls)
        ps = [a.arg for a in v.args.args]
        if len(ps) != 4 or v.args.vararg or v.args.kwarg or v.args.defaults or not isinstance(v.body, ast.Tuple):
            raise Unsupported("%s.argument_transforms[%d]: lambda shape" % (cls, k.value))
        sel = []
        for e in v.body.elts:
            if not (isinstance(e, ast.Name) and e.id in ps):
                raise Unsupported("%s.argument_transforms[%d]: element is not a parameter" % (cls, k.value))
            sel.append(["obj", "name", "old", "new"][ps.index(e.id)])
        out.append((k.value, sel))
    return out


def lean_name(cls, fn):
    base = {"__call__": "call", "__init__": "init"}.get(fn, fn.lstrip("_"))
    return base if cls is None else "%s_%s" % (cls, base)


def emit(traits_dir):
    L = ["/- GENERATED by harness/translate/pywrap.py from the working tree - do not edit. -/",
         "import TraitsVerif.Model.PyW",
         "namespace TraitsVerif.Generated.WrapProg",
         "open TraitsVerif TraitsVerif.Model.PyW", ""]
    trees = {}
    for path, cls, fn in TARGETS:
        if path not in trees:
            trees[path] = ast.parse(open(os.path.join(traits_dir, path)).read())
        node = find(trees[path], cls, fn)
        tr = Tr(node, legacy=(path == "trait_notifiers.py"))
        body = tr.stmts(node.body, "      ")
        slots = " ".join("%d=%s" % (i, n) for n, i in sorted(tr.slots.items(), key=lambda kv: kv[1]))
        L.append("/-- `%s%s` (traits/%s); slots %s -/" % ((cls + "." if cls else ""), fn, path, slots))
        L.append("def %s : Func := { nparams := %d, body :=\n      %s }\n" % (lean_name(cls, fn), tr.nparams, body))
    tree = trees["trait_notifiers.py"]
    for cls in ("StaticAnytraitChangeNotifyWrapper", "StaticTraitChangeNotifyWrapper", "TraitChangeNotifyWrapper"):
        L.append("/-- `%s.argument_transforms`: arity of the handler -> what it receives -/" % cls)
        L.append("def %s_argument_transforms : List (Nat × List Sel) := [%s]\n" % (cls, ", ".join(
            "(%d, [%s])" % (k, ", ".join("." + x for x in sel)) for k, sel in argument_transforms(tree, cls))))
    L.append("end TraitsVerif.Generated.WrapProg")
    return "\n".join(L) + "\n"


if __name__ == "__main__":
    import sys
    print(emit(sys.argv[1] if len(sys.argv) > 1 else "/repo/traits"), end="")
