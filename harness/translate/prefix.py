"""Translator for C13: how the working tree's has_traits.py orders the prefix
(wildcard) list of a class and how `__prefix_trait__` matches a name against it.

Reads, with `ast` only:
  * update_traits_class_dict: the call that sorts `prefix_list` (key, reverse
    flag, how many ordering calls touch the list), the name under which the list
    is stored in the prefix-traits dict, the test that makes a declaration a
    wildcard, the test that adds the '' default;
  * HasTraits.__prefix_trait__: the loop over the stored list, the comparison
    that selects a prefix (left operand, operator, right operand), what is done
    with the match, and the dunder / trailing-underscore tests in front of it.
Emits Generated/Prefix.lean (pure data).  Props/C13.lean proves
`C13_sort_is_modelled`: these constants equal the ones the model was written
for.  Fails closed: a statement that does not have the expected shape is
emitted as the string "?<source text>", which no model constant equals."""
import ast
import os

TARGET = "Prefix.lean"


def un(node):
    return ast.unparse(node).replace('"', "'")


def lean_str(s):
    return '"' + s.replace("\\", "\\\\").replace('"', '\\"').replace("\n", " ") + '"'


def find_func(tree, name, cls=None):
    for n in ast.walk(tree):
        if cls is not None:
            if isinstance(n, ast.ClassDef) and n.name == cls:
                for m in n.body:
                    if isinstance(m, ast.FunctionDef) and m.name == name:
                        return m
        elif isinstance(n, ast.FunctionDef) and n.name == name:
            return n
    return None


def sort_facts(fn):
    """Facts about the ordering of `prefix_list` in update_traits_class_dict."""
    out = {"sortKey": "?missing", "sortReverse": False, "sortCount": 0,
           "listStoredAs": "?missing", "wildcardTest": "?missing", "wildcardStem": "?missing",
           "defaultPrefixTest": "?missing", "mergeTest": "?missing"}
    if fn is None:
        return out
    ordering_calls = []
    for n in ast.walk(fn):
        if isinstance(n, ast.Call):
            f = n.func
            # prefix_list.sort(...) / prefix_list.reverse()
            if isinstance(f, ast.Attribute) and isinstance(f.value, ast.Name) and f.value.id == "prefix_list" \
                    and f.attr in ("sort", "reverse"):
                ordering_calls.append(n)
            # sorted(prefix_list, ...) / reversed(prefix_list)
            elif isinstance(f, ast.Name) and f.id in ("sorted", "reversed") and n.args \
                    and isinstance(n.args[0], ast.Name) and n.args[0].id == "prefix_list":
                ordering_calls.append(n)
        # prefix_list rebound to something else after creation?
    out["sortCount"] = len(ordering_calls)
    rebinds = [n for n in ast.walk(fn) if isinstance(n, (ast.Assign, ast.AugAssign))
               and any(isinstance(t, ast.Name) and t.id == "prefix_list"
                       for t in (n.targets if isinstance(n, ast.Assign) else [n.target]))]
    if len(rebinds) != 1 or not (isinstance(rebinds[0], ast.Assign) and un(rebinds[0].value) == "[]"):
        out["sortKey"] = "?prefix_list rebound: " + "; ".join(un(r) for r in rebinds)
        return out
    if len(ordering_calls) == 1:
        c = ordering_calls[0]
        if isinstance(c.func, ast.Attribute) and c.func.attr == "sort" and not c.args:
            kws = {k.arg: k.value for k in c.keywords}
            if set(kws) <= {"key", "reverse"}:
                out["sortKey"] = un(kws["key"]) if "key" in kws else "?no key"
                rv = kws.get("reverse")
                if rv is None:
                    out["sortReverse"] = False
                elif isinstance(rv, ast.Constant) and isinstance(rv.value, bool):
                    out["sortReverse"] = rv.value
                else:
                    out["sortKey"] = "?reverse=" + un(rv)
            else:
                out["sortKey"] = "?" + un(c)
        else:
            out["sortKey"] = "?" + un(c)
    elif ordering_calls:
        out["sortKey"] = "?several: " + "; ".join(un(c) for c in ordering_calls)
    # prefix_traits["*"] = prefix_list
    stores = [n for n in ast.walk(fn) if isinstance(n, ast.Assign) and len(n.targets) == 1
              and isinstance(n.targets[0], ast.Subscript) and un(n.targets[0]) == "prefix_traits['*']"]
    if len(stores) == 1:
        out["listStoredAs"] = un(stores[0].value)
    elif stores:
        out["listStoredAs"] = "?several"
    # the declaration loop:  if name[-1:] != "_": ... else: name = name[:-1]; prefix_list.append(name)
    for n in ast.walk(fn):
        if isinstance(n, ast.If) and n.orelse and any(
                isinstance(s, ast.Expr) and un(s.value) == "prefix_list.append(name)" for s in n.orelse):
            out["wildcardTest"] = un(n.test)
            for s in n.orelse:
                if isinstance(s, ast.Assign) and un(s.targets[0]) == "name":
                    out["wildcardStem"] = un(s.value)
        # if prefix_traits.get("") is None: prefix_list.append("")
        if isinstance(n, ast.If) and any(
                isinstance(s, ast.Expr) and un(s.value) == "prefix_list.append('')" for s in n.body):
            out["defaultPrefixTest"] = un(n.test)
        # for name in base_prefix_traits["*"]: if name not in prefix_list: ...
        if isinstance(n, ast.For) and un(n.iter) == "base_prefix_traits['*']":
            if len(n.body) == 1 and isinstance(n.body[0], ast.If) and not n.body[0].orelse:
                out["mergeTest"] = un(n.body[0].test) + " => " + "; ".join(un(s) for s in n.body[0].body)
            else:
                out["mergeTest"] = "?" + "; ".join(un(s) for s in n.body)
    return out


def match_facts(fn):
    """Facts about the prefix search in HasTraits.__prefix_trait__."""
    out = {"matchIterates": "?missing", "matchVar": "?missing", "matchLhs": "?missing", "matchOp": "?missing",
           "matchRhs": "?missing", "matchThen": "?missing", "matchReturnsInLoop": False,
           "loopCount": 0, "dunderTest": "?missing", "underscoreTest": "?missing",
           "listAlias": "?missing"}
    if fn is None:
        return out
    body = [s for s in fn.body if not (isinstance(s, ast.Expr) and isinstance(s.value, ast.Constant))]
    # statement order:  if <dunder>: ... ; if <trailing underscore>: ... ; prefix_traits = ...; for ...
    ifs = [s for s in body if isinstance(s, ast.If)]
    if len(ifs) >= 1:
        out["dunderTest"] = un(ifs[0].test)
    if len(ifs) >= 2:
        out["underscoreTest"] = un(ifs[1].test)
    aliases = [s for s in body if isinstance(s, ast.Assign) and un(s.targets[0]) == "prefix_traits"]
    if len(aliases) == 1:
        out["listAlias"] = un(aliases[0].value)
    loops = [s for s in body if isinstance(s, (ast.For, ast.While))]
    out["loopCount"] = len(loops)
    if len(loops) != 1 or not isinstance(loops[0], ast.For):
        return out
    lp = loops[0]
    out["matchIterates"] = un(lp.iter)
    out["matchVar"] = un(lp.target)
    if lp.orelse or len(lp.body) != 1 or not isinstance(lp.body[0], ast.If) or lp.body[0].orelse:
        out["matchOp"] = "?loop body: " + "; ".join(un(s)[:60] for s in lp.body)
        return out
    test = lp.body[0].test
    if isinstance(test, ast.Compare) and len(test.ops) == 1:
        out["matchLhs"] = un(test.left)
        out["matchOp"] = type(test.ops[0]).__name__
        out["matchRhs"] = un(test.comparators[0])
    else:
        out["matchOp"] = "?" + un(test)
    then = lp.body[0].body
    first = then[0] if then else None
    if isinstance(first, ast.Assign) and un(first.targets[0]) == "trait":
        out["matchThen"] = un(first.value)
    else:
        out["matchThen"] = "?" + (un(first) if first is not None else "")
    last = then[-1] if then else None
    # the match is returned from inside the loop (first match wins); no break/continue games
    jumps = [n for n in ast.walk(lp) if isinstance(n, (ast.Break, ast.Continue))]
    out["matchReturnsInLoop"] = bool(isinstance(last, ast.Return) and un(last.value) == "trait" and not jumps)
    return out


ORDER = ["sortKey", "sortReverse", "sortCount", "listStoredAs", "wildcardTest", "wildcardStem",
         "defaultPrefixTest", "mergeTest",
         "listAlias", "loopCount", "matchIterates", "matchVar", "matchLhs", "matchOp", "matchRhs", "matchThen",
         "matchReturnsInLoop", "dunderTest", "underscoreTest"]


def emit(traits_dir):
    src = open(os.path.join(traits_dir, "has_traits.py")).read()
    tree = ast.parse(src)
    facts = {}
    facts.update(sort_facts(find_func(tree, "update_traits_class_dict")))
    facts.update(match_facts(find_func(tree, "__prefix_trait__", cls="HasTraits")))
    lines = ["/- GENERATED by harness/translate/prefix.py from the working tree - do not edit. -/",
             "namespace TraitsVerif.Generated.Prefix", ""]
    for k in ORDER:
        v = facts[k]
        if isinstance(v, bool):
            lines.append("def %s : Bool := %s" % (k, "true" if v else "false"))
        elif isinstance(v, int):
            lines.append("def %s : Nat := %d" % (k, v))
        else:
            lines.append("def %s : String := %s" % (k, lean_str(v)))
    lines += ["", "end TraitsVerif.Generated.Prefix"]
    return "\n".join(lines) + "\n"


if __name__ == "__main__":
    import sys
    print(emit(sys.argv[1] if len(sys.argv) > 1 else "/repo/traits"), end="")
