"""Translator: the LENGTH GUARDS of TraitListObject, read from the source with `ast`.

For every method of `TraitListObject` that is a list mutator (and `__init__`)
a tiny symbolic execution of the body yields, per control-flow path, the
syntactic conditions of the path and what the path does before handing over to
`super()`:

    check e            self._validate_length(e)
    requireEq a b      if a != b: raise ValueError(...)
    none               nothing

with e, a, b arithmetic over  len(self) | len(value) after value = list(value) |
len(self[key]) | operator.index(value) | integer constants | + - * max.
It also reads the comparison chain of `_validate_length` and of
`List.validate` (`minlen <= n <= maxlen`).

Emits Generated/LenGuard.lean (data of the types in Model/LenGuard.lean).
Props/C04 proves that the hand-written `guardLen` / `LenCfg.ok` of the model
are the interpretation of this data.  Fails closed (raises) on any statement
or expression outside the vocabulary above.
"""
import ast
import os

TARGET = "LenGuard.lean"

MUTATORS = ["__delitem__", "__iadd__", "__imul__", "__setitem__", "append", "clear", "extend", "insert", "pop",
            "remove", "reverse", "sort"]


class Unknown(Exception):
    pass


def is_call(node, name):
    return isinstance(node, ast.Call) and isinstance(node.func, ast.Name) and node.func.id == name


def is_self_attr_call(node, attr):
    return (isinstance(node, ast.Call) and isinstance(node.func, ast.Attribute) and node.func.attr == attr
            and isinstance(node.func.value, ast.Name) and node.func.value.id == "self")


def is_super_call(node):
    return (isinstance(node, ast.Call) and isinstance(node.func, ast.Attribute)
            and is_call(node.func.value, "super"))


def sym(node, env):
    """Expression -> Lean term of type GE."""
    if isinstance(node, ast.Constant) and isinstance(node.value, int) and not isinstance(node.value, bool):
        return "(.const %s)" % (node.value if node.value >= 0 else "(%d)" % node.value)
    if isinstance(node, ast.Name):
        v = env.get(node.id)
        if v == "index":
            return ".mult"
        if isinstance(v, tuple) and v[0] == "ge":
            return v[1]
        raise Unknown("name %s is not an integer quantity here" % node.id)
    if is_call(node, "len") and len(node.args) == 1 and not node.keywords:
        a = node.args[0]
        if isinstance(a, ast.Name) and a.id == "self":
            return ".len"
        if isinstance(a, ast.Name) and env.get(a.id) == "listed":
            return ".added"
        if (isinstance(a, ast.Subscript) and isinstance(a.value, ast.Name) and a.value.id == "self"
                and isinstance(a.slice, ast.Name) and a.slice.id == "key"):
            return ".sel"
        raise Unknown("len() of %s" % ast.dump(a)[:80])
    if is_call(node, "max") and len(node.args) == 2 and not node.keywords:
        return "(.max %s %s)" % (sym(node.args[0], env), sym(node.args[1], env))
    if isinstance(node, ast.BinOp) and isinstance(node.op, (ast.Add, ast.Sub, ast.Mult)):
        op = {ast.Add: "add", ast.Sub: "sub", ast.Mult: "mul"}[type(node.op)]
        return "(.%s %s %s)" % (op, sym(node.left, env), sym(node.right, env))
    raise Unknown("expression %s" % ast.dump(node)[:120])


def cond_of(test):
    """Recognised branch conditions -> (cond if true, cond if false)."""
    if (is_call(test, "isinstance") and len(test.args) == 2 and isinstance(test.args[0], ast.Name)
            and test.args[0].id == "key" and isinstance(test.args[1], ast.Name) and test.args[1].id == "slice"):
        return (".isSlice", ".notSlice")
    if isinstance(test, ast.BoolOp) and isinstance(test.op, ast.Or) and len(test.values) == 2:
        a, b = test.values

        def step(n):
            return (isinstance(n, ast.Attribute) and n.attr == "step" and isinstance(n.value, ast.Name)
                    and n.value.id == "key")
        if (isinstance(a, ast.Compare) and step(a.left) and len(a.ops) == 1 and isinstance(a.ops[0], ast.Is)
                and isinstance(a.comparators[0], ast.Constant) and a.comparators[0].value is None
                and isinstance(b, ast.Compare) and step(b.left) and len(b.ops) == 1 and isinstance(b.ops[0], ast.Eq)
                and isinstance(b.comparators[0], ast.Constant) and b.comparators[0].value == 1
                and type(b.comparators[0].value) is int):
            return (".stepUnit", ".stepExt")
    return None


def relevant(stmts):
    """Does a block touch anything the translation tracks?"""
    for st in stmts:
        for n in ast.walk(st):
            if isinstance(n, ast.Raise) or is_super_call(n) or is_self_attr_call(n, "_validate_length"):
                return True
            if isinstance(n, ast.Call) and isinstance(n.func, ast.Attribute) and isinstance(n.func.value, ast.Name) \
                    and n.func.value.id in ("list", "TraitList"):
                return True
            if isinstance(n, (ast.Assign, ast.AugAssign)):
                for t in (n.targets if isinstance(n, ast.Assign) else [n.target]):
                    if isinstance(t, ast.Name):
                        return True
            if isinstance(n, (ast.Return, ast.For, ast.While, ast.Try, ast.With)):
                return True
    return False


class Path:
    def __init__(self, conds=(), env=None, act=None, sup=None, done=False):
        self.conds = list(conds)
        self.env = dict(env or {})
        self.act = act
        self.sup = sup
        self.done = done

    def fork(self, cond=None):
        p = Path(self.conds, self.env, self.act, self.sup, self.done)
        if cond:
            p.conds.append(cond)
        return p


def set_act(p, act):
    if p.sup is not None:
        raise Unknown("length guard after the call of super()")
    if p.act is not None:
        raise Unknown("two guards on one path")
    p.act = act


def exec_block(stmts, paths, params, mname):
    for st in stmts:
        if isinstance(st, ast.Expr) and isinstance(st.value, ast.Constant) and isinstance(st.value.value, str):
            continue
        new = []
        for p in paths:
            if p.done:
                new.append(p)
            else:
                new.extend(exec_stmt(st, p, params, mname))
        paths = new
    return paths


def super_target(call, mname):
    if call.func.attr != mname:
        raise Unknown("super().%s called from %s" % (call.func.attr, mname))
    return call.func.attr


def exec_stmt(st, p, params, mname):
    if isinstance(st, ast.Pass):
        return [p]
    if isinstance(st, ast.Assign) and len(st.targets) == 1:
        t, v = st.targets[0], st.value
        if isinstance(t, ast.Attribute):
            if relevant([ast.Expr(v)]):
                raise Unknown("attribute assignment with effects")
            return [p]
        if isinstance(t, ast.Name):
            if is_super_call(v):                     # `item = super().pop(index)`
                if p.sup is not None:
                    raise Unknown("two super() calls on one path")
                p.sup = super_target(v, mname)
                p.env[t.id] = "opaque"
                return [p]
            if is_call(v, "list") and len(v.args) == 1 and isinstance(v.args[0], ast.Name) and v.args[0].id in params:
                p.env[t.id] = "listed"
                return [p]
            if (isinstance(v, ast.Call) and isinstance(v.func, ast.Attribute) and v.func.attr == "index"
                    and isinstance(v.func.value, ast.Name) and v.func.value.id == "operator"
                    and len(v.args) == 1 and isinstance(v.args[0], ast.Name) and v.args[0].id in params):
                p.env[t.id] = "index"
                return [p]
            if isinstance(v, ast.IfExp):
                c = cond_of(v.test)
                if c is None:
                    raise Unknown("conditional expression on %s" % ast.dump(v.test)[:80])
                a, b = p.fork(c[0]), p.fork(c[1])
                a.env[t.id] = ("ge", sym(v.body, a.env))
                b.env[t.id] = ("ge", sym(v.orelse, b.env))
                return [a, b]
            p.env[t.id] = ("ge", sym(v, p.env))
            return [p]
        raise Unknown("assignment target")
    if isinstance(st, (ast.Expr, ast.Return)):
        v = st.value
        if v is None:
            p.done = True
            return [p]
        if is_self_attr_call(v, "_validate_length"):
            if len(v.args) != 1 or v.keywords:
                raise Unknown("_validate_length arguments")
            set_act(p, ".check %s" % sym(v.args[0], p.env))
        elif is_super_call(v):
            if p.sup is not None:
                raise Unknown("two super() calls on one path")
            p.sup = super_target(v, mname)
        elif relevant([ast.Expr(v)]):
            raise Unknown("expression statement %s" % ast.dump(v)[:80])
        if isinstance(st, ast.Return):
            p.done = True
        return [p]
    if isinstance(st, ast.If):
        c = cond_of(st.test)
        if c is not None:
            a = exec_block(st.body, [p.fork(c[0])], params, mname)
            b = exec_block(st.orelse, [p.fork(c[1])], params, mname)
            return a + b
        t = st.test
        if (isinstance(t, ast.Compare) and len(t.ops) == 1 and isinstance(t.ops[0], ast.NotEq)
                and len(st.body) == 1 and isinstance(st.body[0], ast.Raise) and not st.orelse):
            r = st.body[0].exc
            if not (is_call(r, "ValueError")):
                raise Unknown("raise of something other than ValueError")
            set_act(p, ".requireEq %s %s" % (sym(t.left, p.env), sym(t.comparators[0], p.env)))
            return [p]
        if not relevant(st.body) and not relevant(st.orelse):
            return [p]
        raise Unknown("if on %s" % ast.dump(t)[:80])
    raise Unknown("statement %s" % type(st).__name__)


def bound_of(test, mid):
    """`lo <(=) mid <(=) hi` with lo/hi attributes minlen/maxlen -> (lowerStrict, upperStrict)."""
    if not (isinstance(test, ast.Compare) and len(test.ops) == 2):
        raise Unknown("length comparison is not a chain of two")
    lo, hi = test.left, test.comparators[1]
    if not (isinstance(lo, ast.Attribute) and lo.attr == "minlen" and isinstance(hi, ast.Attribute)
            and hi.attr == "maxlen"):
        raise Unknown("length comparison is not minlen .. maxlen")
    if not mid(test.comparators[0]):
        raise Unknown("length comparison: middle term")
    out = []
    for o in test.ops:
        if isinstance(o, ast.LtE):
            out.append("false")
        elif isinstance(o, ast.Lt):
            out.append("true")
        else:
            raise Unknown("length comparison operator %s" % type(o).__name__)
    return "{ lowerStrict := %s, upperStrict := %s }" % tuple(out)


def validate_length_bound(fn):
    """_validate_length: `if not trait.minlen <= new_length <= trait.maxlen: raise TraitError(...)`."""
    arg = fn.args.args[1].arg
    found = None
    for st in fn.body:
        if isinstance(st, ast.If) and isinstance(st.test, ast.UnaryOp) and isinstance(st.test.op, ast.Not):
            if not (len(st.body) == 1 and isinstance(st.body[0], ast.Raise) and is_call(st.body[0].exc, "TraitError")):
                raise Unknown("_validate_length does not raise TraitError")
            if found:
                raise Unknown("_validate_length: two checks")
            found = bound_of(st.test.operand, lambda n: isinstance(n, ast.Name) and n.id == arg)
        elif isinstance(st, ast.If):
            # `if trait is None: return` (stand-alone list)
            if not (len(st.body) == 1 and isinstance(st.body[0], ast.Return) and st.body[0].value is None
                    and isinstance(st.test, ast.Compare) and isinstance(st.test.ops[0], ast.Is)):
                raise Unknown("_validate_length: unexpected if")
        elif isinstance(st, ast.Assign) or (isinstance(st, ast.Expr) and isinstance(st.value, ast.Constant)):
            continue
        else:
            raise Unknown("_validate_length: statement %s" % type(st).__name__)
    if not found:
        raise Unknown("_validate_length: no check")
    return found


def list_validate_bound(fn):
    """List.validate: `if isinstance(value, list) and (self.minlen <= len(value) <= self.maxlen):`"""
    for st in fn.body:
        if isinstance(st, ast.If) and isinstance(st.test, ast.BoolOp) and isinstance(st.test.op, ast.And) \
                and len(st.test.values) == 2:
            a, b = st.test.values
            if not (is_call(a, "isinstance") and isinstance(a.args[1], ast.Name) and a.args[1].id == "list"):
                raise Unknown("List.validate: first conjunct")
            return bound_of(b, lambda n: is_call(n, "len") and isinstance(n.args[0], ast.Name)
                            and n.args[0].id == "value")
    raise Unknown("List.validate: no length test")


def find_class(tree, name):
    for n in tree.body:
        if isinstance(n, ast.ClassDef) and n.name == name:
            return n
    raise Unknown("class %s not found" % name)


def methods_of(cls):
    out = {}

    def walk(body):
        for n in body:
            if isinstance(n, ast.FunctionDef):
                out[n.name] = n
            elif isinstance(n, ast.If):
                walk(n.body)
                walk(n.orelse)
    walk(cls.body)
    return out


def emit(traits_dir):
    tree = ast.parse(open(os.path.join(traits_dir, "trait_list_object.py")).read())
    methods = methods_of(find_class(tree, "TraitListObject"))
    rows, supers = [], []
    for m in MUTATORS + ["__init__"]:
        if m not in methods:
            continue
        fn = methods[m]
        params = [a.arg for a in fn.args.args[1:]]
        paths = exec_block(fn.body, [Path()], params, m)
        ps = []
        for p in paths:
            if p.sup is None:
                raise Unknown("%s: a path does not reach super().%s" % (m, m))
            ps.append("    { conds := [%s], act := %s }" % (", ".join(p.conds), p.act or ".none"))
        rows.append('  ("%s", [\n%s])' % (m, ",\n".join(ps)))
        supers.append('("%s", "%s")' % (m, paths[0].sup))
    vl = validate_length_bound(methods["_validate_length"]) if "_validate_length" in methods else None
    if vl is None:
        raise Unknown("TraitListObject._validate_length not found")
    ttree = ast.parse(open(os.path.join(traits_dir, "trait_types.py")).read())
    lv = list_validate_bound(methods_of(find_class(ttree, "List"))["validate"])
    lines = ["/- GENERATED by harness/translate/lenguard.py from the working tree - do not edit. -/",
             "import TraitsVerif.Model.LenGuard",
             "namespace TraitsVerif.Generated",
             "open TraitsVerif.Model", "",
             "/-- (method of TraitListObject, paths): what each override does before calling `super()`. -/",
             "def lenGuards : List (String × List GPath) := [",
             ",\n".join(rows), "]", "",
             "/-- (method, the `super()` method it hands over to). -/",
             "def lenGuardSuper : List (String × String) := [%s]" % ", ".join(supers), "",
             "/-- the comparison of `TraitListObject._validate_length` -/",
             "def validateLengthBound : GBound := %s" % vl, "",
             "/-- the comparison of `List.validate` -/",
             "def listValidateBound : GBound := %s" % lv, "",
             "end TraitsVerif.Generated"]
    return "\n".join(lines) + "\n"


if __name__ == "__main__":
    import sys
    print(emit(sys.argv[1] if len(sys.argv) > 1 else "/repo/traits"), end="")
