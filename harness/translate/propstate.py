"""Translator for C12: the pieces of has_traits.py / ctraits.c that the model
`Model/Property.lean` transcribes, as data.

* the `dict(...)` returned by `_create_property_observe_state` (post_init, dispatch)
* normalised source (ast.unparse: comments / layout insensitive) of
  - `_create_property_observe_state` (whole function) and its `handler`
  - the two `if trait.type == "property" ...` blocks of `update_traits_class_dict` (how `cached`, `observe`
    and `depends_on` reach the handler / the legacy listener)
  - the statements of `traits.py:Property` that derive `depends_on` / `cached` metadata from the getter
  - `cached_property.decorator`
  - `HasTraits._init_trait_property_listener`  (legacy depends_on)
  - `HasTraits._init_trait_observers` / `_post_init_trait_observers`
* the order of the life-cycle calls in `HasTraits.__setstate__` (3.0 branch),
  `HasTraits.clone_traits`, and C `has_traits_init`
* the calls made by C `trait_property_changed`

Emits Generated/PropertyState.lean (pure data).  Fails closed on unknown shapes.
"""
import ast
import os
import re

TARGET = "PropertyState.lean"


def lean_str(s):
    return '"' + s.replace("\\", "\\\\").replace('"', '\\"').replace("\n", "\\n") + '"'


def lean_list(xs):
    return "[" + ", ".join(lean_str(x) for x in xs) + "]"


def _find(body, kind, name):
    for n in body:
        if isinstance(n, kind) and n.name == name:
            return n
    raise ValueError("%s %s not found" % (kind.__name__, name))


class _Alpha(ast.NodeTransformer):
    """Number parameters, assigned locals and nested function names of one function (nested scopes share the
    numbering) by first occurrence in source order: a renamed local gives the same text."""

    def __init__(self, fn):
        self.names = {}
        for n in ast.walk(fn):
            pass
        order = []
        for n in ast.walk(fn):
            if isinstance(n, ast.arg):
                order.append((n.lineno, n.col_offset, n.arg))
            elif isinstance(n, ast.Name) and isinstance(n.ctx, ast.Store):
                order.append((n.lineno, n.col_offset, n.id))
            elif isinstance(n, ast.FunctionDef) and n is not fn:
                order.append((n.lineno, n.col_offset, n.name))
        for _, _, name in sorted(order):
            self.names.setdefault(name, "_l%d" % len(self.names))
        self.top = fn

    def visit_arg(self, a):
        a.arg = self.names.get(a.arg, a.arg)
        return a

    def visit_Name(self, n):
        n.id = self.names.get(n.id, n.id)
        return n

    def visit_FunctionDef(self, f):
        self.generic_visit(f)
        if f is not self.top:
            f.name = self.names.get(f.name, f.name)
        return f


def _strip_doc(fn):
    import copy
    fn = copy.deepcopy(fn)
    fn = _Alpha(fn).visit(fn)
    body = list(fn.body)
    if body and isinstance(body[0], ast.Expr) and isinstance(getattr(body[0], "value", None), ast.Constant) \
            and isinstance(body[0].value.value, str):
        body = body[1:]
    new = ast.FunctionDef(name=fn.name, args=fn.args, body=body or [ast.Pass()], decorator_list=fn.decorator_list,
                          returns=fn.returns, type_comment=None, lineno=0, col_offset=0)
    try:
        new.type_params = getattr(fn, "type_params", [])
    except Exception:
        pass
    return ast.unparse(ast.fix_missing_locations(new))


def _method_calls(stmts, receiver):
    """Names of `receiver.<name>(...)` calls, in source order."""
    out = []
    for st in stmts:
        for n in ast.walk(st):
            if isinstance(n, ast.Call) and isinstance(n.func, ast.Attribute) \
                    and isinstance(n.func.value, ast.Name) and n.func.value.id == receiver:
                out.append((n.lineno, n.col_offset, n.func.attr))
    return [a for _, _, a in sorted(out)]


def _c_function(src, header_re):
    m = re.search(header_re, src, flags=re.S)
    if not m:
        raise ValueError("C function not found: %s" % header_re)
    i = src.index("{", m.end() - 1)
    depth = 0
    for j in range(i, len(src)):
        if src[j] == "{":
            depth += 1
        elif src[j] == "}":
            depth -= 1
            if depth == 0:
                return src[i:j + 1]
    raise ValueError("unbalanced braces")


def emit(traits_dir):
    tree = ast.parse(open(os.path.join(traits_dir, "has_traits.py")).read())
    # ---- _create_property_observe_state
    cpos = _find(tree.body, ast.FunctionDef, "_create_property_observe_state")
    handler = _find(cpos.body, ast.FunctionDef, "handler")
    ret = [n for n in cpos.body if isinstance(n, ast.Return)]
    if len(ret) != 1 or not (isinstance(ret[0].value, ast.Call) and isinstance(ret[0].value.func, ast.Name)
                             and ret[0].value.func.id == "dict"):
        raise ValueError("_create_property_observe_state: unexpected return shape")
    kw = {k.arg: k.value for k in ret[0].value.keywords}
    if sorted(kw) != ["dispatch", "graphs", "handler_getter", "post_init"]:
        raise ValueError("_create_property_observe_state: unexpected state keys %s" % sorted(kw))
    if not (isinstance(kw["post_init"], ast.Constant) and isinstance(kw["post_init"].value, bool)):
        raise ValueError("post_init is not a boolean constant")
    if not (isinstance(kw["dispatch"], ast.Constant) and isinstance(kw["dispatch"].value, str)):
        raise ValueError("dispatch is not a string constant")
    # ---- metaclass: the blocks that wire a property's dependencies
    utcd = _find(tree.body, ast.FunctionDef, "update_traits_class_dict")
    wiring = []
    for n in ast.walk(utcd):
        if isinstance(n, ast.If):
            t = ast.unparse(n.test)
            if "trait.type == 'property'" in t and ("trait.observe" in t or "trait.depends_on" in t):
                wiring.append(ast.unparse(n))
    if len(wiring) != 2:
        raise ValueError("update_traits_class_dict: expected 2 property wiring blocks, found %d" % len(wiring))
    # ---- traits.py Property(): metadata derived from the getter
    ttree = ast.parse(open(os.path.join(traits_dir, "traits.py")).read())
    pfun = _find(ttree.body, ast.FunctionDef, "Property")
    meta = []
    for n in pfun.body:
        src = ast.unparse(n)
        if ("'depends_on'" in src and "setdefault" in src) or "'cached_property'" in src:
            meta.append(src)
    if len(meta) != 2:
        raise ValueError("traits.Property: expected 2 metadata statements, found %d" % len(meta))
    # ---- cached_property
    cp = _find(tree.body, ast.FunctionDef, "cached_property")
    deco = _find(cp.body, ast.FunctionDef, "decorator")
    name_assign = [n for n in cp.body if isinstance(n, ast.Assign)
                   and len(n.targets) == 1 and isinstance(n.targets[0], ast.Name)]
    if len(name_assign) != 1:
        raise ValueError("cached_property: unexpected assignments")
    # ---- HasTraits methods
    ht = _find(tree.body, ast.ClassDef, "HasTraits")
    legacy = _find(ht.body, ast.FunctionDef, "_init_trait_property_listener")
    init_obs = _find(ht.body, ast.FunctionDef, "_init_trait_observers")
    post_obs = _find(ht.body, ast.FunctionDef, "_post_init_trait_observers")
    setstate = _find(ht.body, ast.FunctionDef, "__setstate__")
    ifs = [n for n in setstate.body if isinstance(n, ast.If)]
    if len(ifs) != 1 or not ifs[0].orelse:
        raise ValueError("__setstate__: unexpected shape")
    setstate_calls = _method_calls(ifs[0].orelse, "self")
    clone = _find(ht.body, ast.FunctionDef, "clone_traits")
    clone_calls = _method_calls(clone.body, "new")
    # ---- C
    csrc = open(os.path.join(traits_dir, "ctraits.c")).read()
    init_body = _c_function(csrc, r"\nhas_traits_init\(PyObject \*obj, PyObject \*args, PyObject \*kwds\)\s*\{")
    toks = re.findall(r'"(_init_trait_listeners|_init_trait_observers|_post_init_trait_listeners|'
                      r'_post_init_trait_observers|traits_init)"|(has_traits_setattro)\(', init_body)
    c_init = [a or b for a, b in toks]
    tpc_body = _c_function(csrc, r"\ntrait_property_changed\(\s*has_traits_object \*obj, PyObject \*name, "
                                 r"PyObject \*old_value,\s*PyObject \*new_value\)\s*\{")
    c_tpc = re.findall(r"\b(get_trait|has_notifiers|has_traits_getattro|call_notifiers)\(", tpc_body)
    lines = [
        "/- GENERATED by harness/translate/propstate.py from the working tree - do not edit. -/",
        "namespace TraitsVerif.Generated.PropertyState", "",
        "def postInit : Bool := %s" % ("true" if kw["post_init"].value else "false"),
        "def dispatch : String := %s" % lean_str(kw["dispatch"].value),
        "def handlerSrc : String := %s" % lean_str(_strip_doc(handler)),
        "def observeStateSrc : String := %s" % lean_str(_strip_doc(cpos)),
        "def wiringSrc : List String := %s" % lean_list(wiring),
        "def propertyMetadataSrc : List String := %s" % lean_list(meta),
        "def cacheNameSrc : String := %s" % lean_str(ast.unparse(name_assign[0])),
        "def cachedPropertySrc : String := %s" % lean_str(_strip_doc(deco)),
        "def legacyListenerSrc : String := %s" % lean_str(_strip_doc(legacy)),
        "def initObserversSrc : String := %s" % lean_str(_strip_doc(init_obs)),
        "def postInitObserversSrc : String := %s" % lean_str(_strip_doc(post_obs)),
        "def setstateCalls : List String := %s" % lean_list(setstate_calls),
        "def cloneCalls : List String := %s" % lean_list(clone_calls),
        "def cInitOrder : List String := %s" % lean_list(c_init),
        "def cPropertyChangedCalls : List String := %s" % lean_list(c_tpc),
        "", "end TraitsVerif.Generated.PropertyState",
    ]
    return "\n".join(lines) + "\n"


if __name__ == "__main__":
    import sys
    print(emit(sys.argv[1] if len(sys.argv) > 1 else "/repo/traits"), end="")
