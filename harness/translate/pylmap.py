"""Translator: the SOURCE TEXT of the dict and set mutators -> terms of the PyLM language
(Model/PyLMap.lean).

Translated, from traits/trait_dict_object.py and traits/trait_set_object.py of the working tree:
  * every mutator `TraitDict` defines (incl. `__ior__` under its `if sys.version_info >= (3, 9):` guard),
  * every mutator `TraitSet` defines,
  * every mutator `TraitDictObject` / `TraitSetObject` define (none in the pinned tree: the lists are empty),
  * `TraitSetObject._validator` (the item validator of a `Set` trait value; not a mutator, but what
    decides whether a deep copy / an orphaned value still validates),
  * the statement texts (`ast.unparse`, docstrings dropped) of `__new__` / `__init__` of the four classes:
    the constructors decide by `is None` tests whether a validator / a notifier list was given and whether
    there is an owner; the models assume exactly these statements (`C06_init_source`, `C07_init_source`
    compare them literally, so any edit — a truth test instead of `is None` in particular — breaks them).
Emits Generated/MapSetProg.lean.  Props/C06 and Props/C07 prove that the hand-written models
`Map.TraitDict.step` / `SetM.TraitSet.step` are the interpretation of these terms.

The translation is purely syntactic (one PyLM constructor per Python construct) with one rewrite that
preserves evaluation order: a call of `self.key_validator(...)` / `self.value_validator(...)` /
`self.item_validator(...)` or a `{self.item_validator(x) for x in ...}` comprehension nested in an
expression is hoisted into a temporary just before the statement (nothing else in these statements has
an effect).  Keyword arguments of `self.notify(...)` are put in the parameter order of the class's own
`notify`.  Fails closed (raises) on anything outside the subset.
"""
import ast
import os
import sys

TARGET = "MapSetProg.lean"

DICT_MUTATORS = ["__setitem__", "__delitem__", "__ior__", "clear", "update", "setdefault", "pop", "popitem"]
SET_MUTATORS = ["__iand__", "__ior__", "__isub__", "__ixor__", "add", "clear", "discard", "difference_update",
                "intersection_update", "pop", "remove", "symmetric_difference_update", "update"]
VALIDATORS = {"key_validator": ".key", "value_validator": ".value", "item_validator": ".item"}
EXCS = {"ValueError": ".valueError", "IndexError": ".indexError", "TypeError": ".typeError",
        "KeyError": ".keyError", "TraitError": ".traitError", "AttributeError": ".attributeError"}


class Unknown(Exception):
    pass


def is_name(n, s):
    return isinstance(n, ast.Name) and n.id == s


def is_self_attr_call(n, attr):
    return (isinstance(n, ast.Call) and isinstance(n.func, ast.Attribute) and n.func.attr == attr
            and is_name(n.func.value, "self"))


def is_super_call(n):
    return (isinstance(n, ast.Call) and isinstance(n.func, ast.Attribute) and isinstance(n.func.value, ast.Call)
            and is_name(n.func.value.func, "super") and not n.func.value.args and not n.func.value.keywords)


class Fn:
    """Translation of one method body."""

    def __init__(self, fn, notify_params):
        self.fn = fn
        self.notify_params = notify_params
        a = fn.args
        if a.kwarg or a.posonlyargs or a.kwonlyargs:
            raise Unknown("%s: **kwargs / positional-only / keyword-only parameters" % fn.name)
        names = [x.arg for x in a.args]
        if not names or names[0] != "self":
            raise Unknown("%s: first parameter is not self" % fn.name)
        names = names[1:]
        self.vararg = a.vararg is not None
        if self.vararg and (names or a.defaults):
            raise Unknown("%s: *args together with other parameters" % fn.name)
        self.params = names
        self.defaults = [self.default(d) for d in a.defaults]
        self.slots = {n: i for i, n in enumerate(names)}
        if self.vararg:
            self.slots[a.vararg.arg] = 0
        self.pre = []
        self.ntemp = 0

    def default(self, d):
        if isinstance(d, ast.Constant) and d.value is None:
            return ".noneLit"
        if is_name(d, "Undefined"):
            return ".undefinedLit"
        raise Unknown("%s: default value %s" % (self.fn.name, ast.dump(d)[:60]))

    def slot(self, name):
        if name not in self.slots:
            self.slots[name] = len(self.slots)
        return self.slots[name]

    def temp(self):
        self.ntemp += 1
        return self.slot("$t%d" % self.ntemp)

    # -- expressions ---------------------------------------------------------
    def ex(self, n):
        E = self.ex
        if isinstance(n, ast.Constant):
            if n.value is None:
                return ".noneLit"
            if isinstance(n.value, bool):
                return "(.boolLit %s)" % ("true" if n.value else "false")
            if isinstance(n.value, int):
                return "(.intLit %d)" % n.value
            raise Unknown("constant %r" % (n.value,))
        if isinstance(n, ast.Name):
            if n.id == "self":
                return ".self"
            if n.id == "Undefined":
                return ".undefinedLit"
            if n.id in self.slots:
                return "(.var %d)" % self.slots[n.id]
            raise Unknown("name %s used before assignment" % n.id)
        if isinstance(n, ast.Dict):
            if len(n.keys) == 0:
                return ".emptyDict"
            if len(n.keys) == 1 and n.keys[0] is not None:
                k = E(n.keys[0])
                return "(.dict1 %s %s)" % (k, E(n.values[0]))
            raise Unknown("dict display with %d items" % len(n.keys))
        if isinstance(n, ast.Set):
            if len(n.elts) == 1:
                return "(.set1 %s)" % E(n.elts[0])
            raise Unknown("set display with %d elements" % len(n.elts))
        if isinstance(n, ast.List):
            if len(n.elts) == 1:
                return "(.list1 %s)" % E(n.elts[0])
            raise Unknown("list display with %d elements" % len(n.elts))
        if isinstance(n, ast.SetComp):
            g = n.generators
            if (len(g) == 1 and not g[0].ifs and not g[0].is_async and isinstance(g[0].target, ast.Name)
                    and is_self_attr_call(n.elt, "item_validator") and len(n.elt.args) == 1 and not n.elt.keywords
                    and is_name(n.elt.args[0], g[0].target.id)):
                it = E(g[0].iter)
                t = self.temp()
                self.pre.append("(.validateAllSet %d %s)" % (t, it))
                return "(.var %d)" % t
            raise Unknown("set comprehension")
        if isinstance(n, ast.Starred):
            return "(.star %s)" % E(n.value)
        if isinstance(n, ast.Call):
            for attr, w in VALIDATORS.items():
                if is_self_attr_call(n, attr):
                    if len(n.args) != 1 or n.keywords:
                        raise Unknown("validator call shape")
                    arg = E(n.args[0])
                    t = self.temp()
                    self.pre.append("(.validate %s %d %s)" % (w, t, arg))
                    return "(.var %d)" % t
            if n.keywords:
                raise Unknown("keyword arguments in %s" % ast.dump(n)[:60])
            f = n.func
            if isinstance(f, ast.Name):
                if (f.id == "getattr" and len(n.args) == 3 and is_name(n.args[0], "self")
                        and isinstance(n.args[1], ast.Constant) and isinstance(n.args[1].value, str)):
                    return '(.getattrSelf "%s" %s)' % (n.args[1].value, E(n.args[2]))
                if f.id in self.slots and len(n.args) == 0:
                    return "(.call0 (.var %d))" % self.slots[f.id]
                if f.id in self.slots and len(n.args) == 3:
                    return "(.call3 (.var %d) %s %s %s)" % ((self.slots[f.id],) + tuple(E(a) for a in n.args))
                if f.id == "len" and len(n.args) == 1:
                    return "(.len %s)" % E(n.args[0])
                if f.id == "dict" and len(n.args) == 1:
                    return "(.dictOf %s)" % E(n.args[0])
                if f.id == "set" and len(n.args) == 0:
                    return ".emptySet"
                if f.id == "set" and len(n.args) == 1:
                    return "(.setOf %s)" % E(n.args[0])
                if (f.id == "hasattr" and len(n.args) == 2 and isinstance(n.args[1], ast.Constant)
                        and n.args[1].value == "keys"):
                    return "(.hasKeys %s)" % E(n.args[0])
                if (f.id == "isinstance" and len(n.args) == 2 and isinstance(n.args[1], ast.Tuple)
                        and [getattr(x, "id", None) for x in n.args[1].elts] == ["set", "frozenset"]):
                    return "(.isSetInst %s)" % E(n.args[0])
            if isinstance(f, ast.Attribute):
                if f.attr == "from_iterable" and is_name(f.value, "chain") and len(n.args) == 1:
                    return "(.chain %s)" % E(n.args[0])
                if f.attr == "copy" and not n.args:
                    return "(.copy %s)" % E(f.value)
                if f.attr == "items" and not n.args:
                    return "(.items %s)" % E(f.value)
                if f.attr in ("difference", "intersection") and len(n.args) == 1:
                    return "(.%s %s %s)" % (f.attr, E(f.value), E(n.args[0]))
            raise Unknown("call %s" % ast.dump(n)[:80])
        if isinstance(n, ast.Subscript):
            if isinstance(n.slice, ast.Slice):
                raise Unknown("slice expression")
            return "(.getItem %s %s)" % (E(n.value), E(n.slice))
        if isinstance(n, ast.Attribute):
            if is_name(n.value, "self"):
                return '(.selfAttr "%s")' % n.attr
            return '(.attr %s "%s")' % (E(n.value), n.attr)
        if isinstance(n, ast.BinOp):
            if isinstance(n.op, ast.BitOr):
                return "(.bitor %s %s)" % (E(n.left), E(n.right))
            raise Unknown("operator %s" % type(n.op).__name__)
        if isinstance(n, ast.UnaryOp):
            if isinstance(n.op, ast.Not):
                return "(.not %s)" % E(n.operand)
            raise Unknown("unary operator")
        if isinstance(n, ast.Compare) and len(n.ops) == 1:
            a, b, op = n.left, n.comparators[0], n.ops[0]
            if isinstance(op, ast.Is):
                if is_name(b, "Undefined"):
                    return "(.isUndefined %s)" % E(a)
                if isinstance(b, ast.Constant) and b.value is None:
                    return "(.isNone %s)" % E(a)
                raise Unknown("`is` with something other than Undefined / None")
            x, y = E(a), E(b)
            if isinstance(op, ast.In):
                return "(.contains %s %s)" % (x, y)
            if isinstance(op, ast.Eq):
                return "(.eq %s %s)" % (x, y)
            if isinstance(op, ast.Gt):
                return "(.gt %s %s)" % (x, y)
            raise Unknown("comparison %s" % type(op).__name__)
        if isinstance(n, ast.BoolOp) and isinstance(n.op, ast.Or) and len(n.values) == 2:
            return "(.or %s %s)" % (E(n.values[0]), E(n.values[1]))
        if isinstance(n, ast.IfExp):
            return "(.ite %s %s %s)" % (E(n.test), E(n.body), E(n.orelse))
        raise Unknown("expression %s" % ast.dump(n)[:100])

    # -- statements ----------------------------------------------------------
    def super_stmt(self, call, target):
        if call.keywords:
            raise Unknown("keyword arguments to super().%s" % call.func.attr)
        args = "[%s]" % ", ".join(self.ex(a) for a in call.args)
        return '(.super %s "%s" %s)' % ("none" if target is None else "(some %d)" % target, call.func.attr, args)

    def notify_stmt(self, call):
        params = self.notify_params
        args = [self.ex(a) for a in call.args]
        if call.keywords:
            rest = params[len(args):]
            kw = {k.arg: k.value for k in call.keywords}
            if set(kw) != set(rest):
                raise Unknown("keyword arguments %s do not fill %s" % (sorted(kw), rest))
            args += [self.ex(kw[p]) for p in rest]
        if len(args) != len(params):
            raise Unknown("notify called with %d arguments" % len(args))
        return "(.notify [%s])" % ", ".join(args)

    def st(self, s):
        self.pre = []
        out = self.st1(s)
        return self.pre + out

    def st1(self, s):
        if isinstance(s, ast.Pass):
            return []
        if isinstance(s, ast.Expr):
            v = s.value
            if isinstance(v, ast.Constant) and isinstance(v.value, str):
                return []
            if is_self_attr_call(v, "notify"):
                return [self.notify_stmt(v)]
            if is_super_call(v):
                return [self.super_stmt(v, None)]
            if (isinstance(v, ast.Call) and isinstance(v.func, ast.Attribute) and v.func.attr == "set_prefix"
                    and isinstance(v.func.value, ast.Name) and v.func.value.id in self.slots and len(v.args) == 1
                    and isinstance(v.args[0], ast.Constant) and isinstance(v.args[0].value, str) and not v.keywords):
                return ["(.setPrefix %d)" % self.slots[v.func.value.id]]
            raise Unknown("expression statement %s" % ast.dump(v)[:80])
        if isinstance(s, ast.Assign) and len(s.targets) == 1:
            t, v = s.targets[0], s.value
            if isinstance(t, ast.Name):
                if is_super_call(v):
                    r = self.super_stmt(v, None)          # arguments first (they may mention the target)
                    i = self.slot(t.id)
                    return [r.replace("(.super none", "(.super (some %d)" % i, 1)]
                e = self.ex(v)
                return ["(.assign %d %s)" % (self.slot(t.id), e)]
            if isinstance(t, ast.Subscript) and isinstance(t.value, ast.Name) and t.value.id in self.slots \
                    and t.value.id != "self" and not isinstance(t.slice, ast.Slice):
                k = self.ex(t.slice)
                return ["(.setItem %d %s %s)" % (self.slots[t.value.id], k, self.ex(v))]
            raise Unknown("assignment %s" % ast.dump(s)[:80])
        if isinstance(s, ast.If):
            c = self.ex(s.test)
            pre = self.pre
            t = self.block(s.body)
            e = self.block(s.orelse)
            self.pre = pre
            return ["(.ifS %s %s %s)" % (c, t, e)]
        if isinstance(s, ast.For):
            if (s.orelse or not isinstance(s.target, ast.Tuple) or len(s.target.elts) != 2
                    or not all(isinstance(x, ast.Name) for x in s.target.elts)):
                raise Unknown("for statement shape")
            it = self.ex(s.iter)
            pre = self.pre
            k, v = (self.slot(x.id) for x in s.target.elts)
            body = self.block(s.body)
            self.pre = pre
            return ["(.forPairs %d %d %s %s)" % (k, v, it, body)]
        if isinstance(s, ast.Return):
            v = s.value
            if v is None:
                return ["(.ret .noneLit)"]
            if is_super_call(v):
                r = self.super_stmt(v, None)
                t = self.temp()
                return [r.replace("(.super none", "(.super (some %d)" % t, 1), "(.ret (.var %d))" % t]
            return ["(.ret %s)" % self.ex(v)]
        if isinstance(s, ast.Try):
            if (s.finalbody or s.orelse or len(s.handlers) != 1 or not isinstance(s.handlers[0].type, ast.Name)
                    or s.handlers[0].name is None or s.handlers[0].type.id not in EXCS):
                raise Unknown("try statement shape")
            pre = self.pre
            b = self.block(s.body)
            i = self.slot(s.handlers[0].name)
            h = self.block(s.handlers[0].body)
            self.pre = pre
            return ["(.tryExcept %s %s %d %s)" % (b, EXCS[s.handlers[0].type.id], i, h)]
        if isinstance(s, ast.Raise):
            if s.cause is None and isinstance(s.exc, ast.Name) and s.exc.id in self.slots:
                return ["(.raiseVar %d)" % self.slots[s.exc.id]]
            raise Unknown("raise statement shape")
        raise Unknown("statement %s" % type(s).__name__)

    def block(self, stmts):
        out = []
        for s in stmts:
            out.extend(self.st(s))
        if not out:
            return ".skip"
        r = out[-1]
        for x in reversed(out[:-1]):
            r = "(.seq %s\n      %s)" % (x, r)
        return r

    def emit_func(self):
        body = self.block(self.fn.body)
        names = sorted(self.slots.items(), key=lambda kv: kv[1])
        comment = " ".join("%d=%s" % (i, n) for n, i in names)
        return ('  -- %s: slots %s\n  { nparams := %d, defaults := [%s], vararg := %s, nslots := %d, body :=\n'
                '      %s }' % (self.fn.name, comment, len(self.params), ", ".join(self.defaults),
                                "true" if self.vararg else "false", len(self.slots), body))

    def emit(self):
        body = self.block(self.fn.body)
        names = sorted(self.slots.items(), key=lambda kv: kv[1])
        comment = " ".join("%d=%s" % (i, n) for n, i in names)
        return ('  -- %s: slots %s\n  ("%s", { nparams := %d, defaults := [%s], vararg := %s, nslots := %d, body :=\n'
                '      %s })' % (self.fn.name, comment, self.fn.name, len(self.params), ", ".join(self.defaults),
                                 "true" if self.vararg else "false", len(self.slots), body))


def is_version_guard(test):
    """`sys.version_info >= (3, 9)` (true for the running interpreter)."""
    return (isinstance(test, ast.Compare) and len(test.ops) == 1 and isinstance(test.ops[0], ast.GtE)
            and isinstance(test.left, ast.Attribute) and test.left.attr == "version_info"
            and is_name(test.left.value, "sys") and isinstance(test.comparators[0], ast.Tuple)
            and all(isinstance(x, ast.Constant) and isinstance(x.value, int) for x in test.comparators[0].elts))


def methods_of(cls):
    out = {}

    def walk(body):
        for n in body:
            if isinstance(n, ast.FunctionDef):
                if n.decorator_list:
                    raise Unknown("decorated method %s.%s" % (cls.name, n.name))
                out[n.name] = n
            elif isinstance(n, ast.If):
                if not is_version_guard(n.test) or n.orelse:
                    raise Unknown("conditional definition in class %s" % cls.name)
                want = tuple(x.value for x in n.test.comparators[0].elts)
                if sys.version_info >= want:
                    walk(n.body)
            elif isinstance(n, (ast.Expr, ast.Assign, ast.AnnAssign, ast.Pass)):
                pass
            else:
                raise Unknown("statement %s in class body of %s" % (type(n).__name__, cls.name))
    walk(cls.body)
    return out


def emit(traits_dir):
    parts = []
    for fname, base, obj, mutators, pfx in (
            ("trait_dict_object.py", "TraitDict", "TraitDictObject", DICT_MUTATORS, "traitDict"),
            ("trait_set_object.py", "TraitSet", "TraitSetObject", SET_MUTATORS, "traitSet")):
        tree = ast.parse(open(os.path.join(traits_dir, fname)).read())
        classes = {n.name: n for n in tree.body if isinstance(n, ast.ClassDef)}
        for c in (base, obj):
            if c not in classes:
                raise Unknown("class %s not found in %s" % (c, fname))
        ms = methods_of(classes[base])
        if "notify" not in ms:
            raise Unknown("%s.notify not found" % base)
        notify_params = [a.arg for a in ms["notify"].args.args][1:]
        missing = [m for m in mutators if m not in ms]
        if missing:
            raise Unknown("%s does not define %s" % (base, missing))
        parts.append((pfx + "Prog", "the mutators `%s` defines" % base,
                      [Fn(ms[m], notify_params).emit() for m in mutators]))
        parts.append((pfx + "NotifyParams", None, notify_params))
        mo = methods_of(classes[obj])
        parts.append((pfx + "ObjectProg", "the mutators `%s` defines" % obj,
                      [Fn(mo[m], notify_params).emit() for m in mutators if m in mo]))
        for cname, cms in ((base, ms), (obj, mo)):
            for m in ("__new__", "__init__"):
                if m in cms:
                    body = [x for x in cms[m].body
                            if not (isinstance(x, ast.Expr) and isinstance(x.value, ast.Constant)
                                    and isinstance(x.value.value, str))]
                    sig = "def %s(%s)" % (m, ast.unparse(cms[m].args))
                    parts.append(("%s%sSource" % (cname[0].lower() + cname[1:], m.strip("_").capitalize()), None,
                                  [sig] + [" ".join(ast.unparse(x).split()) for x in body]))
        if obj == "TraitSetObject":
            if "_validator" not in mo:
                raise Unknown("TraitSetObject._validator not found")
            parts.append(("traitSetObjectValidator", "func", Fn(mo["_validator"], notify_params).emit_func()))
    lines = ["/- GENERATED by harness/translate/pylmap.py from the working tree - do not edit. -/",
             "import TraitsVerif.Model.PyLMap",
             "namespace TraitsVerif.Generated",
             "open TraitsVerif TraitsVerif.Model.PyLM", ""]
    for dname, doc, rows in parts:
        if doc == "func":
            lines += ["/-- `TraitSetObject._validator` -/", "def %s : Func :=" % dname, rows, ""]
        elif doc is None:
            lines += ["def %s : List String := [%s]" % (dname, ",\n  ".join(
                '"%s"' % r.replace("\\", "\\\\").replace('"', '\\"') for r in rows)), ""]
        else:
            lines += ["/-- %s -/" % doc, "def %s : List (String × Func) := [" % dname, ",\n".join(rows), "]", ""]
    lines.append("end TraitsVerif.Generated")
    return "\n".join(lines) + "\n"


if __name__ == "__main__":
    print(emit(sys.argv[1] if len(sys.argv) > 1 else "/repo/traits"), end="")
