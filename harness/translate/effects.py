"""Translator: the ORDER of effects in every mutator of TraitList / TraitListObject /
TraitDict / TraitSet, read from the source with `ast`.

For each method every control-flow path (if/else alternatives, try/except
alternatives, loops unrolled twice so that cross-iteration order shows) is
emitted as a string over

    V  call of self.item_validator / key_validator / value_validator (user callback)
    G  self._validate_length(...) or an explicit `raise` (a guard that may reject)
    M  super().<method>(...) or list./dict./set.<method>(self, ...)  (the builtin mutation)
    N  self.notify(...)
    D  call of another mutator of the same object (self.update(...), self += …)

Emits Generated/Effects.lean (pure data).  Props/C19 proves, by `decide` over
this table, that on every path all V/G come before the first M and every N
after the last M — and, once and for all effect lists, that this order makes a
failing callback leave the container unmutated and nobody notified.
Fails closed on statements it does not understand.
"""
import ast
import os

TARGET = "Effects.lean"

FILES = [("trait_list_object.py", "TraitList", "list"), ("trait_list_object.py", "TraitListObject", "list"),
         ("trait_dict_object.py", "TraitDict", "dict"), ("trait_set_object.py", "TraitSet", "set")]

MUTATORS = {
    "list": ["__delitem__", "__iadd__", "__imul__", "__setitem__", "append", "clear", "extend", "insert", "pop",
             "remove", "reverse", "sort"],
    "dict": ["__setitem__", "__delitem__", "__ior__", "clear", "update", "setdefault", "pop", "popitem"],
    "set": ["__iand__", "__ior__", "__isub__", "__ixor__", "add", "clear", "discard", "difference_update",
            "intersection_update", "pop", "remove", "symmetric_difference_update", "update"],
}
VALIDATORS = {"item_validator", "key_validator", "value_validator"}
MAXPATHS = 256


class Unknown(Exception):
    pass


def expr_tokens(node, base, mutators):
    """Tokens of an expression in evaluation order (arguments before the call itself);
    comprehensions are loops: their body is emitted twice."""
    if node is None:
        return ""
    out = ""
    if isinstance(node, (ast.ListComp, ast.SetComp, ast.GeneratorExp, ast.DictComp)):
        inner = ""
        for g in node.generators:
            out += expr_tokens(g.iter, base, mutators)
            for c in g.ifs:
                inner += expr_tokens(c, base, mutators)
        if isinstance(node, ast.DictComp):
            inner += expr_tokens(node.key, base, mutators) + expr_tokens(node.value, base, mutators)
        else:
            inner += expr_tokens(node.elt, base, mutators)
        return out + inner + inner
    if isinstance(node, ast.Call):
        f = node.func
        lazy = ""
        for a in list(node.args) + [k.value for k in node.keywords]:
            a = a.value if isinstance(a, ast.Starred) else a
            t = expr_tokens(a, base, mutators)
            # a generator expression is evaluated lazily, i.e. while the callee consumes it
            if any(isinstance(n, ast.GeneratorExp) for n in ast.walk(a)):
                lazy += t
            else:
                out += t
        if lazy:
            inner = ast.Call(func=f, args=[], keywords=[])
            return out + expr_tokens(inner, base, mutators) + lazy
        if isinstance(f, ast.Attribute):
            v = f.value
            if isinstance(v, ast.Name) and v.id == "self":
                if f.attr in VALIDATORS:
                    return out + "V"
                if f.attr == "_validate_length":
                    return out + "G"
                if f.attr == "notify":
                    return out + "N"
                if f.attr in mutators:
                    return out + "D"
                return out
            if isinstance(v, ast.Call) and isinstance(v.func, ast.Name) and v.func.id == "super":
                return out + "M"
            if isinstance(v, ast.Name) and v.id == base and node.args and isinstance(node.args[0], ast.Name) \
                    and node.args[0].id == "self":
                return out + "M"
            out = expr_tokens(v, base, mutators) + out
        else:
            out = expr_tokens(f, base, mutators) + out
        return out
    for child in ast.iter_child_nodes(node):
        if isinstance(child, ast.expr):
            out += expr_tokens(child, base, mutators)
    return out


def cross(ps, qs):
    r = []
    for (a, ta) in ps:
        if ta:
            r.append((a, True))
        else:
            for (b, tb) in qs:
                r.append((a + b, tb))
    r = list(dict.fromkeys(r))
    if len(r) > MAXPATHS:
        raise Unknown("too many paths")
    return r


def stmt_paths(st, base, mutators):
    """List of (tokens, terminated) for one statement."""
    E = lambda n: expr_tokens(n, base, mutators)  # noqa: E731
    if isinstance(st, (ast.Expr,)):
        return [(E(st.value), False)]
    if isinstance(st, ast.Assign):
        return [(E(st.value), False)]
    if isinstance(st, ast.AugAssign):
        t = E(st.value)
        if isinstance(st.target, ast.Name) and st.target.id == "self":
            t += "D"
        return [(t, False)]
    if isinstance(st, ast.AnnAssign):
        return [(E(st.value), False)]
    if isinstance(st, ast.Return):
        return [(E(st.value), True)]
    if isinstance(st, ast.Raise):
        return [(E(st.exc) + "G", True)]
    if isinstance(st, ast.Pass):
        return [("", False)]
    if isinstance(st, ast.Delete):
        return [("", False)]
    if isinstance(st, ast.If):
        t = E(st.test)
        a = cross([(t, False)], block_paths(st.body, base, mutators))
        b = cross([(t, False)], block_paths(st.orelse, base, mutators))
        return list(dict.fromkeys(a + b))
    if isinstance(st, (ast.For, ast.While)):
        head = E(st.iter) if isinstance(st, ast.For) else E(st.test)
        body = block_paths(st.body, base, mutators)
        twice = cross(body, body)
        return cross([(head, False)], [("", False)] + body + twice)
    if isinstance(st, ast.Try):
        body = block_paths(st.body, base, mutators)
        ok = cross(body, block_paths(st.orelse, base, mutators))
        alts = list(ok)
        for h in st.handlers:
            # the exception may come from anywhere in the body: approximate by "before" and "after"
            alts += block_paths(h.body, base, mutators)
            alts += cross(body, block_paths(h.body, base, mutators))
        alts = list(dict.fromkeys(alts))
        if st.finalbody:
            alts = cross(alts, block_paths(st.finalbody, base, mutators))
        return alts
    if isinstance(st, ast.With):
        t = "".join(E(i.context_expr) for i in st.items)
        return cross([(t, False)], block_paths(st.body, base, mutators))
    raise Unknown("statement %s" % type(st).__name__)


def block_paths(stmts, base, mutators):
    ps = [("", False)]
    for st in stmts:
        if isinstance(st, ast.Expr) and isinstance(st.value, ast.Constant) and isinstance(st.value.value, str):
            continue  # docstring
        ps = cross(ps, stmt_paths(st, base, mutators))
    return ps


def find_methods(cls):
    out = {}

    def walk(body):
        for n in body:
            if isinstance(n, ast.FunctionDef):
                out[n.name] = n
            elif isinstance(n, ast.If):
                walk(n.body)
                walk(n.orelse)
    walk(cls.body)
    return out


def emit(traits_dir):
    lines = ["/- GENERATED by harness/translate/effects.py from the working tree - do not edit. -/",
             "namespace TraitsVerif.Generated", "",
             "/-- (class, method, effect paths): V validator call, G length guard / raise, M builtin mutation,",
             "N notify, D call of another mutator of the same object; loops are unrolled twice. -/",
             "def containerEffects : List (String × String × List String) := ["]
    rows = []
    for fname, cname, base in FILES:
        tree = ast.parse(open(os.path.join(traits_dir, fname)).read())
        cls = [n for n in tree.body if isinstance(n, ast.ClassDef) and n.name == cname]
        if not cls:
            raise Unknown("class %s not found" % cname)
        methods = find_methods(cls[0])
        muts = set(MUTATORS[base])
        for m in MUTATORS[base]:
            if m not in methods:
                continue        # inherited (its own row is under the base class)
            paths = block_paths(methods[m].body, base, muts - {m})
            toks = sorted(set(p for p, _ in paths))
            rows.append('  ("%s", "%s", [%s])' % (cname, m, ", ".join('"%s"' % t for t in toks)))
    lines.append(",\n".join(rows))
    lines.append("]")
    lines.append("")
    lines.append("end TraitsVerif.Generated")
    return "\n".join(lines) + "\n"


if __name__ == "__main__":
    import sys
    print(emit(sys.argv[1] if len(sys.argv) > 1 else "/repo/traits"), end="")
