"""Translator: the SOURCE TEXT of `TraitList.__init__` and `TraitListObject.__init__` -> terms of the PyLC
language (Model/PyLCtor.lean).  Emits Generated/CtorProg.lean; `C05_init_is_source` / `C04_init_is_source`
prove the hand-written constructor models equal to the interpretation (which validator, element-wise
validation with the ordinal threaded, `list(notifiers)` copy, owner / name_items, length guard BEFORE
validation).  One PyLC constructor per Python construct; fails closed."""
import ast
import os
import sys

TARGET = "CtorProg.lean"


class Unknown(Exception):
    pass


def is_name(n, s):
    return isinstance(n, ast.Name) and n.id == s


def is_none(n):
    return isinstance(n, ast.Constant) and n.value is None


def q(s):
    return '"%s"' % s


def is_super_init(n):
    return (isinstance(n, ast.Call) and isinstance(n.func, ast.Attribute) and n.func.attr == "__init__"
            and isinstance(n.func.value, ast.Call) and is_name(n.func.value.func, "super")
            and not n.func.value.args and not n.func.value.keywords)


class Fn:
    def __init__(self, fn, want_params):
        a = fn.args
        if a.vararg or a.kwarg or a.posonlyargs:
            raise Unknown("%s: parameter list" % fn.name)
        names = [x.arg for x in a.args] + [x.arg for x in a.kwonlyargs]
        if names != ["self"] + want_params:
            raise Unknown("%s: parameters %s, expected %s" % (fn.name, names[1:], want_params))
        for d in list(a.defaults) + [d for d in a.kw_defaults if d is not None]:
            if not (is_none(d) or (isinstance(d, ast.Tuple) and not d.elts)):
                raise Unknown("default value %s" % ast.dump(d)[:40])
        self.kwonly = [x.arg for x in a.kwonlyargs]
        self.params = want_params
        self.slots = {n: i for i, n in enumerate(want_params)}
        self.fn = fn

    def slot(self, n):
        if n not in self.slots:
            self.slots[n] = len(self.slots)
        return self.slots[n]

    def ex(self, n):
        E = self.ex
        if is_none(n):
            return ".noneLit"
        if isinstance(n, ast.Name):
            if n.id in self.slots:
                return "(.var %d)" % self.slots[n.id]
            raise Unknown("name %s" % n.id)
        if isinstance(n, ast.Lambda):
            a = n.args
            if not (a.args or a.vararg or a.kwarg or a.kwonlyargs or a.posonlyargs) and is_none(n.body):
                return ".lambdaNone"
            raise Unknown("lambda")
        if isinstance(n, ast.Attribute):
            if is_name(n.value, "self"):
                return "(.selfAttr %s)" % q(n.attr)
            return "(.attr %s %s)" % (E(n.value), q(n.attr))
        if isinstance(n, ast.Compare) and len(n.ops) == 1 and is_none(n.comparators[0]):
            if isinstance(n.ops[0], ast.Is):
                return "(.isNone %s)" % E(n.left)
            if isinstance(n.ops[0], ast.IsNot):
                return "(.isNotNone %s)" % E(n.left)
        if isinstance(n, ast.BoolOp) and isinstance(n.op, ast.And):
            vals = [E(v) for v in n.values]
            r = vals[-1]
            for v in reversed(vals[:-1]):
                r = "(.and %s %s)" % (v, r)
            return r
        if isinstance(n, ast.IfExp):
            return "(.ite %s %s %s)" % (E(n.test), E(n.body), E(n.orelse))
        if isinstance(n, ast.List) and len(n.elts) == 1:
            return "(.list1 %s)" % E(n.elts[0])
        if isinstance(n, ast.BinOp) and isinstance(n.op, ast.Add) and isinstance(n.right, ast.Constant) \
                and isinstance(n.right.value, str):
            return "(.addStr %s %s)" % (E(n.left), q(n.right.value))
        if isinstance(n, ast.Call) and isinstance(n.func, ast.Name) and not n.keywords and len(n.args) == 1 \
                and n.func.id not in self.slots:
            if n.func.id in ("list", "len", "ref"):
                return "(.%s %s)" % ({"list": "listOf", "len": "len", "ref": "ref"}[n.func.id], E(n.args[0]))
        raise Unknown("expression %s" % ast.dump(n)[:100])

    def st(self, s):
        if isinstance(s, ast.Pass):
            return []
        if isinstance(s, ast.Expr):
            v = s.value
            if isinstance(v, ast.Constant) and isinstance(v.value, str):
                return []
            if is_super_init(v):
                if len(v.args) == 1 and not v.keywords and isinstance(v.args[0], ast.GeneratorExp):
                    g = v.args[0]
                    gen = g.generators
                    if (len(gen) == 1 and not gen[0].ifs and not gen[0].is_async and isinstance(gen[0].target, ast.Name)
                            and isinstance(g.elt, ast.Call) and isinstance(g.elt.func, ast.Attribute)
                            and is_name(g.elt.func.value, "self") and g.elt.func.attr == "item_validator"
                            and len(g.elt.args) == 1 and not g.elt.keywords and is_name(g.elt.args[0], gen[0].target.id)):
                        return ["(.superInitGen %s)" % self.ex(gen[0].iter)]
                    raise Unknown("generator argument of super().__init__")
                if len(v.args) == 1 and [k.arg for k in v.keywords] == ["item_validator", "notifiers"]:
                    return ["(.superInitKw %s %s %s)" % (self.ex(v.args[0]), self.ex(v.keywords[0].value),
                                                         self.ex(v.keywords[1].value))]
                raise Unknown("super().__init__ call shape")
            if (isinstance(v, ast.Call) and isinstance(v.func, ast.Attribute) and is_name(v.func.value, "self")
                    and v.func.attr == "_validate_length" and len(v.args) == 1 and not v.keywords):
                return ["(.checkLen %s)" % self.ex(v.args[0])]
            raise Unknown("expression statement %s" % ast.dump(v)[:80])
        if isinstance(s, ast.Assign) and len(s.targets) == 1:
            t = s.targets[0]
            if isinstance(t, ast.Attribute) and is_name(t.value, "self"):
                return ["(.setAttr %s %s)" % (q(t.attr), self.ex(s.value))]
            if isinstance(t, ast.Name):
                e = self.ex(s.value)
                return ["(.assign %d %s)" % (self.slot(t.id), e)]
        if isinstance(s, ast.If):
            return ["(.ifS %s %s %s)" % (self.ex(s.test), self.block(s.body), self.block(s.orelse))]
        raise Unknown("statement %s" % ast.dump(s)[:80])

    def block(self, stmts):
        out = []
        for s in stmts:
            out.extend(self.st(s))
        if not out:
            return ".skip"
        r = out[-1]
        for x in reversed(out[:-1]):
            r = "(.seq %s\n      %s)" % (x, r)
        return r

    def emit(self):
        body = self.block(self.fn.body)
        names = " ".join("%d=%s" % (i, n) for n, i in sorted(self.slots.items(), key=lambda kv: kv[1]))
        return "  -- slots %s\n  { nparams := %d, nslots := %d, body :=\n      %s }" % (names, len(self.params), len(self.slots), body)


def find(tree, cname, mname):
    for n in tree.body:
        if isinstance(n, ast.ClassDef) and n.name == cname:
            ms = [m for m in n.body if isinstance(m, ast.FunctionDef) and m.name == mname]
            if len(ms) == 1 and not ms[0].decorator_list:
                return ms[0]
    raise Unknown("%s.%s not found" % (cname, mname))


def emit(traits_dir):
    tree = ast.parse(open(os.path.join(traits_dir, "trait_list_object.py")).read())
    lines = ["/- GENERATED by harness/translate/ctorprog.py from the working tree - do not edit. -/",
             "import TraitsVerif.Model.PyLCtor", "namespace TraitsVerif.Generated.Ctor",
             "open TraitsVerif TraitsVerif.Model.PyLC", ""]
    f = Fn(find(tree, "TraitList", "__init__"), ["iterable", "item_validator", "notifiers"])
    if f.kwonly != ["item_validator", "notifiers"]:
        raise Unknown("TraitList.__init__: keyword-only parameters")
    lines += ["/-- `TraitList.__init__` -/", "def traitListInit : Func :=", f.emit(), ""]
    g = Fn(find(tree, "TraitListObject", "__init__"), ["trait", "object", "name", "value"])
    lines += ["/-- `TraitListObject.__init__` -/", "def traitListObjectInit : Func :=", g.emit(), ""]
    stree = ast.parse(open(os.path.join(traits_dir, "trait_set_object.py")).read())
    f = Fn(find(stree, "TraitSet", "__init__"), ["value", "item_validator", "notifiers"])
    if f.kwonly != ["item_validator", "notifiers"]:
        raise Unknown("TraitSet.__init__: keyword-only parameters")
    lines += ["/-- `TraitSet.__init__` -/", "def traitSetInit : Func :=", f.emit(), ""]
    g = Fn(find(stree, "TraitSetObject", "__init__"), ["trait", "object", "name", "value"])
    lines += ["/-- `TraitSetObject.__init__` -/", "def traitSetObjectInit : Func :=", g.emit(), ""]
    lines.append("end TraitsVerif.Generated.Ctor")
    return "\n".join(lines) + "\n"


if __name__ == "__main__":
    print(emit(sys.argv[1] if len(sys.argv) > 1 else "/repo/traits"), end="")
