"""C18 — the compiled core is memory-safe and reference-neutral under any API use."""
import json
import os
import random
import threading

from . import c14 as C14
from . import c18gc as GCX
from . import c18intro as INTRO
from . import c18stale as STALE
from . import c18lib as L
from . import c18paths
from . import c18raw as RAW
from . import subserver as SUB

PROPERTY = "C18"
DRIVER = "TraitsVerif/Driver/Persist.lean"
PROPS_MODULES = ["TraitsVerif.Props.C18", "TraitsVerif.Props.C18GC"]
TRANSLATORS = ["ctables", "crefpaths", "ctraverse", "crefborrows"]
RULE = ("(a) tables: proofs by `decide` over the tables/guards translated from the working tree's ctraits.c; T cases "
        "(CTrait(kind) + set_validate/delegate/_set_property/post_setattr with in/out-of-range integers, then "
        "__getstate__ indices and __setstate__) compare the FuncIndex model with the real extension in a subprocess. "
        "(b) ledger: R cases - one HasTraits object with a TraitType whose validate / default factory / post_setattr "
        "/ raw notifier / attribute-name __hash__ outcomes are dictated per operation; exhaustive single operations "
        "(13 flag sets x slot absent/present x every callback outcome x every failing dict operation) + random "
        "histories of 1-8 set/get/del; after every operation sys.getrefcount minus baseline of 11 pool objects "
        "(9 values, 2 str-subclass names) is compared with the model's held+stray and, by the oracle, with the "
        "number of __dict__ slots holding the object. (c) runtime, FAILING-INPUT SEARCH not proof: generated API "
        "programs of 9 families (attribute histories over 18 trait types, handlers that delete/assign/add/remove "
        "handlers/raise/gc during notification, validators/defaults/factories/post_setattr/property accessors raising "
        "at call ordinal k with on_trait_change + observe + reraise, add_trait/remove_trait, pickle 0-5/copy/deepcopy/"
        "clone of objects and CTraits, container mutators, delegates and properties, raw CTrait construction, "
        "attribute names with a failing __hash__) run in a subprocess - normal build in the quick tier, ASan+UBSan "
        "build (clang-14) in the thorough tier; a crash, a sanitizer report or a reference count of a tracked value "
        "off its baseline after everything is released is a hit with the program as replay. (d) W cases: a default "
        "computation (_x_default method, Instance factory with args / kw, validator of a computed default, callable "
        "default of a TraitType) failing with 5 exception classes x warnings filter default/error/ignore/always x "
        "getattr/hasattr/3-argument getattr/trait_get/default_value_for/first assignment with a listener, three "
        "failures in a row in the subprocess: what comes out, its __cause__, warnings recorded, reference count of "
        "the exception object (held instance: exact; fresh instance: weak reference checked before anything "
        "touches it) compared with Model.RefLedger.Warn; the factory's argument / keyword value, the name object "
        "and the HasTraits object must be back at their counts. (e) A cases: raw CTrait calls on 3 traits x 6 "
        "payloads with ALIASED arguments (t.clone(t), clone / __setstate__(__getstate__()) into a used trait, a "
        "setter given the object the field holds, a field re-set from its getter, _set_property twice), every "
        "payload either counted exactly or owned by the traits only (weak reference checked right after the call, "
        "before any collection) and equipped with a finalizer that looks for itself in every field of every "
        "trait; compared with the event machine Model.RefLedger.Raw (incref / decref / store, checkpoints after "
        "each decref). (f) collector interface and refused calls (props/c18gc.py, subprocess; twins of Props/C18GC): "
        "#GREF - gc.get_referents of generated HasTraits instances (9 member populations) and CTraits (heap / static "
        "type, every subset of the 8 reference members set to distinct or shared payloads) compared as a multiset of "
        "identities with what the members hold, the class exactly once; #GLIVE - a class defined in a function and "
        "referenced by 1-4 frame locals, 0-7 instances dropped in reference cycles of 8 shapes, gc.collect(), then the "
        "class is used; #REJ - every raw CTrait setter x every malformed argument shape (about 150) x 9 valid prior "
        "configurations: if the call raises, the API-visible state and the behaviour of the trait on fresh objects "
        "(default_value_for / read / assign / delete, instance trait and class attribute) must be what they were; #DPX - "
        "a class-prefix delegate (Delegate / modify / PrototypedFrom / listened) whose owner class gets a non-string "
        "__prefix__ of 7 kinds, then read / write on the old and on a fresh object: TypeError, never a crash. Quick "
        "tier: a sample of (f) (every setter x shape once, every #GREF kind once, the critical #GLIVE points); the "
        "cross products run in the thorough tier, also under ASan")
TRUSTED = [
    "translator ctables.py (regex reader of ctraits.c, fails closed): tables, assignment sites, guards, constants, "
    "stealing calls with the releases that can follow them (else arms of the same `if` excluded, loops and gotos "
    "ignored), releases applied directly to struct fields, the copies of trait_clone",
    "translator crefpaths.py (tokenizer + recursive-descent reader of the C statement subset of every function definition of ctraits.c it can parse - 134 of 153, the rest listed by name in the generated `unread` table pinned by C18_paths_unread - of the "
    "attribute get/set core, abstract interpretation of every control-flow path, fails closed): its API tables - which "
    "calls return a NEW reference (PyObject_Call, PyTuple_Pack, PyDict_New, default_value_for, ->validate(), "
    "->getattr(), ...), which a BORROWED one (PyDict_GetItem, PyTuple_GET_ITEM, ...), which STEAL (PyErr_Restore, "
    "PyException_SetCause) or STORE (PyTuple_SET_ITEM, PyList_SET_ITEM), which are reference-neutral - are trusted, "
    "as are: struct fields keep their value across calls, loops unrolled 0-2 times, target and source of trait_clone "
    "not aliased",
    "translator crefborrows.py (stale-borrow analysis, same reader): the table of calls that can run arbitrary Python "
    "code (crefpaths.ACALL / ACALL_FIELDS closed over the call graph of ctraits.c; Py_DECREF / Py_XDECREF / Py_CLEAR "
    "and dictionary operations on attribute names deliberately left out), tuples are immutable, a caller holds its "
    "arguments for the whole call, and CALLER_PROTECTS: the caller of validate_trait_complex_body holds a reference to "
    "trait->py_validate for the whole call (checked mechanically at every call site of that function)",
    "translator ctraverse.py (regex reader, fails closed): struct members declared `Py...Object *` are the owned "
    "references of the type; tp_traverse / tp_clear bodies are flat lists of Py_VISIT / Py_CLEAR statements (anything "
    "else is refused); the order of `exit` / `store` events of the setters is TEXT order, not control-flow order",
    "PyType_GenericNew zero-fills a new CTrait (post_setattr / validate / delegate_attr_name start NULL)",
    "sys.getrefcount and gc.collect of CPython 3.12 (immortal objects - None, small ints, interned str - are not "
    "tracked: names are str-subclass instances)",
    "Model.RefLedger.Warn / Raw are hand transcriptions of _warn_on_attribute_error and of the raw CTrait entry "
    "points (event order as in the source); their link to the working tree is the correspondence run (W / A cases) "
    "and the translated facts stolenThenReleased, fieldReleases, traitCloneCopies",
    "RUNTIME TIER IS SEARCH, NOT PROOF: out-of-bounds accesses, use-after-free and undefined behaviour are looked "
    "for by running generated programs under AddressSanitizer + UndefinedBehaviorSanitizer; absence of a report is "
    "evidence only for the programs run",
]
ASSUMPTIONS = [
    "hand-made __setstate__ tuples with arbitrary integers are outside documented API use (the C code has no bounds "
    "check there); the harness only feeds tuples produced by __getstate__",
    "the ledger model covers TraitKind.trait attributes (getattr_trait / setattr_trait, assignment, deletion, read); "
    "delegates, properties and events are exercised by the runtime tier only",
    "handlers of the ledger model do not re-enter the object (re-entrant handlers are runtime-tier programs)",
    "allocation failure (malloc returning NULL) is not injected",
    "has_traits_setattro performs exactly one name lookup before setattr_trait for an object without instance "
    "traits (checked by a self-test at start-up)",
    "W cases: each failure runs in a fresh warnings.catch_warnings context (a new location for the 'default' action); "
    "a validator-raised exception on first assignment is left out (the validator rejects the ASSIGNED value before "
    "any default is computed); the AttributeError.name / .obj attributes CPython sets on the way out of getattr() "
    "are cleared before counting",
    "A cases: the raw machine covers py_post_setattr, py_validate, default_value, delegate_name, delegate_prefix and "
    "handler of three CTraits; delegate() with string payloads, notifiers and __dict__ are covered by the structural "
    "facts (fieldReleases, traitCloneCopies) and the runtime tier only; __setstate__ is only given tuples produced "
    "by __getstate__",
]

_ASAN = {"scratch": None, "failed": None}
_SRV = {}


def setup():
    n = L.selftest_lookup_hashes()
    if n != L.LOOKUP_HASHES:
        raise RuntimeError("has_traits_setattro hashes the name %d time(s) before setattr_trait, expected %d" % (
            n, L.LOOKUP_HASHES))


def _server(asan=False):
    key = "asan" if asan else "normal"
    if key not in _SRV:
        if asan:
            sc = asan_scratch()
            if sc is None:
                return None
            _SRV[key] = SUB.Server(sc, sanitize=True, timeout=120)
        else:
            import traits
            sc = os.path.dirname(os.path.dirname(os.path.abspath(traits.__file__)))
            _SRV[key] = SUB.Server(sc, timeout=60)
    return _SRV[key]


def asan_scratch():
    if _ASAN["scratch"] is None and _ASAN["failed"] is None:
        import build
        try:
            if SUB.asan_runtime() is None:
                raise RuntimeError("no libclang_rt.asan runtime found")
            sc, _ = build.build(sanitize=True)
            _ASAN["scratch"] = sc
            import atexit
            atexit.register(build.cleanup, sc)
        except Exception as e:
            _ASAN["failed"] = str(e)[:300]
    return _ASAN["scratch"]


def corpus():
    return [
        # F74: Py_DECREF(name) on the PyDict_SetItem failure path of setattr_trait
        "R|v|set x 10 5 dflt=9 hash=0",
        "R|vpn|set x 10 5 dflt=9 hash=2",
        "R|vpn|set x 10 5 val=conv:6 dflt=9;set x 10 4 val=raise:TraitError dflt=9;get y 11 dflt=9;del x 10 dflt=9",
        "T|new 4;property 1 2 1 1",
        "T|new 8", "T|new 9", "T|new -1",
        # F75 / F76 / F77 / F78 as correspondence cases (exception class instead of a crash)
        "H|otc|0 3|0:rs", "H|raw|0 3|0:rs", "H|otc|2 2|0:rm:3 2:add:o",
        "#GC ctrait-default saveall", "#GC itrait-handler-closure saveall",
        # round 5: what tp_traverse reports, a live class after a collection, a refused setter call followed by use
        "#GREF hastraits||plain", "#GREF hastraits||all", "#GLIVE self-ref 0 1", "#GLIVE self-ref 1 2",
        "#REJ set_default_value|cargs-none|int", "#REJ set_default_value|cargs-2tuple|const",
        # F100-del-flag / F100-del-dict / F100-validate-k1 (repaired 6ecb263, 4720b0b), delegate prefix (e4a9aa5)
        "#REJ is_mapped|del|const", "#REJ modify_delegate|del|delegate", "#REJ setattr_original_value|del|int",
        "#REJ post_setattr_original_value|del|validated", "#REJ __dict__|del|const", "#REJ set_validate|k1-short|const",
        "#DPX delegate|int|read", "#DPX delegate|int|write", "#DPX delegate-modify|none|write",
        "#DPX prototyped|bytes|read",
        "U|n n s c9|1 2 3 4|s", "U|s c9|1 2|v", "#V Tuple(Any,Any,Float) | t_conv3 | set",
        "#V Either(Str,Tuple(Any,Float)) | t_conv2 | set",
        "#V Either(Range,Float) | f5.5 | set", "#V Either(Range,Str) | f5.5 | set",
        "#V Either(Range,Float) | f5.5 | validate", "R|vn|set x 10 2 dflt=9 notify=0:RuntimeError",
        "T|new 3;delegate 4;dprobe", "T|new 3;delegate 100;dprobe",
        # round 4: failing defaults under warnings filters; raw CTrait calls with aliased arguments
        "W|method|AttrSub|error|getattr|held", "W|factory|AttrSub|error|getattr|fresh",
        "W|factorykw|AttributeError|error|hasattr|held", "W|validate|AttributeError|error|trait_get|held",
        "W|method|KeyError|error|getattr|held", "W|method|AttributeError|default|hasattr|held",
        "A|ssssss|ps 0 0;v 0 1;dv 0 2;h 0 3;cl 0 0;rd 0;drop 0", "A|hhhhhh|dv 0 0;cl 1 0;cl 1 0;drop 1",
        "A|ssssss|h 0 0;ss 0 0;rd 0", "A|ssssss|v 0 0;v 0 1", "A|hhhhhh|v 0 0;v 0 0;re 0 validate;drop 0",
        "T|new 3;probe", "T|new 7;probe", "T|new 4;property 1 2 1 1;post 0;probe", "T|new 0;default 5;probe",
        "#PROG " + json.dumps({"family": "raw-ctrait", "traits": {"i": "int"}, "steps": [
            ["new", "o"], ["raw_ctrait", 3, "bare", 0, "get"], ["gc"]]}, sort_keys=True),
        "#PROG " + json.dumps({"family": "raw-ctrait", "traits": {"i": "int"}, "steps": [
            ["new", "o"], ["raw_ctrait", 7, "bare", 0, "get"], ["gc"]]}, sort_keys=True),
        "#PROG " + json.dumps({"family": "raw-ctrait", "traits": {"i": "int"}, "steps": [
            ["new", "o"], ["raw_ctrait", 4, "property-post-none", 0, "set"], ["gc"]]}, sort_keys=True),
        "#PROG " + json.dumps({"family": "persist", "traits": {"p": "vprop", "i": "int"}, "steps": [
            ["new", "o"], ["ct_roundtrip", "o", "p", "getstate"], ["ct_roundtrip", "o", "p", "deepcopy"],
            ["pickle", "o", 2, "c"], ["gc"]]}, sort_keys=True),
    ]


def generate(rng, tier):
    if tier == "quick":
        nR, nT, nP = 1200, 150, 420
    elif tier == "thorough":
        nR, nT, nP = 20000, 2000, 3000
    else:
        nR, nT, nP = 10000, 800, 3000
    for c in L.exhaustive_r():
        yield c
    for _ in range(nR):
        yield L.gen_r(rng)
    for c in C14.gen_T(rng, True, probes=True):
        yield c
    for c in L.gen_v(True):
        yield c
    for c in gen_h(rng, {"quick": 150, "thorough": 3000}.get(tier, 1000)):
        yield c
    for sc in SUB.GC_SCENARIOS:
        yield "#GC %s saveall" % sc
        yield "#GC %s plain" % sc
    for c in L.gen_u(rng, {"quick": 300, "thorough": 6000}.get(tier, 2000)):
        yield c
    for c in RAW.gen_w(rng, {"quick": 60, "thorough": 1500}.get(tier, 400)):
        yield c
    for c in RAW.gen_a(rng, {"quick": 500, "thorough": 12000}.get(tier, 3000)):
        yield c
    # quick: a sample (every setter x shape once, every #GREF kind once, the critical #GLIVE points); the full cross
    # products in the other tiers
    for c in GCX.gen_gref(rng, {"quick": 10, "thorough": 600}.get(tier, 300)):
        yield c
    for c in GCX.gen_glive(rng, tier):
        yield c
    for c in GCX.gen_rej(rng, tier):
        yield c
    for c in GCX.gen_dpx(rng, tier):
        yield c
    for c in INTRO.gen_intro():
        yield c
    for c in STALE.gen_stale():
        yield c
    for _ in range(nT):
        yield C14.random_T(rng)
    for _ in range(nP):
        yield "#PROG " + json.dumps(L.gen_program(rng), sort_keys=True)
    # the two defect families, once each per prep/kind (cheap, deterministic)
    for kind in range(-1, 10):
        for prep in ("bare", "delegate", "default", "property", "validate"):
            yield "#PROG " + json.dumps({"family": "raw-ctrait", "traits": {"i": "int"}, "steps": [
                ["new", "o"], ["raw_ctrait", kind, prep, kind % 4, "all"], ["gc"]]}, sort_keys=True)
    for fail_at in range(1, 6):
        for use in ("set", "get", "del"):
            yield "#PROG " + json.dumps({"family": "name-hash", "traits": {"i": "int", "a": "any"}, "steps": [
                ["new", "o"], ["hashname", "o", "a", fail_at, 20, use], ["gc"]]}, sort_keys=True)


def judge_program(prog, ans, asan):
    """Oracle for one program run: crash / sanitizer report / reference count off baseline."""
    hits = []
    sig = L.program_signature(prog)
    if "crash" in ans:
        hits.append({"signature": "crash:" + sig,
                     "what": "%s program killed the interpreter%s: %s" % (
                         prog["family"], " (ASan+UBSan build)" if asan else "", SUB.crash_summary(ans)),
                     "stderr_tail": ans.get("stderr", "")[-1500:]})
        return "crash", hits
    if ans.get("error"):
        return "harness-exception " + ans["error"], hits
    rd = ans.get("ref_delta", [])
    if any(rd):
        hits.append({"signature": ("refleak:" if max(rd) > 0 else "refunder:") + sig,
                     "what": "after the program released everything and gc.collect(), tracked values are off their "
                             "baseline reference count by %s" % rd})
    return "ok errors=%s refs=%s" % (",".join(ans.get("errors", [])), rd), hits


def run_prog(case):
    prog = json.loads(case[6:])
    asan = bool(prog.get("asan"))
    srv = _server(asan)
    if srv is None:
        return "skip no-asan", [], ["PROG:skip"]
    ans = srv.request({"k": "PROG", "prog": prog})
    out, hits = judge_program(prog, ans, asan)
    return out, hits, ["PROG:" + prog["family"]] + (["PROG:crash"] if out == "crash" else [])


def judge_gc(spec, ans, asan):
    hits = []
    sc = spec["scenario"]
    if ans.get("gc_violation"):
        hits.append({"signature": "gc:dying-object-visible:" + sc,
                     "what": "a gc.collect() run by a finalizer while the object of scenario %s was being "
                             "deallocated was handed %s with reference count 0 (the collector clears and frees it "
                             "a second time)" % (sc, ans["gc_violation"])})
        return "gc-violation", hits
    if "crash" in ans:
        hits.append({"signature": "crash:gc-during-dealloc:" + sc,
                     "what": "gc.collect() from a finalizer during deallocation (%s, %s)%s: %s" % (
                         sc, spec.get("mode"), " (ASan+UBSan build)" if asan else "", SUB.crash_summary(ans)),
                     "stderr_tail": ans.get("stderr", "")[-1500:]})
        return "crash", hits
    if ans.get("error"):
        return "harness-exception " + ans["error"], hits
    if ans.get("finalizer_runs") != 1:
        return "harness-exception finalizer ran %s times" % ans.get("finalizer_runs"), hits
    return "ok", hits


def h_spec(case):
    _, kind, counts, acts = case.split("|")
    tc, oc = [int(x) for x in counts.split()]
    return {"kind": kind.strip(), "t": tc, "o": oc, "acts": acts.split()}


def judge_h(case, ans, asan):
    spec = h_spec(case)
    pop = "anytrait-only" if spec["t"] == 0 else "trait-only" if spec["o"] == 0 else "mixed"
    act = "-".join(sorted(set(a.split(":")[1] for a in spec["acts"]))) or "none"
    if "crash" in ans:
        return "crash", [{"signature": "crash:notifier-list-changed-during-dispatch:%s:%s" % (spec["kind"], pop),
                          "what": "handlers that change the notifier lists during dispatch%s: %s" % (
                              " (ASan+UBSan build)" if asan else "", SUB.crash_summary(ans)),
                          "stderr_tail": ans.get("stderr", "")[-1500:]}]
    if ans.get("error"):
        return "harness-exception " + ans["error"], []
    out = ans["out"]
    hits = []
    # ---------------- oracle: snapshot semantics, stated directly
    n = spec["t"] + spec["o"]
    want = list(range(n))
    first = [int(x) for x in out.split("calls=[")[1].split("]")[0].split(",") if x]
    if first != want:
        hits.append({"signature": "dispatch-not-from-snapshot:%s:%s:%s" % (spec["kind"], pop, act),
                     "what": "%d handlers were registered when the change happened (trait-level first): called %r, "
                             "each registered handler must be called exactly once, in order" % (n, first)})
    return out, hits


def run_h(case):
    ans = _server(False).request({"k": "H", "spec": h_spec(case)})
    out, hits = judge_h(case, ans, False)
    return out, hits, ["H:" + h_spec(case)["kind"]]


def gen_h(rng, n):
    out = []
    for kind in ("otc", "raw", "observe"):
        pops = [(0, 2), (0, 3), (0, 5), (2, 0), (3, 0), (1, 2), (2, 2), (3, 1)] if kind != "observe" else \
            [(2, 0), (3, 0), (5, 0)]
        for tc, oc in pops:
            tot = tc + oc
            for i in range(tot):
                out.append("H|%s|%d %d|%d:rs" % (kind, tc, oc, i))
                for j in range(tot):
                    if j != i:
                        out.append("H|%s|%d %d|%d:rm:%d" % (kind, tc, oc, i, j))
                out.append("H|%s|%d %d|%d:add:t" % (kind, tc, oc, i))
                if kind != "observe":
                    out.append("H|%s|%d %d|%d:add:o" % (kind, tc, oc, i))
            out.append("H|%s|%d %d|%s" % (kind, tc, oc, " ".join("%d:rs" % i for i in range(tot))))
            out.append("H|%s|%d %d|0:rs %d:rm:0" % (kind, tc, oc, tot - 1))
    for _ in range(n):
        kind = rng.choice(["otc", "otc", "raw"])
        tc, oc = rng.choice([(0, rng.randint(2, 8)), (rng.randint(1, 4), rng.randint(0, 4))])
        tot = tc + oc
        acts = []
        for i in rng.sample(range(tot), rng.randint(1, min(3, tot))):
            r = rng.random()
            acts.append("%d:rs" % i if r < 0.4 else "%d:rm:%d" % (i, rng.randrange(tot)) if r < 0.75 else
                        "%d:add:%s" % (i, rng.choice("to")))
        out.append("H|%s|%d %d|%s" % (kind, tc, oc, " ".join(sorted(acts, key=lambda a: int(a.split(":")[0])))))
    return out


def run_gc(case):
    _, sc, mode = case.split()
    spec = {"scenario": sc, "mode": mode}
    ans = _server(False).request({"k": "GC", "spec": spec})
    out, hits = judge_gc(spec, ans, False)
    return out, hits, ["GC:" + mode]


def run_w(case):
    ans = _server(False).request({"k": "W", "spec": RAW.w_spec(case)})
    out, hits = RAW.judge_w(case, ans, False, SUB.crash_summary)
    return out, hits, ["W:" + RAW.w_spec(case)["mode"]]


def run_a(case):
    ans = _server(False).request({"k": "A", "spec": RAW.a_spec(case)})
    out, hits = RAW.judge_a(case, ans, False, SUB.crash_summary)
    return out, hits, ["A:alias" if any(o[0] in ("cl", "ss") and o[1] == o[2] for o in RAW.a_spec(case)["ops"])
                       else "A:other"]


def run_gcx(case, srv=None):
    srv = srv or _server(False)
    if case.startswith("#REJ "):
        return GCX.run_rej(case, srv, SUB.crash_summary)
    if case.startswith("#GREF "):
        ans = srv.request({"k": "GREF", "spec": GCX.gref_spec(case)})
        out, hits = GCX.judge_gref(case, ans, SUB.crash_summary)
        return out, hits, ["GREF:" + GCX.gref_spec(case)["kind"]]
    if case.startswith("#DPX "):
        ans = srv.request({"k": "DPX", "spec": GCX.dpx_spec(case)})
        out, hits = GCX.judge_dpx(case, ans, SUB.crash_summary)
        return out, hits, ["DPX:" + GCX.dpx_spec(case)["kind"]]
    ans = srv.request({"k": "GLIVE", "spec": GCX.glive_spec(case)})
    out, hits = GCX.judge_glive(case, ans, SUB.crash_summary)
    return out, hits, ["GLIVE:" + GCX.glive_spec(case)["variant"]]


def run_impl(case):
    if case.startswith("#GC "):
        return run_gc(case)
    if case.startswith(("#GREF ", "#GLIVE ", "#REJ ", "#DPX ")):
        return run_gcx(case)
    if case.startswith("#INTRO "):
        return INTRO.run_intro(case)
    if case.startswith("#STALE "):
        return STALE.run_stale(case)
    if case.startswith("W|"):
        return run_w(case)
    if case.startswith("A|"):
        return run_a(case)
    if case.startswith("R|"):
        return L.run_r(case)
    if case.startswith("T|"):
        return C14.run_t(case)
    if case.startswith("#PROG "):
        return run_prog(case)
    if case.startswith("#V "):
        return L.run_v(case)
    if case.startswith("U|"):
        return L.run_u(case)
    if case.startswith("H|"):
        return run_h(case)
    raise ValueError(case)


def nontrivial(case, out):
    return not (out.startswith("skip") or out.startswith("harness-exception") or out in ("", "bad-case"))


def shrink(case, fails):
    if case.startswith("#PROG "):
        prog = json.loads(case[6:])
        steps = prog["steps"]
        changed = True
        while changed and len(steps) > 1:
            changed = False
            for i in range(len(steps) - 1, 0, -1):
                cand = dict(prog)
                cand["steps"] = steps[:i] + steps[i + 1:]
                if fails("#PROG " + json.dumps(cand, sort_keys=True)):
                    steps = cand["steps"]
                    prog = cand
                    changed = True
        return "#PROG " + json.dumps(prog, sort_keys=True)
    if case.startswith("R|"):
        _, cfg, ops = case.split("|")
        ol = [o for o in ops.split(";") if o.strip()]
        changed = True
        while changed and len(ol) > 1:
            changed = False
            for i in range(len(ol) - 1, -1, -1):
                cand = ol[:i] + ol[i + 1:]
                if cand and fails("R|%s|%s" % (cfg, ";".join(cand))):
                    ol, changed = cand, True
        return "R|%s|%s" % (cfg, ";".join(ol))
    if case.startswith("A|"):
        _, holds, ops = case.split("|")
        ol = [o for o in ops.split(";") if o.strip()]
        changed = True
        while changed and len(ol) > 1:
            changed = False
            for i in range(len(ol) - 1, -1, -1):
                cand = ol[:i] + ol[i + 1:]
                if cand and fails("A|%s|%s" % (holds, ";".join(cand))):
                    ol, changed = cand, True
        return "A|%s|%s" % (holds, ";".join(ol))
    return case


_EXTRA = {}


def extra_checks(ctx):
    """Both tiers: the control-flow paths `crefpaths` reads, judged in Python (`refpath-imbalance:<fn>:<value>`: the
    input of a broken `C18_paths_balanced`).  Thorough tier: the generated programs again, under the ASan+UBSan build."""
    path_hits = c18paths.refpath_hits(ctx["scratch"])
    _EXTRA.update({"refpath_oracle": "%d unbalanced (function, value) pairs" % len(path_hits)})
    if ctx["tier"] != "thorough":
        _EXTRA.update({"sanitizer_tier": "not run in the quick tier (programs ran on the normal build in a subprocess)"})
        return path_hits
    return path_hits + _sanitizer_checks(ctx)


def _sanitizer_checks(ctx):
    if ctx["tier"] != "thorough":
        _EXTRA.update({"sanitizer_tier": "not run in the quick tier (programs ran on the normal build in a subprocess)"})
        return []
    sc = asan_scratch()
    if sc is None:
        _EXTRA.update({"sanitizer_tier": "UNAVAILABLE: %s - programs ran on the normal build only" % _ASAN["failed"]})
        return []
    rng = random.Random(ctx["seed"] * 104729 + 5)
    n = int(os.environ.get("VERIF_C18_ASAN_PROGRAMS", "4000"))
    progs = [json.loads(c[6:]) for c in corpus() if c.startswith("#PROG ")]
    progs += [L.gen_program(rng) for _ in range(n)]
    for kind in range(-1, 10):
        for prep in ("bare", "delegate", "default", "property", "validate", "property-post-none", "default-type"):
            progs.append({"family": "raw-ctrait", "traits": {"i": "int"}, "steps": [
                ["new", "o"], ["raw_ctrait", kind, prep, kind % 4 + (5 if prep == "default-type" else 0), "all"], ["gc"]]})
    for fail_at in range(1, 6):
        for use in ("set", "get", "del"):
            progs.append({"family": "name-hash", "traits": {"i": "int", "a": "any"}, "steps": [
                ["new", "o"], ["hashname", "o", "a", fail_at, 20, use], ["gc"]]})
    # every validate kind / delegate prefix type / default value type the guards admit or reject, under the sanitizer
    for v in range(-1, 27):
        progs.append({"family": "raw-ctrait", "traits": {"i": "int"}, "steps": [
            ["new", "o"], ["raw_ctrait", 0, "validate", v, "all"], ["gc"]]})
    for v in range(-2, 7):
        progs.append({"family": "raw-ctrait", "traits": {"i": "int"}, "steps": [
            ["new", "o"], ["raw_ctrait", 3, "delegate", v, "getstate"], ["gc"]]})
    for v in range(-1, 13):
        progs.append({"family": "raw-ctrait", "traits": {"i": "int"}, "steps": [
            ["new", "o"], ["raw_ctrait", 0, "default", v, "all"], ["gc"]]})
    gc_specs = [{"scenario": sc, "mode": "plain"} for sc in SUB.GC_SCENARIOS]
    h_cases = gen_h(random.Random(ctx["seed"] * 31 + 7), 400)
    wa_cases = RAW.gen_w(random.Random(ctx["seed"] * 17 + 3), 200) + RAW.gen_a(random.Random(ctx["seed"] * 13 + 1), 1500)
    # refused raw-setter calls followed by use, the collector scenarios and non-string class prefixes, under the
    # sanitizer
    wa_cases += GCX.gen_rej(random.Random(ctx["seed"] * 11 + 9), "thorough")
    wa_cases += GCX.gen_gref(random.Random(ctx["seed"] * 7 + 2), 100) + GCX.gen_glive(None, "quick")
    wa_cases += GCX.gen_dpx(None, "thorough")
    nthreads = 12
    hits = []
    lock = threading.Lock()
    stats = {"run": 0, "crashes": 0}

    def work(chunk):
        srv = SUB.Server(sc, sanitize=True, timeout=180)
        try:
            for spec in (gc_specs if chunk is progs_first else []):
                ans = srv.request({"k": "GC", "spec": spec})
                out, hs = judge_gc(spec, ans, True)
                with lock:
                    stats["gc"] = stats.get("gc", 0) + 1
                    for h in hs:
                        h["case"] = "#GC %s plain" % spec["scenario"]
                        h["impl"] = out
                        h["no_shrink"] = True
                        hits.append(h)
            for hc in (h_cases[chunks.index(chunk)::nthreads] if chunk in chunks else []):
                ans = srv.request({"k": "H", "spec": h_spec(hc)})
                out, hs = judge_h(hc, ans, True)
                with lock:
                    stats["h"] = stats.get("h", 0) + 1
                    for h in hs:
                        h["case"] = hc
                        h["impl"] = out
                        h["no_shrink"] = True
                        hits.append(h)
            for wc in (wa_cases[chunks.index(chunk)::nthreads] if chunk in chunks else []):
                if wc.startswith("#"):
                    out, hs, _ = run_gcx(wc, srv)
                elif wc.startswith("W|"):
                    ans = srv.request({"k": "W", "spec": RAW.w_spec(wc)})
                    out, hs = RAW.judge_w(wc, ans, True, SUB.crash_summary)
                else:
                    ans = srv.request({"k": "A", "spec": RAW.a_spec(wc)})
                    out, hs = RAW.judge_a(wc, ans, True, SUB.crash_summary)
                with lock:
                    stats["wa"] = stats.get("wa", 0) + 1
                    for h in hs:
                        h["case"] = wc
                        h["impl"] = out
                        h["no_shrink"] = True
                        hits.append(h)
            for prog in chunk:
                ans = srv.request({"k": "PROG", "prog": prog})
                out, hs = judge_program(prog, ans, True)
                with lock:
                    stats["run"] += 1
                    if out == "crash":
                        stats["crashes"] += 1
                    for h in hs:
                        p2 = dict(prog)
                        p2["asan"] = True
                        h["case"] = "#PROG " + json.dumps(p2, sort_keys=True)
                        h["impl"] = out
                        h["no_shrink"] = len(prog["steps"]) <= 3
                        hits.append(h)
        finally:
            srv.close()
    chunks = [progs[i::nthreads] for i in range(nthreads)]
    progs_first = chunks[0]
    ths = [threading.Thread(target=work, args=(ch,)) for ch in chunks]
    for t in ths:
        t.start()
    for t in ths:
        t.join()
    _EXTRA.update({"sanitizer_tier": "ASan+UBSan build (clang-14, PYTHONMALLOC=malloc), %d programs, %d ended in a crash/report; %d "
                                     "gc-during-dealloc scenarios; %d handler-list-mutation cases; %d failing-default / "
                                     "aliased raw-CTrait cases" % (
                                         stats["run"], stats["crashes"], stats.get("gc", 0), stats.get("h", 0),
                                         stats.get("wa", 0))})
    return hits


def evidence_extra():
    return {"runtime_tier": dict(_EXTRA), "runtime_tier_is": "failing-input search, not proof"}
