"""Shared pieces of the `obs` cluster (C08, C09): line protocol, driver of the REAL
traits.observation code, statement-level oracle, generators.

Case line (see lean/TraitsVerif/Driver/Obs.lean):

    obs|<n>|<child defaults>|op;op;...

Pool objects are 0..n-1, `99` is None, containers get the identities written in
the ops (>= 100).  A child-default entry `<ref>[~class]` prefixed with `S` makes that pool object the
CONSTANT default of the class trait `shared = Any(<it>)` of every pool object (one object shared by
all instances, not made by a factory; default_value_type constant).

Dict keys: `byname` is Dict(CStr, Instance): key k of the case line is the entry "<k>"; the mutators
whose name ends in `u` pass it UN-CAST (the int k), the others as the str.
  ds/dsu  d[k] = x            du/duu  d.update({k: x})      dio/diou  d |= {k: x}
  dsd/dsdu d.setdefault(k, x) dd  del d[k]   dp  d.pop(k)   dpd  d.pop(k, None)   dpi  d.popitem()
Sets:  sa add  sr discard  sro remove  sp pop (singleton sets only)  su update({x})  sio |= {x}
  sis -= {x}   sia &= (s - {x})   six ^= {x}   sdu difference_update({x})   sxu symmetric_difference_update({x})
`del o f`: `del obj.f` with the trait's notifier list in existence (as after any earlier registration on it).  After every op every pool object is probed (every Int trait is
read, then incremented); the output per op is

    <ok|err Exc> D{deliveries during the op} P{deliveries of the probe} N{notifier populations}

Nothing from `traits` is imported at module level.
"""
import collections
import gc
import weakref
import zlib

from .seqlib import exc_name

NAMES = ["value", "mate", "child", "kids", "byname", "group", "trait_added", "trait_modified",
         "extra", "xchild", "items", "nosuch", "ichild", "nchild", "tkids", "l2", "adhoc", "shared"]
NONE_ID = 99
INT_FIELDS = ("value", "extra")

_INDEX = {}      # id(pool object) -> pool index (also its hash)
_DEFAULT = {}    # id(pool object) -> weakref of the object its `child` default returns
_EQ = {}         # id(pool object) -> `==` class (a == b iff same class; also the hash)
CMP_MODE = {"ichild": "identity", "nchild": "none"}     # every other trait: equality
# `addt o name code`: the metadata given to the added trait; "+tag" matches iff it is not None
TAG_CODES = {0: {}, 1: {"tag": True}, 2: {"tag": False}, 3: {"tag": 0}, 4: {"tag": ""}, 5: {"tag": "x"},
             6: {"tag": None}}
_NODE = []


def node_class():
    if _NODE:
        return _NODE[0]
    from traits.api import HasTraits, Int, Instance, List, Dict, Set, CStr, ComparisonMode

    class Node(HasTraits):
        value = Int()
        mate = Instance(HasTraits, tag=True)
        child = Instance(HasTraits)
        kids = List(Instance(HasTraits))
        # casting keys: 1 and "1" name the same entry
        byname = Dict(CStr, Instance(HasTraits))
        group = Set(Instance(HasTraits))
        ichild = Instance(HasTraits, comparison_mode=ComparisonMode.identity)
        nchild = Instance(HasTraits, comparison_mode=ComparisonMode.none)
        # metadata DEFINED with a falsy value: "+tag" matches every trait whose metadata is not None
        tkids = List(Instance(HasTraits), tag=False)

        def _mate_default(self):
            r = _DEFAULT.get(id(self))
            return None if r is None else r()

        def _child_default(self):
            r = _DEFAULT.get(id(self))
            return None if r is None else r()

        # value semantics per case: two pool objects are `==` iff they are in the same
        # class of the case header (by default every object is alone in its class, i.e.
        # `==` is identity).  Small distinct hashes: a set of pool objects in distinct
        # classes iterates in pool order.
        def __eq__(self, other):
            if other is self:
                return True
            a, b = _EQ.get(id(self)), _EQ.get(id(other))
            return a is not None and a == b

        def __ne__(self, other):
            return not self.__eq__(other)

        def __hash__(self):
            return _EQ.get(id(self), 7)

    # Nothing in the statements depends on an object's truth value: a share of the cases
    # (crc32 of the case line) runs with pool objects that are alive but FALSY.
    class FalsyNode(Node):
        def __bool__(self):
            return False

    class SizedNode(Node):
        # container-like: falsy while `kids` is empty or not yet materialised
        def __len__(self):
            return len(self.__dict__.get("kids") or ())

    _NODE.extend([Node, FalsyNode, SizedNode])
    return Node


def node_variant(case):
    """0: plain, 1: always falsy (__bool__), 2: falsy while empty (__len__)."""
    return {0: 1, 1: 2}.get(zlib.crc32(case.encode()) % 5, 0)


# --------------------------------------------------------------------------- expressions

def parse_rpn(tokens):
    """-> AST: ('t', name, notify, optional) | ('li'|'di'|'si', notify, optional) |
    ('any'|'meta', notify) | ('then', a, b) | ('or', a, b)"""
    st = []
    for t in tokens:
        if t == "then" or t == "or":
            b = st.pop()
            a = st.pop()
            st.append((t, a, b))
            continue
        p = t.split(".")
        if p[0] == "t":
            st.append(("t", p[1], p[2] == "1", p[3] == "1"))
        elif p[0] in ("li", "di", "si"):
            st.append((p[0], p[1] == "1", p[2] == "1"))
        elif p[0] in ("any", "meta"):
            st.append((p[0], p[1] == "1"))
        else:
            raise ValueError("bad token " + t)
    if len(st) != 1:
        raise ValueError("bad rpn")
    return st[0]


def rpn_of(ast):
    k = ast[0]
    if k in ("then", "or"):
        return rpn_of(ast[1]) + rpn_of(ast[2]) + [k]
    if k == "t":
        return ["t.%s.%d.%d" % (ast[1], ast[2], ast[3])]
    if k in ("li", "di", "si"):
        return ["%s.%d.%d" % (k, ast[1], ast[2])]
    return ["%s.%d" % (k, ast[1])]


def real_expr(ast):
    """The same expression built with the public expression objects."""
    from traits.observation import api as A
    k = ast[0]
    if k == "then":
        return real_expr(ast[1]).then(real_expr(ast[2]))
    if k == "or":
        return real_expr(ast[1]) | real_expr(ast[2])
    if k == "t":
        return A.trait(ast[1], notify=ast[2], optional=ast[3])
    if k == "li":
        return A.list_items(notify=ast[1], optional=ast[2])
    if k == "di":
        return A.dict_items(notify=ast[1], optional=ast[2])
    if k == "si":
        return A.set_items(notify=ast[1], optional=ast[2])
    if k == "any":
        return A.anytrait(notify=ast[1])
    if k == "meta":
        return A.metadata("tag", notify=ast[1])
    raise ValueError(k)


def compile_ast(ast, branches=()):
    """Oracle's own reading of series / parallel: list of trees (node, children)."""
    k = ast[0]
    if k == "then":
        return compile_ast(ast[1], tuple(compile_ast(ast[2], branches)))
    if k == "or":
        return compile_ast(ast[1], branches) + compile_ast(ast[2], branches)
    # equal branches are merged, the first of each is kept (expression.py:292)
    seen, out = set(), []
    for b in branches:
        c = canon(b)
        if c not in seen:
            seen.add(c)
            out.append(b)
    return [(ast, tuple(out))]


def canon(g):
    return (g[0], frozenset(canon(c) for c in g[1]))


def canon_real(graph):
    """Canonical form of a real ObserverGraph (for the white-box comparison)."""
    from traits.observation._named_trait_observer import NamedTraitObserver
    from traits.observation._list_item_observer import ListItemObserver
    from traits.observation._dict_item_observer import DictItemObserver
    from traits.observation._set_item_observer import SetItemObserver
    from traits.observation._filtered_trait_observer import FilteredTraitObserver
    from traits.observation._anytrait_filter import anytrait_filter
    n = graph.node
    if isinstance(n, NamedTraitObserver):
        node = ("t", n.name, bool(n.notify), bool(n.optional))
    elif isinstance(n, ListItemObserver):
        node = ("li", bool(n.notify), bool(n.optional))
    elif isinstance(n, DictItemObserver):
        node = ("di", bool(n.notify), bool(n.optional))
    elif isinstance(n, SetItemObserver):
        node = ("si", bool(n.notify), bool(n.optional))
    elif isinstance(n, FilteredTraitObserver):
        node = ("any" if n.filter is anytrait_filter else "meta", bool(n.notify))
    else:
        node = ("?", type(n).__name__)
    return (node, frozenset(canon_real(c) for c in graph.children))


def node_notify(node):
    return node[2] if node[0] == "t" else node[1]


def node_mkind(node):
    return {"t": "t", "any": "t", "meta": "t", "li": "l", "di": "d", "si": "s"}[node[0]]


# --------------------------------------------------------------------------- the world

class Recorder:
    """Owner of a bound-method handler."""
    falsy = False

    def __bool__(self):
        return not self.falsy

    def __init__(self, hid, sink):
        self.hid = hid
        self.sink = sink

    def on_event(self, event):
        self.sink.append((self.hid, event))


class Queue:
    """A custom dispatcher object; `queue.dispatch` is a NEW (equal, not identical) bound
    method at every access."""

    def __init__(self):
        self.dispatched = 0

    def dispatch(self, handler, event):
        self.dispatched += 1
        handler(event)


def base(hid):
    """Handler key 10 + h = handler h registered with the queue dispatcher."""
    return hid % 10


class World:
    def __init__(self, n, dflts, classes=None, fresh_class=False, variant=0, shared=None):
        _INDEX.clear()
        _DEFAULT.clear()
        _EQ.clear()
        node_class()
        Node = _NODE[variant]
        self.variant = variant
        if fresh_class:
            # an ad-hoc attribute defines a trait on the concrete CLASS: one class per case
            Node = type("NodeX", (Node,), {})
        if shared is not None:
            # a class of its own whose `shared` trait has a pool object as its constant default
            Node = type("NodeS", (Node,), {})
        self.n = n
        self.pool = [Node() for _ in range(n)]
        self.shared = shared
        if shared is not None:
            from traits.api import Any
            Node.add_class_trait("shared", Any(self.pool[shared]))
        self.objs = {}          # identity -> real object (pool objects and containers, strong)
        self.ids = {}           # id(real object) -> identity
        for i, o in enumerate(self.pool):
            _INDEX[id(o)] = i
            _EQ[id(o)] = i if classes is None else classes[i]
            self.objs[i] = o
            self.ids[id(o)] = i
        for i, d in enumerate(dflts):
            if d is not None:
                _DEFAULT[id(self.pool[i])] = weakref.ref(self.pool[d])
        self.dflts = list(dflts)
        self.sink = []
        self.recorders = {}
        self.dead = set()
        self.queue = Queue()
        self.seen = {}          # id(notifier) -> (notifier, hid)
        self.tmp_id = None
        self.declared = []

    # ----- identities
    def ident(self, x):
        if x is None:
            return NONE_ID
        i = self.ids.get(id(x))
        if i is None:
            from traits.trait_list_object import TraitList
            from traits.trait_dict_object import TraitDict
            from traits.trait_set_object import TraitSet
            if self.tmp_id is not None and isinstance(x, (TraitList, TraitDict, TraitSet)):
                self.register(self.tmp_id, x)
                return self.tmp_id
            return -1
        return i

    def register(self, ident, x):
        self.objs[ident] = x
        self.ids[id(x)] = ident
        if ident not in self.declared:
            self.declared.append(ident)

    def real(self, ident):
        return None if ident == NONE_ID else self.objs[ident]

    def handler(self, hid):
        hid = base(hid)
        if hid not in self.recorders:
            self.recorders[hid] = Recorder(hid, self.sink)
            self.recorders[hid].falsy = self.variant == 1      # the handler's owner is falsy too
        return self.recorders[hid].on_event

    # ----- canonical output
    def show_val(self, v):
        from traits.api import Undefined
        from traits.trait_base import Uninitialized
        if v is Uninitialized:
            return "U"
        if v is Undefined:
            return "X"
        if v is None:
            return "N"
        if isinstance(v, bool):
            return "?"
        if isinstance(v, int):
            return "i%d" % v
        if isinstance(v, str):
            return "s" + v
        return "r%d" % self.ident(v)

    def show_ids(self, xs):
        return "[" + ",".join(str(self.ident(x)) for x in xs) + "]"

    def show_kvs(self, d):
        return "[" + ",".join("%d:%d" % (int(k), self.ident(v)) for k, v in d.items()) + "]"

    def show_event(self, hid, ev):
        from traits.observation.events import (TraitChangeEvent, ListChangeEvent, DictChangeEvent,
                                               SetChangeEvent)
        if isinstance(ev, TraitChangeEvent):
            return "%d@%d.%s:%s>%s" % (hid, self.ident(ev.object), ev.name, self.show_val(ev.old),
                                       self.show_val(ev.new))
        if isinstance(ev, ListChangeEvent):
            ix = ev.index if isinstance(ev.index, int) else (ev.index.start if isinstance(ev.index, slice) else -1)
            return "%d@L%d:%d-%s+%s" % (hid, self.ident(ev.object), ix, self.show_ids(ev.removed),
                                        self.show_ids(ev.added))
        if isinstance(ev, DictChangeEvent):
            return "%d@D%d:-%s+%s" % (hid, self.ident(ev.object), self.show_kvs(ev.removed),
                                      self.show_kvs(ev.added))
        if isinstance(ev, SetChangeEvent):
            return "%d@S%d:-%s+%s" % (hid, self.ident(ev.object),
                                      self.show_ids(sorted(ev.removed, key=self.ident)),
                                      self.show_ids(sorted(ev.added, key=self.ident)))
        return "%d@?" % hid

    def drain(self):
        evs = list(self.sink)
        del self.sink[:]
        return evs

    # ----- white box
    def notifier_lists(self):
        """[(label, observable key, list of observer notifiers)] in the model's print order."""
        from traits.observation._trait_event_notifier import TraitEventNotifier
        from traits.observation._observer_change_notifier import ObserverChangeNotifier
        out = []
        for i, o in enumerate(self.pool):
            for name in o.traits():
                t = o._trait(name, 0)
                ns = (t._notifiers(False) or []) if t is not None else []
                ns = [x for x in ns if isinstance(x, (TraitEventNotifier, ObserverChangeNotifier))]
                out.append(("%d.%s" % (i, name), ("t", i, name), ns))
            for name in o._instance_traits():
                if name not in o.traits():          # "<name>_items" companions of added containers
                    ns = [x for x in (o._trait(name, 0)._notifiers(False) or [])
                          if isinstance(x, (TraitEventNotifier, ObserverChangeNotifier))]
                    out.append(("%d.%s" % (i, name), ("t", i, name), ns))
        for c in sorted(self.declared):
            x = self.objs.get(c)
            if x is None or c < 100:
                continue
            ns = [y for y in (x._notifiers(False) or [])
                  if isinstance(y, (TraitEventNotifier, ObserverChangeNotifier))]
            out.append(("%d" % c, ("c", c), ns))
        return out

    def describe(self, nt):
        """('u', hid, target, rc) | ('m', kind, hid, target, canonical graph)"""
        from traits.observation._trait_event_notifier import TraitEventNotifier
        from traits.observation import _has_traits_helpers as HH
        from traits.observation import _list_item_observer as LI
        from traits.observation import _dict_item_observer as DI
        from traits.observation import _set_item_observer as SI
        from traits.observation._trait_added_observer import TraitAddedObserver
        h = nt.handler()
        if h is not None:
            hid = h.__self__.hid
            self.seen[id(nt)] = (nt, hid)
        else:
            hid = self.seen.get(id(nt), (None, -1))[1]
        if getattr(nt.dispatcher, "__self__", None) is self.queue:
            hid += 10
        tgt = nt.target()
        tid = self.ident(tgt) if tgt is not None else -1
        if isinstance(nt, TraitEventNotifier):
            return ("u", hid, tid, nt._ref_count)
        f = nt.observer_handler
        kind = ("t" if f is HH.observer_change_handler else
                "l" if f is LI._observer_change_handler else
                "d" if f is DI._observer_change_handler else
                "s" if f is SI._observer_change_handler else
                "a" if f is TraitAddedObserver.observer_change_handler else "?")
        return ("m", kind, hid, tid, canon_real(nt.graph))

    def population(self):
        """-> (canonical string, Counter {(observable key, 'u', h, t): rc ; (obs, 'm', kind, h, t, graph): n})"""
        parts = []
        pop = collections.Counter()
        for label, key, ns in self.notifier_lists():
            if not ns:
                continue
            us, ms = [], collections.Counter()
            for nt in ns:
                d = self.describe(nt)
                if d[0] == "u":
                    us.append("u%d.%d*%d" % (d[1], d[2], d[3]))
                    pop[(key, "u", d[1], d[2])] += d[3]
                else:
                    ms["m%s%d.%d" % (d[1], d[2], d[3])] += 1
                    pop[(key, "m", d[1], d[2], d[3], d[4])] += 1
            parts.append("%s=%s" % (label, ",".join(sorted(us) + ["%s*%d" % (k, ms[k]) for k in sorted(ms)])))
        return " ".join(parts), pop

    # ----- from-scratch specification (the oracle's reading of the statement)
    def obs_key(self, x, name=None):
        if name is not None:
            return ("t", self.ident(x), name)
        return ("c", self.ident(x))

    def spec_observables(self, node, x):
        """None = the walk would raise here."""
        from traits.api import HasTraits
        from traits.trait_list_object import TraitList
        from traits.trait_dict_object import TraitDict
        from traits.trait_set_object import TraitSet
        k = node[0]
        if k == "t":
            if isinstance(x, HasTraits) and node[1] in x.traits():
                return [self.obs_key(x, node[1])]
            return [] if node[3] else None
        if k in ("li", "di", "si"):
            cls = {"li": TraitList, "di": TraitDict, "si": TraitSet}[k]
            if isinstance(x, cls):
                return [self.obs_key(x)]
            return [] if node[2] else None
        if not isinstance(x, HasTraits):
            return None
        return [self.obs_key(x, nm) for nm in self.matching(node, x)]

    def matching(self, node, x):
        if node[0] == "any":
            return list(x.traits())
        return [nm for nm, t in x.traits().items() if t.tag is not None]

    def spec_objects(self, node, x):
        from traits.api import HasTraits
        from traits.trait_list_object import TraitList
        from traits.trait_dict_object import TraitDict
        from traits.trait_set_object import TraitSet
        k = node[0]
        if k == "t":
            if isinstance(x, HasTraits) and node[1] in x.traits():
                v = x.__dict__.get(node[1])
                return [] if v is None else [v]
            return [] if node[3] else None
        if k == "li":
            return list(x) if isinstance(x, TraitList) else ([] if node[2] else None)
        if k == "di":
            return list(x.values()) if isinstance(x, TraitDict) else ([] if node[2] else None)
        if k == "si":
            return sorted(x, key=self.ident) if isinstance(x, TraitSet) else ([] if node[2] else None)
        if not isinstance(x, HasTraits):
            return None
        out = []
        for nm in self.matching(node, x):
            v = x.__dict__.get(nm)
            if v is not None:
                out.append(v)
        return out

    def spec_walk(self, g, x, key, out, visits=None, target_obs=None):
        """Count, per path, the notifiers a registration owes.  `visits` collects the
        (child graph, node) maintainer positions that sit on `target_obs`."""
        from traits.api import HasTraits
        node, children = g
        obs = self.spec_observables(node, x)
        if obs is None:
            return False
        ok = True
        for ob in obs:
            if node_notify(node):
                out[(ob, "u") + key] += 1
            for c in children:
                out[(ob, "m", node_mkind(node)) + key + (canon(c),)] += 1
                if visits is not None and ob == target_obs:
                    visits.append(c)
        if children:
            nxt = self.spec_objects(node, x)
            if nxt is None:
                return False
            for c in children:
                for y in nxt:
                    ok = self.spec_walk(c, y, key, out, visits, target_obs) and ok
        if node[0] in ("t", "any", "meta") and isinstance(x, HasTraits):
            out[(self.obs_key(x, "trait_added"), "m", "a") + key + (canon(g),)] += 1
        return ok

    def spec_population(self, ledger):
        out = collections.Counter()
        for (hid, root, g), n in ledger.items():
            for _ in range(n):
                self.spec_walk(g, self.pool[root], (hid, root), out)
        return out


def parse_ref(s):
    return None if s == "N" else int(s)


def dkey(k):
    """The (validated) dict key of entry k."""
    return "%d" % int(k)


DICT_SET_OPS = ("ds", "dsu", "du", "duu", "dio", "diou", "dsd", "dsdu")
DICT_OPS = DICT_SET_OPS + ("dd", "dp", "dpd", "dpi", "dc")
SET_OPS = ("sa", "sr", "sc", "sro", "sp", "su", "sio", "sis", "sia", "six", "sdu", "sxu")


def parse_ids(s):
    s = s.strip()[1:-1].strip()
    return [int(x) for x in s.split(",")] if s else []


def parse_kvs(s):
    s = s.strip()[1:-1].strip()
    return [tuple(int(y) for y in x.split(":")) for x in s.split(",")] if s else []


def show_ids(xs):
    return "[" + ",".join(str(x) for x in xs) + "]"


def show_kvs(kvs):
    return "[" + ",".join("%d:%d" % kv for kv in kvs) + "]"


class Skip(Exception):
    pass


def _hit(sig, what, **kw):
    d = {"signature": sig, "what": what}
    d.update(kw)
    return d


SIG_F10 = "stale-hook:mutated-link-reachable-through-itself"
SIG_F14 = "stale-hook:default-evaluated-silently-on-first-assignment"
SIG_ITEMS = "stray-notifier:items-trait-hooked-by-trait_added"
SIG_ADHOC = "unhooked-trait:ad-hoc-attribute-defined-through-another-instance"
SIG_DEL = "stale-hook:default-rematerialised-after-del"
SIG_F4 = "registration-not-rolled-back:completed-sibling-subtree"
SIG_F4_TOP = "registration-not-rolled-back:completed-sibling-graph"
SIG_F4_RM = "removal-not-rolled-back:completed-sibling-subtree"


class Runner:
    """Executes one case on the real code and evaluates the statements of C08 / C09."""

    def __init__(self, case):
        _, n, dflts, ops = case.lstrip("#").split("|")
        ents = [x.strip() for x in dflts.split(",")]
        shared = [i for i, e in enumerate(ents) if e.startswith("S")]
        ents = [e.lstrip("S") for e in ents]
        classes = [int(e.split("~")[1]) if "~" in e else i for i, e in enumerate(ents)]
        self.w = World(int(n), [parse_ref(e.split("~")[0]) for e in ents], classes,
                       fresh_class=any(o.strip().startswith("adhoc ") for o in ops.split(";")),
                       variant=node_variant(case.lstrip("#")), shared=shared[0] if shared else None)
        self.del_remat = False       # `del obj.trait` on a hooked trait re-materialised the default
        self.known_cause = None      # exact signature of a recorded finding this history ran into
        self.eq_case = len(set(classes)) < len(classes)
        self.ops = [o.strip() for o in ops.split(";") if o.strip()]
        self.ledger = collections.Counter()    # (hid, root, graph) -> active registrations
        self.hits08 = []
        self.hits09 = []
        self.tags = set()
        self.selfreach = False       # some mutation so far violated NoSelfReach
        self.tainted = False         # a non-atomic failure left the hooks outside every ledger
        self.stale = False           # C08 already reported hooks != reachability in this history
        self.shadow_default = False  # an unhooked default was "removed" on first assignment
        # NoSelfReach failed AND what the real code did at this op is / is not what the documented
        # maintainer algorithm (snapshot dispatch, walks in the current heap) yields: True / False;
        # None = not evaluated for this op
        self.f10_class = None
        self.last_pop = None         # notifier populations at the end of the previous op
        if self.eq_case:
            self.tags.add("eq-classes")
        if self.w.variant:
            self.tags.add("falsy-objects:" + ("bool" if self.w.variant == 1 else "len"))

    # ------------------------------------------------------------------ ops
    def obj_default(self, o, name):
        """The EXISTING object the default of o.name is (dynamic default of child / mate, constant
        default of shared), or None."""
        if name in ("child", "mate"):
            r = _DEFAULT.get(id(o))
            return None if r is None else r()
        if name == "shared" and self.w.shared is not None:
            return self.w.pool[self.w.shared]
        return None

    def default_of(self, o, name):
        if name in ("child", "mate", "shared"):
            return self.obj_default(o, name)
        return {"value": 0, "extra": 0, "kids": [], "tkids": [], "l2": [], "byname": {}, "group": set()}.get(name)

    def container(self, ident, cls):
        x = self.w.objs.get(ident)
        if ident < 100 or not isinstance(x, cls):
            raise Skip()
        return x

    def pre_mutation(self, opw):
        """Information the NoSelfReach test needs from the heap BEFORE the op:
        (observable key, old values, maintained child graphs with their key,
        what those child graphs reach from the old / new values now)."""
        w = self.w
        k = opw[0]
        from traits.trait_list_object import TraitList
        from traits.trait_dict_object import TraitDict
        from traits.trait_set_object import TraitSet
        target = None
        olds, news = [], []
        try:
            if k in ("set", "seti", "setl", "setd", "sets", "get", "del"):
                o = w.pool[int(opw[1])]
                name = opw[2]
                if name not in o.traits():
                    return None
                target = w.obs_key(o, name)
                cur = o.__dict__.get(name)
                if name in o.__dict__:
                    olds = [cur] if cur is not None else []
                    if k == "del" and self.obj_default(o, name) is not None:
                        news = [self.obj_default(o, name)]
                elif self.obj_default(o, name) is not None:
                    olds = [self.obj_default(o, name)] if k not in ("get", "del") else []
                    if k == "get":
                        news = [self.obj_default(o, name)]
                if k == "set" and opw[3] != "N":
                    news = [w.real(int(opw[3]))]
            elif k in ("la", "li", "ld", "ls", "lc", "le", "lsl", "lst"):
                c = w.objs.get(int(opw[1]))
                if not isinstance(c, TraitList):
                    return None
                target = w.obs_key(c)
                if k == "la":
                    news = [w.real(int(opw[2]))]
                elif k == "li":
                    news = [w.real(int(opw[3]))]
                elif k == "ld":
                    olds = [c[int(opw[2])]] if int(opw[2]) < len(c) else []
                elif k == "ls":
                    olds = [c[int(opw[2])]] if int(opw[2]) < len(c) else []
                    news = [w.real(int(opw[3]))]
                elif k == "lc":
                    olds = list(c)
                elif k == "le":
                    news = [w.real(i) for i in parse_ids(opw[2])]
                elif k == "lsl":
                    olds = list(c[int(opw[2]):int(opw[3])])
                    news = [w.real(i) for i in parse_ids(opw[4])]
                elif k == "lst":
                    olds = list(c[int(opw[2])::int(opw[3])])
                    news = [w.real(i) for i in parse_ids(opw[4])]
            elif k in ("ds", "dd", "dc"):
                c = w.objs.get(int(opw[1]))
                if not isinstance(c, TraitDict):
                    return None
                target = w.obs_key(c)
                if k == "ds":
                    key = dkey(opw[2])
                    olds = [c[key]] if key in c else []
                    news = [w.real(int(opw[3]))]
                elif k == "dd":
                    key = dkey(opw[2])
                    olds = [c[key]] if key in c else []
                else:
                    olds = list(c.values())
            elif k in ("sa", "sr", "sc"):
                c = w.objs.get(int(opw[1]))
                if not isinstance(c, TraitSet):
                    return None
                target = w.obs_key(c)
                x = w.real(int(opw[2])) if k != "sc" else None
                if k == "sa":
                    news = [] if x in c else [x]
                elif k == "sr":
                    olds = [x] if x in c else []
                else:
                    olds = list(c)
            else:
                return None
        except (IndexError, KeyError, ValueError):
            return None
        visits = []
        for (hid, root, g), n in self.ledger.items():
            self.w.spec_walk(g, w.pool[root], (hid, root), collections.Counter(), visits, target)
        if not visits:
            return None
        info = {"target": target, "olds": [x for x in olds if x is not None],
                "news": [x for x in news if x is not None], "visits": visits,
                "any_old": bool(olds), "any_new": bool(news)}
        self.check_selfreach(info)
        return info

    def canon_op(self, p):
        """The same mutation written with the basic mutators (ds / dd / sa / sr), for the
        NoSelfReach test and the delivery oracle; None when it changes nothing / is skipped."""
        w = self.w
        k = p[0]
        if k not in DICT_OPS + SET_OPS or k in ("ds", "dd", "dc", "sa", "sr", "sc"):
            return p
        c = w.objs.get(int(p[1]))
        if k in DICT_OPS:
            if not isinstance(c, dict):
                return None
            if k in DICT_SET_OPS:
                if k == "dsd" and dkey(p[2]) in c:
                    return None
                return ["ds"] + p[1:]
            if k == "dpi":
                return ["dd", p[1], list(c)[-1]] if c else None
            if k == "dpd" and dkey(p[2]) not in c:
                return None
            return ["dd"] + p[1:]
        if not isinstance(c, set):
            return None
        if k == "sp":
            return ["sr", p[1], str(w.ident(list(c)[0]))] if len(c) == 1 else None
        x = w.real(int(p[2]))
        if k in ("su", "sio"):
            return ["sa"] + p[1:]
        if k in ("six", "sxu"):
            return ["sr" if x in c else "sa"] + p[1:]
        return ["sr"] + p[1:]

    # ---- the F10 class: what the maintainers of the pinned tree do, replayed on the populations
    def maint_snapshot(self, o, name):
        """The trait maintainers on o.name as call_notifiers will copy them: [(hid, target, graph)]."""
        from traits.observation._observer_change_notifier import ObserverChangeNotifier
        from traits.observation import _has_traits_helpers as HH
        t = o._trait(name, 0)
        out = []
        for nt in ((t._notifiers(False) or []) if t is not None else []):
            if isinstance(nt, ObserverChangeNotifier) and nt.observer_handler is HH.observer_change_handler:
                d = self.w.describe(nt)
                out.append((d[2], d[3], d[4]))
        return out

    def live(self, c):
        dead = self.w.dead
        return collections.Counter({k: n for k, n in c.items()
                                    if base(k[2] if k[1] == "u" else k[3]) not in dead and n > 0})

    def predict_snapshot(self, pop, snap, old, new):
        """observer_change_handler (_has_traits_helpers.py:74-112) for every maintainer of the SNAPSHOT,
        in order, on the populations `pop`: the graph below the old value is removed as the CURRENT heap
        shows it (a NotifierNotFound is swallowed, the failed removal having rolled itself back), then
        the graph below the new value is added.  None: some walk raises."""
        from traits.api import Undefined
        from traits.trait_base import Uninitialized
        w = self.w
        P = collections.Counter(pop)
        for hid, tid, g in snap:
            if base(hid) in w.dead or tid < 0:
                continue
            if old is not None and old is not Undefined and old is not Uninitialized:
                items = collections.Counter()
                if not w.spec_walk(g, old, (hid, tid), items):
                    return None
                if all(P[k] >= n for k, n in items.items()):
                    P = P - items
            if new is not None and new is not Undefined and new is not Uninitialized:
                items = collections.Counter()
                if not w.spec_walk(g, new, (hid, tid), items):
                    return None
                P = P + items
        return P

    def cont_snapshot(self, c):
        """The notifier list of container c when notify() starts, in order: ('u', hid, target) |
        ('m', kind, hid, target, graph) | ('x',) for anything else (the `name_items` notifier)."""
        from traits.observation._observer_change_notifier import ObserverChangeNotifier
        from traits.observation._trait_event_notifier import TraitEventNotifier
        out = []
        for nt in (c._notifiers(False) or []):
            if isinstance(nt, (TraitEventNotifier, ObserverChangeNotifier)):
                d = self.w.describe(nt)
                out.append(("u", d[1], d[2]) if d[0] == "u" else d)
            else:
                out.append(("x",))
        return out

    def predict_cont(self, pop, snap, ckey, olds, news):
        """TraitList / TraitDict / TraitSet.notify: `for notifier in self.notifiers` over the LIVE list
        (an entry removed at or before the current position makes the loop skip the next one, an entry
        appended during the dispatch is called too); each item maintainer
        (_list/_dict/_set_item_observer._observer_change_handler) walks the removed items with remove=True,
        then the added items with remove=False; the first exception propagates (None)."""
        w = self.w
        P = collections.Counter(pop)
        L = list(snap)
        idx = 0
        fuel = 200
        while idx < len(L) and fuel:
            fuel -= 1
            e = L[idx]
            if e[0] == "m" and base(e[2]) not in w.dead and e[3] >= 0:
                _, kind, hid, tid, g = e
                for x, rm in [(x, True) for x in olds] + [(x, False) for x in news]:
                    items = collections.Counter()
                    if not w.spec_walk(g, x, (hid, tid), items):
                        return None
                    for k, n in items.items():
                        own = k[0] == ckey
                        for _ in range(n):
                            if rm:
                                if P[k] <= 0:
                                    return None
                                P[k] -= 1
                                if own and k[1] == "m":
                                    L.remove(("m",) + tuple(k[2:]))
                                elif own and P[k] == 0:
                                    L.remove(("u", k[2], k[3]))
                            else:
                                if own and (k[1] == "m" or P[k] == 0):
                                    L.append(("m",) + tuple(k[2:]) if k[1] == "m" else ("u", k[2], k[3]))
                                P[k] += 1
            idx += 1
        return P if fuel else None

    def added_snapshot(self, o):
        """The trait_added maintainers on o: [(hid, target, graph incl. the contributing node)]."""
        from traits.observation._observer_change_notifier import ObserverChangeNotifier
        from traits.observation._trait_added_observer import TraitAddedObserver
        t = o._trait("trait_added", 0)
        out = []
        for nt in ((t._notifiers(False) or []) if t is not None else []):
            if isinstance(nt, ObserverChangeNotifier) and \
                    nt.observer_handler is TraitAddedObserver.observer_change_handler:
                d = self.w.describe(nt)
                out.append((d[2], d[3], d[4]))
        return out

    def predict_added(self, pop, snap, o, names):
        """TraitAddedObserver.observer_change_handler for every announced name: when the node of the graph
        matches the new trait, the graph restricted to that one trait is walked from o with remove=False
        (the restricted root contributes no trait_added maintainer of its own)."""
        w = self.w
        P = collections.Counter(pop)
        for name in names:
            tr = o.trait(name)
            for hid, tid, g in snap:
                if base(hid) in w.dead or tid < 0:
                    continue
                node, children = g
                if node[0] == "t":
                    match = node[1] == name
                elif node[0] == "any":
                    match = not name.endswith("_items")
                else:
                    match = not name.endswith("_items") and tr is not None and tr.tag is not None
                if not match:
                    continue
                rg = (("t", name, node_notify(node), False), children)
                items = collections.Counter()
                if not w.spec_walk(rg, o, (hid, tid), items):
                    return None
                own = (w.obs_key(o, "trait_added"), "m", "a", hid, tid, canon(rg))
                items[own] -= 1
                P = P + collections.Counter({k: n for k, n in items.items() if n > 0})
        return P

    def classify_pred(self, pred):
        """`pred`: what the documented algorithm leaves (None: not evaluated).  Only called in a history
        where NoSelfReach has failed."""
        if not self.selfreach or not self.check_reach() or self.last_pop is None or self.shadow_default:
            return
        _, pop = self.w.population()
        if self.live(pop) == self.live(self.w.spec_population(self.ledger)):
            return
        if pred is not None:
            self.f10_class = self.live(pred) == self.live(pop)
            self.tags.add("selfreach:as-documented" if self.f10_class else "selfreach:NOT-as-documented")
            self.tags.add("selfreach-replay:" + self.cur_kind)
        else:
            self.tags.add("selfreach-by-presence:" + self.cur_kind)

    def classify_selfreach(self, snap, old, new, notified):
        """After an assignment in a history where NoSelfReach has failed: do the populations differ from
        the from-scratch walk, and if so, are they what the documented algorithm leaves (the F10 class)?"""
        if not self.selfreach or not self.check_reach() or self.last_pop is None or snap is None \
                or self.shadow_default:
            return
        _, pop = self.w.population()
        if self.live(pop) == self.live(self.w.spec_population(self.ledger)):
            return
        try:
            pred = self.predict_snapshot(self.last_pop, snap if notified else [], old, new)
        except Exception:
            pred = None
        if pred is not None:
            self.f10_class = self.live(pred) == self.live(pop)
            self.tags.add("selfreach:as-documented" if self.f10_class else "selfreach:NOT-as-documented")

    def check_selfreach(self, info):
        """NoSelfReach fails when a maintained child graph, walked from an old or new
        value, reaches the mutated observable itself."""
        if info is None or self.selfreach:
            return
        for c in info["visits"]:
            for v in info["olds"] + info["news"]:
                out = collections.Counter()
                self.w.spec_walk(c, v, (0, 0), out)
                if any(k[0] == info["target"] for k in out):
                    self.selfreach = True
                    self.tags.add("selfreach")
                    return

    def apply(self, op):
        """-> status string.  Deliveries accumulate in the sink."""
        from traits.api import Int, Instance, HasTraits
        from traits.trait_list_object import TraitList
        from traits.trait_dict_object import TraitDict
        from traits.trait_set_object import TraitSet
        w = self.w
        p = op.split()
        k = p[0]
        self.tags.add("op:" + k)
        w.tmp_id = None
        if k in ("set", "seti", "setl", "setd", "sets"):
            o = w.pool[int(p[1])]
            name = p[2]
            if name not in o.traits():
                raise Skip()
            was_unset = name not in o.__dict__
            if k == "set":
                v = None if p[3] == "N" else w.real(int(p[3]))
            elif k == "seti":
                v = int(p[3])
            elif k == "setl":
                v = [w.real(i) for i in parse_ids(p[4])]
            elif k == "setd":
                v = dict((dkey(a), w.real(b)) for a, b in parse_kvs(p[4]))
            else:
                v = set(w.real(i) for i in parse_ids(p[4]))
            if k in ("setl", "setd", "sets"):
                w.tmp_id = int(p[3]) + 1
            t = o._trait(name, 0)
            hooked = bool(t is not None and t._notifiers(False))
            if was_unset and hooked and self.obj_default(o, name) is not None:
                # setattr_trait evaluates the default as the old value; its subtree is
                # "removed" although it was never hooked through this link
                self.shadow_default = True
                self.tags.add("shadow-default")
            try:
                setattr(o, name, v)
            finally:
                if k in ("setl", "setd", "sets"):
                    new = o.__dict__.get(name)
                    if new is not None and id(new) not in w.ids:
                        w.register(int(p[3]), new)
            return
        if k == "get":
            o = w.pool[int(p[1])]
            name = p[2]
            if name not in o.traits():
                raise Skip()
            try:
                getattr(o, name)
            finally:
                new = o.__dict__.get(name)
                if isinstance(new, (TraitList, TraitDict, TraitSet)) and id(new) not in w.ids:
                    w.register(int(p[3]), new)
            return
        if k == "del":
            o = w.pool[int(p[1])]
            name = p[2]
            if name not in o.traits() or name in INT_FIELDS:
                raise Skip()
            # the notifier list of the trait exists (as after any earlier registration on it):
            # delattr then takes the notifying path whether or not a notifier is left
            t = o._trait(name, 2)
            t._notifiers(True)
            if name in o.__dict__ and t._notifiers(False):
                # setattr_trait (delete) reads the attribute back through getattr_trait, which
                # announces the new default on its own, and then announces old -> default again
                self.del_remat = True
                self.shadow_default = True
                self.tags.add("del-rematerialised")
            try:
                delattr(o, name)
            finally:
                new = o.__dict__.get(name)
                if isinstance(new, (TraitList, TraitDict, TraitSet)) and id(new) not in w.ids:
                    w.register(int(p[3]), new)
            return
        if k == "addt":
            o = w.pool[int(p[1])]
            name = p[2]
            md = TAG_CODES[int(p[3])]
            if name == "l2":
                from traits.api import List
                o.add_trait(name, List(Instance(HasTraits), **md))
            else:
                o.add_trait(name, Int(**md) if name == "extra" else Instance(HasTraits, **md))
            return
        if k in ("la", "li", "ld", "ls", "lc", "le", "lsl", "lst"):
            c = self.container(int(p[1]), TraitList)
            if k == "la":
                c.append(w.real(int(p[2])))
            elif k == "li":
                if int(p[2]) > len(c):
                    raise Skip()
                c.insert(int(p[2]), w.real(int(p[3])))
            elif k == "ld":
                if int(p[2]) >= len(c):
                    raise Skip()
                del c[int(p[2])]
            elif k == "ls":
                if int(p[2]) >= len(c):
                    raise Skip()
                c[int(p[2])] = w.real(int(p[3]))
            elif k == "lc":
                c.clear()
            elif k == "lsl":
                i, j = int(p[2]), int(p[3])
                if not (i <= j <= len(c)):
                    raise Skip()
                c[i:j] = [w.real(x) for x in parse_ids(p[4])]
            elif k == "lst":
                i, step = int(p[2]), int(p[3])
                xs = [w.real(x) for x in parse_ids(p[4])]
                if step < 2 or not xs or len(range(i, len(c), step)) != len(xs):
                    raise Skip()
                c[i::step] = xs
            else:
                c.extend([w.real(i) for i in parse_ids(p[2])])
            return
        if k in DICT_OPS:
            # every mutator of TraitDict, in place on the object (through the local name `c`);
            # a name ending in `u` passes the key un-cast (int k for the entry "<k>")
            c = self.container(int(p[1]), TraitDict)
            if k in DICT_SET_OPS:
                key = int(p[2]) if k.endswith("u") and k != "du" else dkey(p[2])
                x = w.real(int(p[3]))
                if k in ("ds", "dsu"):
                    c[key] = x
                elif k in ("du", "duu"):
                    c.update({key: x})
                elif k in ("dio", "diou"):
                    c |= {key: x}
                else:
                    c.setdefault(key, x)
            elif k in ("dd", "dp"):
                if dkey(p[2]) not in c:
                    raise Skip()
                if k == "dd":
                    del c[dkey(p[2])]
                else:
                    c.pop(dkey(p[2]))
            elif k == "dpd":
                c.pop(dkey(p[2]), None)
            elif k == "dpi":
                if not c:
                    raise Skip()
                c.popitem()
            else:
                c.clear()
            return
        if k in SET_OPS:
            c = self.container(int(p[1]), TraitSet)
            x = w.real(int(p[2])) if k not in ("sc", "sp") else None
            if k == "sa":
                c.add(x)
            elif k == "sr":
                c.discard(x)
            elif k == "sro":
                if x not in c:
                    raise Skip()
                c.remove(x)
            elif k == "sp":
                if len(c) != 1:          # which item pop() takes is only determined for a singleton
                    raise Skip()
                c.pop()
            elif k == "su":
                c.update({x})
            elif k == "sio":
                c |= {x}
            elif k == "sis":
                c -= {x}
            elif k == "sia":
                c &= (set(c) - {x})
            elif k == "six":
                c ^= {x}
            elif k == "sdu":
                c.difference_update({x})
            elif k == "sxu":
                c.symmetric_difference_update({x})
            else:
                c.clear()
            return
        if k == "adhoc":
            # an attribute that is no declared trait: HasTraits defines a trait for it on the class
            setattr(w.pool[int(p[1])], "adhoc", int(p[2]))
            return
        if k == "kill":
            hid = int(p[1])
            w.recorders.pop(hid, None)
            w.dead.add(hid)
            gc.collect()
            return
        raise ValueError("unknown op " + op)

    def observe(self, op):
        """obs / unobs with the C09 oracle around it."""
        w = self.w
        p = op.split()
        rm = p[0] == "unobs"
        hid, root = int(p[1]), int(p[2])
        ast = parse_rpn(p[3:])
        self.tags.add("op:" + p[0])
        for tok in p[3:]:
            q = tok.split(".")
            self.tags.add("x:" + q[0])
            if q[0] == "t" and q[2] == "0" or q[0] in ("li", "di", "si", "any", "meta") and q[1] == "0":
                self.tags.add("x:quiet")
            if q[0] == "t" and q[3] == "1":
                self.tags.add("x:optional")
        if base(hid) in w.dead:
            raise Skip()
        _, before = w.population()
        try:
            graphs = compile_ast(ast)
        except Exception:
            graphs = None
        exc = None
        try:
            if hid >= 10:
                # through the functional API with a custom, equal-but-not-identical dispatcher
                from traits.observation.api import observe as api_observe
                api_observe(w.pool[root], real_expr(ast), w.handler(hid), remove=rm,
                            dispatcher=w.queue.dispatch)
            else:
                w.pool[root].observe(w.handler(hid), real_expr(ast), remove=rm)
        except Exception as e:
            exc = e
        _, after = w.population()
        keys = [(hid, root, canon(g)) for g in graphs]
        own_before = sum(n for kk, n in self.ledger.items() if kk[0] == hid and kk[1] == root)
        if exc is None:
            if not rm:
                for g in graphs:
                    self.ledger[(hid, root, g)] += 1
            else:
                need = collections.Counter((hid, root, g) for g in graphs)
                by_canon = collections.Counter()
                for kk, n in self.ledger.items():
                    by_canon[(kk[0], kk[1], canon(kk[2]))] += n
                needc = collections.Counter(keys)
                if all(by_canon[kc] >= n for kc, n in needc.items()):
                    for kc, n in needc.items():
                        for _ in range(n):
                            for kk in list(self.ledger):
                                if (kk[0], kk[1], canon(kk[2])) == kc and self.ledger[kk] > 0:
                                    self.ledger[kk] -= 1
                                    if not self.ledger[kk]:
                                        del self.ledger[kk]
                                    break
                elif own_before == 0 and not self.tainted and not self.selfreach and not self.shadow_default:
                    if before:
                        pass
                    # nothing registered for this handler/target, yet the removal "worked":
                    # allowed only when the expression owes no notifier at all
                    if after != before:
                        self.hits09.append(_hit("remove-without-registration-succeeded",
                                                "unregistering a handler that is not registered raised nothing and changed the notifiers",
                                                op=op))
                else:
                    # overlapping, never-registered expression: outside the statement
                    self.tainted = True
                    self.tags.add("overlap-remove")
            return "ok"
        self.tags.add("obs-err:" + exc_name(exc))
        # ---- a call that raised must leave no trace (C09 failure atomicity)
        if after != before:
            # (judged whatever happened before: the comparison is local to this call)
            # which sibling completed? top-level graph vs subtree
            if rm:
                sig = SIG_F4_RM
            elif len(graphs) > 1 and self._first_graphs_complete(graphs, root, hid, before, after):
                sig = SIG_F4_TOP
            else:
                sig = SIG_F4
            if not rm and not self._only_sibling_subtrees(graphs, root, hid, after - before):
                # more than completed sibling subtrees stayed behind: the failing
                # call's own undo log was not applied
                sig = "registration-not-rolled-back:own-hooks-left"
            # (no attribution to F10 / F80 here: since fix 4ea62e3 a raising call is rolled
            # back whatever state the hooks were in)
            self.hits09.append(_hit(sig, "%s raised %s but the notifier populations changed" % (
                "observe(remove=True)" if rm else "observe", exc_name(exc)),
                op=op, left_behind=sorted(str(k) for k in (after - before).keys())[:6],
                missing=sorted(str(k) for k in (before - after).keys())[:6]))
            self.tainted = True
            self.tags.add("non-atomic")
        if rm and exc_name(exc) == "NotifierNotFound":
            self.tags.add("extra-remove")
        elif rm and not self.tainted and not self.selfreach and not self.shadow_default:
            pass
        # the two checks below presuppose that the walk of the expression meets no failing
        # iter_* in the CURRENT heap (else the removal legitimately raises, and changes nothing)
        walk_ok = graphs is not None and all(
            w.spec_walk(g, w.pool[root], (hid, root), collections.Counter()) for g in graphs)
        if not walk_ok:
            self.tags.add("unobs-walk-fails")
        if rm and walk_ok and exc_name(exc) != "NotifierNotFound" and not self.tainted and not self.selfreach and not self.shadow_default:
            by_canon = collections.Counter()
            for kk, n in self.ledger.items():
                by_canon[(kk[0], kk[1], canon(kk[2]))] += n
            if all(by_canon[kc] >= n for kc, n in collections.Counter(keys).items()):
                self.hits09.append(_hit("registered-removal-raised:" + exc_name(exc),
                                        "unregistering an active registration raised", op=op))
        if rm and walk_ok and exc_name(exc) != "NotifierNotFound" and not self.tainted and not self.selfreach \
                and not self.shadow_default:
            by_canon = collections.Counter()
            for kk, n in self.ledger.items():
                by_canon[(kk[0], kk[1], canon(kk[2]))] += n
            if not all(by_canon[kc] >= n for kc, n in collections.Counter(keys).items()):
                self.hits09.append(_hit("unregistered-removal-raised:" + exc_name(exc),
                                        "unregistering something that is not (fully) registered raised %s, not "
                                        "NotifierNotFound" % exc_name(exc), op=op))
        if rm and walk_ok and exc_name(exc) == "NotifierNotFound" and not self.tainted and not self.selfreach and not self.shadow_default:
            by_canon = collections.Counter()
            for kk, n in self.ledger.items():
                by_canon[(kk[0], kk[1], canon(kk[2]))] += n
            if all(by_canon[kc] >= n for kc, n in collections.Counter(keys).items()) and keys:
                self.hits09.append(_hit(self.known_cause or "registered-removal-not-found",
                                        "unregistering an active registration raised NotifierNotFound", op=op))
        return "err " + exc_name(exc)

    def _only_sibling_subtrees(self, graphs, root, hid, left):
        """F4 leaves behind only what completed SIBLING walks registered: whole earlier
        graphs, and for the last graph nothing the root node itself hooked."""
        w = self.w
        allowed = collections.Counter()
        for g in graphs[:-1]:
            w.spec_walk(g, w.pool[root], (hid, root), allowed)
        node, children = graphs[-1]
        nxt = w.spec_objects(node, w.pool[root]) if children else []
        for c in children:
            for y in (nxt or []):
                w.spec_walk(c, y, (hid, root), allowed)
        return all(allowed[k] >= n for k, n in left.items())

    def _first_graphs_complete(self, graphs, root, hid, before, after):
        """Is what stayed behind exactly the population of a proper prefix of the
        top-level graphs?"""
        w = self.w
        acc = collections.Counter()
        for g in graphs[:-1]:
            w.spec_walk(g, w.pool[root], (hid, root), acc)
            if self._as_pop(acc) == (after - before):
                return True
        return False

    @staticmethod
    def _as_pop(spec):
        out = collections.Counter()
        for k, n in spec.items():
            out[k] += n
        return out

    # ------------------------------------------------------------------ probing + oracle
    def probe(self):
        """Bump every Int trait of every pool object; returns canonical delivery strings
        and evaluates C08 on each bump."""
        w = self.w
        out = []
        spec = w.spec_population(self.ledger) if self.check_reach() else None
        for i, o in enumerate(w.pool):
            for name in INT_FIELDS:
                if name not in o.traits():
                    continue
                try:
                    v = getattr(o, name)
                except Exception as e:
                    out += [w.show_event(h, ev) for h, ev in w.drain()]
                    out.append("!%d.%s:%s" % (i, name, exc_name(e)))
                    self.tags.add("probe-err:" + exc_name(e))
                    continue
                out += [w.show_event(h, ev) for h, ev in w.drain()]
                err = None
                try:
                    setattr(o, name, v + 1)
                except Exception as e:
                    err = e
                evs = w.drain()
                out += [w.show_event(h, ev) for h, ev in evs]
                if err is not None:
                    out.append("!%d.%s:%s" % (i, name, exc_name(err)))
                    self.tags.add("probe-err:" + exc_name(err))
                # ---- C08: called exactly once iff reachable; event identifies the change
                for h, ev in evs:
                    if not (getattr(ev, "object", None) is o and getattr(ev, "name", None) == name
                            and getattr(ev, "old", None) == v and getattr(ev, "new", None) == v + 1):
                        self.hits08.append(_hit("event-misidentifies-change",
                                                "the delivered event does not describe the trait that changed",
                                                expected="%d.%s %d>%d" % (i, name, v, v + 1),
                                                observed=w.show_event(h, ev)))
                if spec is not None and err is None:
                    ob = ("t", i, name)
                    got = collections.Counter(h for h, _ in evs)
                    want = collections.Counter()
                    for k, n in spec.items():
                        if k[0] == ob and k[1] == "u" and n > 0 and base(k[2]) not in w.dead:
                            want[base(k[2])] += 1
                    if got != want:
                        self.reach_hit("fires-iff-reachable", "bump of %d.%s: handler calls %s, reachable for %s" % (
                            i, name, dict(got), dict(want)))
        return out

    def probe_sparse(self):
        """Probe after a pool object was collected: the remaining objects only."""
        w = self.w
        keep = w.pool
        out = []
        spec = collections.Counter()
        for (hid, root, g), n in self.ledger.items():
            for _ in range(n):
                w.spec_walk(g, keep[root], (hid, root), spec)
        for i, o in enumerate(keep):
            if o is None:
                continue
            for name in INT_FIELDS:
                if name not in o.traits():
                    continue
                try:
                    v = getattr(o, name)
                    w.drain()
                    setattr(o, name, v + 1)
                except Exception as e:
                    out.append("!%d.%s:%s" % (i, name, exc_name(e)))
                    continue
                evs = w.drain()
                got = collections.Counter(h for h, _ in evs)
                want = collections.Counter()
                for k, n in spec.items():
                    if k[0] == ("t", i, name) and k[1] == "u" and n > 0 and base(k[2]) not in w.dead:
                        want[base(k[2])] += 1
                if got != want:
                    self.hits08.append(_hit("gc:calls-after-collection", "bump of %d.%s: handler calls %s, expected %s" % (
                        i, name, dict(got), dict(want))))
        return out

    def check_reach(self):
        return not (self.tainted or self.stale)

    def reach_hit(self, kind, what):
        if self.known_cause:
            sig = self.known_cause
        elif self.selfreach and self.f10_class is not False:
            # (f10_class None: a container mutation / an op the replay does not cover)
            sig = SIG_F10
        elif self.selfreach:
            # NoSelfReach failed, but the hooks are NOT what the maintainers of the pinned tree leave
            sig = "hooks-differ-from-reachability:%s:%s:self-reach-not-as-documented" % (kind, self.cur_kind)
        elif self.del_remat:
            sig = SIG_DEL
        elif self.shadow_default:
            sig = SIG_F14
        else:
            sig = "hooks-differ-from-reachability:%s:%s" % (kind, self.cur_kind)
        self.hits08.append(_hit(sig, what, after_op=self.cur_op))
        # one report per history is enough; later states inherit the discrepancy.  (C09's
        # own checks go on: a removal that then fails or leaves a residue is its subject.)
        self.stale = True

    def whitebox(self, pop):
        """C08 refinement invariant on the real objects: reference counts = number
        of paths, maintainers = one per path and child, nothing anywhere else."""
        if not self.check_reach():
            return
        dead = self.w.dead

        def live(c):
            # hooks of a collected handler are no longer maintained (nor ever called)
            return collections.Counter({k: n for k, n in c.items()
                                        if base(k[2] if k[1] == "u" else k[3]) not in dead and n > 0})
        spec = live(self.w.spec_population(self.ledger))
        pop = live(pop)
        if spec != pop:
            extra = sorted(str(k) + "*%d" % n for k, n in (pop - spec).items())[:4]
            missing = sorted(str(k) + "*%d" % n for k, n in (spec - pop).items())[:4]
            ek, mk = list((pop - spec).keys()), list((spec - pop).keys())
            if ek and not mk and all(k[0][0] == "t" and k[0][2].endswith("_items") and k[0][2] != "items" for k in ek):
                self.known_cause = SIG_ITEMS
            elif mk and not ek and all(k[0][0] == "t" and k[0][2] == "adhoc" for k in mk):
                self.known_cause = SIG_ADHOC
            self.reach_hit("notifier-population", "notifiers differ from the from-scratch walk: extra %s missing %s" % (
                extra, missing))

    def delivery_oracle(self, op, status, evs, pre):
        """Deliveries caused by the mutation itself: exactly one event per handler key
        whose notifying node reaches the mutated observable (C08 container events,
        quiet links), and none otherwise."""
        if pre is None or not self.check_reach() or not status.startswith("ok"):
            return
        if self.pre_spec is None:
            return
        ob = pre["target"]
        want = collections.Counter()
        for k, n in self.pre_spec.items():
            if k[0] == ob and k[1] == "u" and n > 0 and base(k[2]) not in self.w.dead:
                want[base(k[2])] += 1
        got = collections.Counter(h for h, _ in evs)
        p = self.cur_canon or op.split()
        changed = True
        if p[0] in ("set", "seti", "setl", "setd", "sets", "del"):
            changed = self.set_changed
        elif p[0] == "get":
            changed = False      # a default is not a change
        elif p[0] in ("lc", "dc", "sc"):
            changed = bool(pre["olds"])
        elif p[0] == "le":
            changed = bool(parse_ids(p[2]))
        elif p[0] in ("lsl", "lst"):
            changed = pre["olds"] or pre["news"]
        elif p[0] in ("sa",):
            changed = bool(pre["news"])
        elif p[0] in ("sr",):
            changed = bool(pre["olds"])
        if not changed:
            want = collections.Counter()
        if got != want:
            self.reach_hit("mutation-delivery", "%s: handler calls %s, notifying paths for %s" % (op, dict(got), dict(want)))

    def run(self):
        w = self.w
        outs = []
        for op in self.ops:
            self.cur_op = op
            self.cur_kind = op.split()[0]
            pre = None
            status = "ok"
            self.pre_spec = None
            self.cur_canon = None
            self.f10_class = None
            snap = None
            try:
                if self.cur_kind in ("obs", "unobs"):
                    ledger_before = collections.Counter(self.ledger)
                    status = self.observe(op)
                    if self.selfreach and self.check_reach() and self.last_pop is not None:
                        # the registration walk is exact: previous populations +- the from-scratch hooks of
                        # what this call registered / unregistered (nothing when it raised)
                        try:
                            delta_add = w.spec_population(self.ledger - ledger_before)
                            delta_rm = w.spec_population(ledger_before - self.ledger)
                            pred = collections.Counter(self.last_pop) + delta_add
                            pred = pred - delta_rm if all(pred[k] >= n for k, n in delta_rm.items()) else None
                        except Exception:
                            pred = None
                        self.classify_pred(pred)
                else:
                    if self.check_reach() and self.ledger:
                        self.cur_canon = self.canon_op(op.split())
                        pre = self.pre_mutation(self.cur_canon) if self.cur_canon else None
                        if pre is not None:
                            self.pre_spec = w.spec_population(self.ledger)
                    self.set_changed = True
                    was_set = False
                    if self.cur_kind in ("set", "setl", "setd", "sets", "get") and pre is not None:
                        p = op.split()
                        snap = self.maint_snapshot(w.pool[int(p[1])], p[2])
                        get_unset = p[2] not in w.pool[int(p[1])].__dict__
                    csnap = asnap = None
                    if self.check_reach() and self.last_pop is not None:
                        p = op.split()
                        if pre is not None and pre["target"][0] == "c":
                            csnap = self.cont_snapshot(w.objs[pre["target"][1]])
                        elif self.cur_kind == "addt" and self.selfreach:
                            ao = w.pool[int(p[1])]
                            asnap = self.added_snapshot(ao)
                            anames = [nm for nm in ([p[2] + "_items"] if p[2] == "l2" else []) + [p[2]]
                                      if ao._trait(nm, 0) is None]
                    if self.cur_kind in ("set", "seti", "setl", "setd", "sets", "del"):
                        p = op.split()
                        o = w.pool[int(p[1])]
                        was_set = p[2] in o.__dict__
                        if p[2] in o.traits() and p[2] in o.__dict__:
                            self.old_value = o.__dict__[p[2]]
                        else:
                            # unset: the old value of the assignment is the default
                            self.old_value = self.default_of(o, p[2])
                    try:
                        self.apply(op)
                    except Skip:
                        raise
                    except Exception as e:
                        status = "err " + exc_name(e)
                        self.tags.add("mut-err:" + exc_name(e))
                        # a maintainer raised out of the mutation: the hooks are whatever
                        # it had done so far; outside the statement of C08
                        self.tainted = True
                    if self.cur_kind in ("set", "seti", "setl", "setd", "sets", "del"):
                        p = op.split()
                        o = w.pool[int(p[1])]
                        new = o.__dict__.get(p[2])
                        mode = CMP_MODE.get(p[2], "equality")
                        try:
                            if mode == "none":
                                self.set_changed = True                      # every assignment is reported
                            elif mode == "identity":
                                self.set_changed = self.old_value is not new
                            else:
                                self.set_changed = not (self.old_value is new or self.old_value == new)
                        except Exception:
                            self.set_changed = True
                        if self.cur_kind == "del":
                            # deleting an absent attribute does nothing; else old -> default by identity
                            self.set_changed = was_set and (mode == "none" or self.old_value is not new)
                    if pre is not None and self.check_reach():
                        # the old/new subtrees in the heap AFTER the mutation
                        self.check_selfreach(pre)
                    if status == "ok" and self.selfreach and self.check_reach():
                        try:
                            if csnap is not None:
                                self.classify_pred(self.predict_cont(self.last_pop, csnap, pre["target"],
                                                                     pre["olds"], pre["news"]))
                            elif asnap is not None:
                                self.classify_pred(self.predict_added(self.last_pop, asnap, ao, anames))
                        except Exception:
                            self.tags.add("selfreach-by-presence:" + self.cur_kind)
                    if pre is not None and self.check_reach():
                        if self.selfreach and snap is not None and status == "ok":
                            from traits.trait_base import Uninitialized
                            p = op.split()
                            new = w.pool[int(p[1])].__dict__.get(p[2])
                            if self.cur_kind == "get":
                                self.classify_selfreach(snap, Uninitialized, new, get_unset)
                            else:
                                # the maintainers run whenever ctraits sees a change: identity, or always
                                # under comparison_mode none (ctraits.c:2439, :2563-2565)
                                self.classify_selfreach(snap, self.old_value, new,
                                                        CMP_MODE.get(p[2]) == "none" or self.old_value is not new)
            except Skip:
                status = "err Other"
            self.old_value = None
            pre_target = None if pre is None else pre["target"]
            pre_olds = None if pre is None else pre["any_old"]
            pre_news = None if pre is None else pre["any_new"]
            pre = None if pre is None else {"target": pre_target, "olds": pre_olds, "news": pre_news}
            evs = w.drain()
            dstr = " ".join(sorted(w.show_event(h, ev) for h, ev in evs))
            self.delivery_oracle(op, status, evs, pre)
            w.tmp_id = None
            pstr = " ".join(sorted(self.probe()))
            nstr, pop = w.population()
            n08 = len(self.hits08)
            self.whitebox(pop)
            if len(self.hits08) > n08 and self.cur_kind in ("obs", "unobs") and status == "ok":
                # C09 "counted": right after a successful (un)registration the populations
                # are the from-scratch ones
                self.hits09.append(dict(self.hits08[-1]))
            if not self.ledger and not self.tainted and not self.selfreach and not self.shadow_default and pop:
                self.hits09.append(_hit(self.known_cause or "residual-notifiers-after-balanced-removal",
                                        "every registration was removed but notifiers remain",
                                        after_op=op, population=nstr))
                self.tainted = True
            self.last_pop = pop
            outs.append("%s D{%s} P{%s} N{%s}" % (status, dstr, pstr, nstr))
        return " ; ".join(outs)


def run_case(case):
    r = Runner(case)
    out = r.run()
    return out, r.hits08, r.hits09, r.tags


# --------------------------------------------------------------------------- generators

def t(name, notify=True, optional=False):
    return ("t", name, notify, optional)


def seq(*xs):
    out = xs[0]
    for x in xs[1:]:
        out = ("then", out, x)
    return out


def par(*xs):
    out = xs[0]
    for x in xs[1:]:
        out = ("or", out, x)
    return out


def dsl_items(notify=True):
    """What the text DSL's `items` expands to."""
    return par(t("items", notify, True), ("li", notify, True), ("di", notify, True), ("si", notify, True))


def gen_link(rng):
    """One step from an object to the next object(s)."""
    n = rng.random() < 0.7        # '.' vs ':'
    n2 = rng.random() < 0.7
    r = rng.random()
    if r < 0.24:
        return t("child", n)
    if r < 0.28:
        return t(rng.choice(["ichild", "nchild"]), n)
    if r < 0.40:
        return t("mate", n)
    if r < 0.51:
        return seq(t("kids", n), ("li", n2, False))
    if r < 0.55:
        return seq(t("tkids", n), ("li", n2, False))
    if r < 0.63:
        return seq(t("byname", n), ("di", n2, False))
    if r < 0.71:
        return seq(t("group", n), ("si", n2, False))
    if r < 0.79:
        return seq(t(rng.choice(["kids", "byname", "group"]), n), dsl_items(n2))
    if r < 0.86:
        return ("meta", n)
    if r < 0.93:
        return t("xchild", n, True)
    return t("items", n, True)


def gen_leaf(rng):
    n = rng.random() < 0.85
    r = rng.random()
    if r < 0.5:
        return t("value", n)
    if r < 0.6:
        return t("extra", n, True)
    if r < 0.68:
        return ("any", n)
    if r < 0.75:
        return ("meta", n)
    if r < 0.83:
        return t(rng.choice(["child", "mate", "ichild", "nchild"]), n)
    if r < 0.90:
        return t(rng.choice(["kids", "byname", "group"]), n)
    return seq(t("kids", n), ("li", rng.random() < 0.8, False)) if rng.random() < 0.6 else \
        seq(t(rng.choice(["byname", "group"]), n), dsl_items(rng.random() < 0.8))


def gen_expr(rng, depth=None):
    if depth is None:
        depth = rng.choice([0, 1, 1, 2, 2, 3])
    if depth == 0:
        if rng.random() < 0.15:
            a, b = gen_leaf(rng), gen_leaf(rng)
            return par(a, b) if canon_ast(a) != canon_ast(b) else a
        return gen_leaf(rng)
    link = gen_link(rng)
    if rng.random() < 0.2:
        a, b = gen_expr(rng, depth - 1), gen_expr(rng, rng.randint(0, depth - 1))
        rest = par(a, b) if not (set(map(canon, compile_ast(a))) & set(map(canon, compile_ast(b)))) else a
    else:
        rest = gen_expr(rng, depth - 1)
    if rng.random() < 0.08:
        l2 = gen_link(rng)
        if not (set(map(canon, compile_ast(link))) & set(map(canon, compile_ast(l2)))):
            link = par(link, l2)
    return seq(link, rest)


def canon_ast(a):
    return tuple(canon(g) for g in compile_ast(a))


def gen_bad_expr(rng):
    """Failure injection: a missing trait / a non-container where a container is
    required / a trait of a non-HasTraits value, at a random position of the walk."""
    good = gen_expr(rng, rng.choice([0, 1, 2, 3]))
    toks = rpn_of(good)
    atoms = [i for i, x in enumerate(toks) if x not in ("then", "or")]
    i = rng.choice(atoms)
    r = rng.random()
    if r < 0.4:
        bad = ["t.nosuch.%d.0" % rng.randint(0, 1)]
    elif r < 0.6:
        bad = [rng.choice(["li", "di", "si"]) + ".1.0"]
    elif r < 0.75:
        bad = ["t.value.1.0", "t.value.1.0", "then"]
    elif r < 0.85:
        bad = ["any.1", "t.value.1.0", "then"]
    else:
        bad = [toks[i], "t.nosuch.1.0", "then"]
    return parse_rpn(toks[:i] + bad + toks[i + 1:])


class Gen:
    """Random history with a shadow of the heap shape (which containers exist)."""

    def __init__(self, rng, n=None, no_sets=False):
        self.rng = rng
        self.no_sets = no_sets   # value-equal objects in the pool: sets (hash/eq based) stay out
        self.n = n or rng.choice([3, 3, 4, 5])
        self.next_id = 100
        self.conts = {}          # identity -> 'l' | 'd' | 's'
        self.attached = {}       # (obj, field) -> identity
        self.lists = {}          # identity -> shadow of the list's items (best effort)
        self.added = set()       # (obj, name) added traits
        self.tagof = {}
        self.ops = []
        self.shared = None       # pool object that is the constant default of `shared` (header `S`)

    def fresh(self):
        i = self.next_id
        self.next_id += 2
        return i

    def obj(self):
        return self.rng.randrange(self.n)

    def item(self):
        r = self.rng
        return NONE_ID if r.random() < 0.03 else self.obj()

    def items(self, kmax=3):
        return [self.item() for _ in range(self.rng.randint(0, kmax))]

    def mutation(self):
        r = self.rng
        x = r.random()
        o = self.obj()
        if x < 0.22:
            f = r.choice(["child", "child", "mate", "ichild", "nchild"])
            v = "N" if r.random() < 0.15 else str(self.obj())
            return "set %d %s %s" % (o, f, v)
        if x < 0.34:
            c = self.fresh()
            kind = r.choice(["l", "l", "d", "d"] if self.no_sets else ["l", "l", "d", "s"])
            f = {"l": "kids", "d": "byname", "s": "group"}[kind]
            self.conts[c] = kind
            self.attached[(o, f)] = c
            if kind == "l":
                its = self.items()
                if r.random() < 0.35 and its:
                    its = its + [r.choice(its)]          # repeated items
                self.lists[c] = list(its)
                f = "tkids" if r.random() < 0.2 else "kids"
                if f == "tkids":
                    self.attached.pop((o, "kids"), None)
                    self.attached[(o, "tkids")] = c
                return "setl %d %s %d %s" % (o, f, c, show_ids(its))
            if kind == "d":
                ks = r.sample([0, 1, 2], r.randint(0, 3))
                return "setd %d byname %d %s" % (o, c, show_kvs([(k, self.item()) for k in ks]))
            return "sets %d group %d %s" % (o, c, show_ids(sorted(set(i for i in self.items() if i != NONE_ID))))
        if x < 0.40:
            fs = ["kids", "tkids", "byname", "child", "mate", "value"] if self.no_sets else \
                ["kids", "tkids", "byname", "group", "child", "mate", "value"]
            if self.shared is not None:
                fs += ["shared", "shared", "shared"]
            f = r.choice(fs)
            c = self.fresh()
            kind = {"kids": "l", "tkids": "l", "byname": "d", "group": "s"}.get(f)
            if r.random() < 0.15 and f != "value":
                # `del obj.f`: the attribute falls back to its default (a container default is a new one)
                if f in ("child", "mate") and r.random() < 0.3:
                    f = r.choice(["ichild", "nchild"])
                if kind:
                    self.conts[c] = kind
                    self.attached[(o, f)] = c
                return "del %d %s %d" % (o, f, c)
            if kind and (o, f) not in self.attached:
                self.conts[c] = kind
                self.attached[(o, f)] = c
            return "get %d %s %d" % (o, f, c)
        if x < 0.46:
            name = r.choice(["extra", "xchild", "items"])
            self.added.add((o, name))
            # re-adding an existing trait keeps its metadata (replacing a trait by one with
            # different metadata fires no trait_added and is outside the statement)
            tag = self.tagof.setdefault((o, name), r.choice([0, 0, 0, 1, 1, 2, 3, 4, 5, 6]))
            return "addt %d %s %d" % (o, name, tag)
        if x < 0.50 and self.added:
            o2, name = r.choice(sorted(self.added))
            if name == "extra":
                return "seti %d extra %d" % (o2, r.randint(1, 5))
            if name == "l2":
                c = self.fresh()
                self.conts[c] = "l"
                self.attached[(o2, "l2")] = c
                return "setl %d l2 %d %s" % (o2, c, show_ids(self.items()))
            return "set %d %s %s" % (o2, name, "N" if r.random() < 0.15 else str(self.obj()))
        # container mutations: mostly attached containers, sometimes detached ones
        cs = sorted(self.conts)
        if not cs:
            return self.mutation() if r.random() < 0.9 else "set %d child %d" % (o, self.obj())
        att = sorted(set(self.attached.values()))
        c = r.choice(att) if att and r.random() < 0.85 else r.choice(cs)
        kind = self.conts[c]
        if kind == "l":
            y = r.random()
            l = self.lists.setdefault(c, [])
            if y < 0.22 and len(l) >= 2:
                return self.slice_op(c, l)
            self.lists.pop(c, None)      # the shadow is only kept up across slice assignments
            if y < 0.3:
                return "la %d %d" % (c, self.item())
            if y < 0.45:
                return "li %d %d %d" % (c, r.randint(0, 2), self.item())
            if y < 0.65:
                return "ld %d %d" % (c, r.randint(0, 2))
            if y < 0.8:
                return "ls %d %d %d" % (c, r.randint(0, 2), self.item())
            if y < 0.88:
                return "lc %d" % c
            return "le %d %s" % (c, show_ids(self.items()))
        return self.cont_op(c)

    def cont_op(self, c):
        """One mutation of dict / set `c` through any of its mutators (keys cast and un-cast)."""
        r = self.rng
        if self.conts[c] == "d":
            y = r.random()
            if y < 0.55:
                k = r.choice(["ds", "ds", "ds", "dsu", "du", "duu", "dio", "diou", "dsd", "dsdu"])
                return "%s %d %d %d" % (k, c, r.randint(0, 2), self.item())
            if y < 0.9:
                k = r.choice(["dd", "dd", "dd", "dp", "dpd", "dpi"])
                return "dpi %d" % c if k == "dpi" else "%s %d %d" % (k, c, r.randint(0, 2))
            return "dc %d" % c
        y = r.random()
        if y < 0.5:
            return "%s %d %d" % (r.choice(["sa", "sa", "sa", "su", "sio", "six", "sxu"]), c, self.obj())
        if y < 0.9:
            k = r.choice(["sr", "sr", "sr", "sro", "sis", "sia", "sdu", "six", "sxu", "sp"])
            return "sp %d" % c if k == "sp" else "%s %d %d" % (k, c, self.obj())
        return "sc %d" % c

    def slice_op(self, c, l):
        """Slice assignment on list `c` whose shadow is `l`: mostly same length, drawn from
        the objects that are there, so that multiplicities change while the set stays."""
        r = self.rng
        if r.random() < 0.3 and len(l) >= 3:
            step = r.choice([2, 2, 3])
            i = r.randrange(0, min(step, len(l)))
            pos = list(range(i, len(l), step))
            olds = [l[p] for p in pos]
            xs = [r.choice(olds) if r.random() < 0.8 else self.item() for _ in pos]
            for p, x in zip(pos, xs):
                l[p] = x
            return "lst %d %d %d %s" % (c, i, step, show_ids(xs))
        i = r.randrange(0, len(l))
        j = r.randint(i + 1, len(l))
        olds = l[i:j]
        k = len(olds) if r.random() < 0.75 else r.randint(0, len(olds) + 1)
        xs = [r.choice(olds) if r.random() < 0.8 else self.item() for _ in range(k)]
        l[i:j] = xs
        return "lsl %d %d %d %s" % (c, i, j, show_ids(xs))

    def setup(self, k):
        """Link the pool before anything is observed."""
        for _ in range(k):
            self.ops.append(self.mutation())


def header(g, dflts=None):
    dflts = dflts or ["N"] * g.n
    return "obs|%d|%s|" % (g.n, ",".join(dflts))


def gen_dflts(rng, n):
    return [str(rng.randrange(n)) if rng.random() < 0.08 else "N" for _ in range(n)]


def gen_eq_header(rng, n):
    """Header with value semantics: two or three pool objects compare equal."""
    cls = list(range(n))
    k = rng.choice([2, 2, 3]) if n >= 4 else 2
    members = rng.sample(range(n), k)
    for m in members[1:]:
        cls[m] = cls[members[0]]
    return ["N~%d" % c for c in cls], members


def expr_without_sets(rng):
    for _ in range(50):
        e = gen_expr(rng)
        toks = rpn_of(e)
        if not any(x.startswith(("si.", "t.group.")) for x in toks):
            return e
    return seq(t("child"), t("value"))


def history_eq(rng, maxops=12, c09=False):
    """Value-equal but distinct objects: as observing owners sharing a child with the
    same handler, as dict values / list items / Instance values replaced by an equal
    object, under traits of every comparison mode."""
    g = Gen(rng, no_sets=True)
    hdr, members = gen_eq_header(rng, g.n)
    others = [i for i in range(g.n) if i not in members] or [members[-1]]
    a, b = members[0], members[1]
    shared = rng.choice(others)
    r = rng.random()
    if r < 0.35:
        # two equal owners, one shared child, the same handler
        e = rng.choice([seq(t("child"), t("value")), seq(t("child", False), t("value")),
                        seq(t("child"), t("child"), t("value")), t("child")])
        g.ops += ["set %d child %d" % (a, shared), "set %d child %d" % (b, shared)]
        es = " ".join(rpn_of(e))
        g.ops += ["obs 0 %d %s" % (a, es), "obs 0 %d %s" % (b, es)]
        while len(g.ops) < rng.randint(5, maxops):
            x = rng.random()
            if x < 0.25 and c09:
                g.ops.append("unobs 0 %d %s" % (rng.choice([a, b]), es))
            elif x < 0.35 and c09:
                g.ops.append("obs 0 %d %s" % (rng.choice([a, b]), es))
            else:
                g.ops.append(g.mutation())
    elif r < 0.7:
        # a container slot / Instance value replaced by an equal object
        root = rng.choice(others)
        kind = rng.choice(["d", "d", "l", "i", "n", "c"])
        n1, n2 = rng.random() < 0.7, rng.random() < 0.8
        if kind == "d":
            c = g.fresh(); g.conts[c] = "d"; g.attached[(root, "byname")] = c
            g.ops.append("setd %d byname %d [0:%d]" % (root, c, a))
            e = seq(t("byname", n1), ("di", n2, False), rng.choice([t("value"), seq(t("child"), t("value"))]))
            repl = ["ds %d 0 %d" % (c, b), "ds %d 0 %d" % (c, a)]
        elif kind == "l":
            c = g.fresh(); g.conts[c] = "l"; g.attached[(root, "kids")] = c
            g.ops.append("setl %d kids %d [%d]" % (root, c, a))
            e = seq(t("kids", n1), ("li", n2, False), t("value"))
            c2 = g.fresh(); g.conts[c2] = "l"
            repl = ["ls %d 0 %d" % (c, b), "setl %d kids %d [%d]" % (root, c2, b)]
        else:
            f = {"i": "ichild", "n": "nchild", "c": "child"}[kind]
            g.ops.append("set %d %s %d" % (root, f, a))
            e = seq(t(f, n1), rng.choice([t("value"), ("any", True)]))
            repl = ["set %d %s %d" % (root, f, b), "set %d %s %d" % (root, f, a), "set %d %s %d" % (root, f, a)]
        g.ops.append("obs 0 %d %s" % (root, " ".join(rpn_of(e))))
        for o in repl:
            if rng.random() < 0.85:
                g.ops.append(o)
            if rng.random() < 0.4:
                g.ops.append(g.mutation())
    else:
        g.setup(rng.randint(1, 3))
        e = expr_without_sets(rng)
        g.ops.append("obs %d %d %s" % (rng.randrange(2), rng.choice(members + [0]), " ".join(rpn_of(e))))
        if rng.random() < 0.5:
            g.ops.append("obs 0 %d %s" % (rng.choice(members), " ".join(rpn_of(e))))
        while len(g.ops) < rng.randint(4, maxops):
            g.ops.append(g.mutation())
    return "obs|%d|%s|" % (g.n, ",".join(hdr)) + ";".join(g.ops[:maxops + 2])


def history_c08(rng, maxops=12):
    """Link the pool, observe one or two expressions, then mutate."""
    g = Gen(rng)
    total = rng.randint(2, maxops)
    nsetup = rng.randint(0, min(4, total - 1))
    g.setup(nsetup)
    nobs = 1 if rng.random() < 0.75 else 2
    for j in range(nobs):
        e = gen_expr(rng)
        g.ops.append("obs %d %d %s" % (j if rng.random() < 0.5 else 0, g.obj() if rng.random() < 0.3 else 0,
                                       " ".join(rpn_of(e))))
    while len(g.ops) < total + nobs - 1 or len(g.ops) < nobs + 1:
        g.ops.append(g.mutation())
        if len(g.ops) >= maxops:
            break
    return header(g, gen_dflts(rng, g.n)) + ";".join(g.ops[:maxops])


def history_c09(rng, maxops=12, gc_case=False):
    """Interleave observe / unobserve of 2 handlers x a few expressions with
    mutations; inject failing registrations."""
    g = Gen(rng)
    exprs = [gen_expr(rng) for _ in range(rng.randint(1, 3))]
    active = []          # (hid, root, expr index)
    total = rng.randint(2, maxops)
    g.setup(rng.randint(0, 3))
    killed = set()
    while len(g.ops) < total:
        x = rng.random()
        if x < 0.30 or not active and x < 0.5:
            hid = rng.choice([h for h in (0, 1) if h not in killed] or [2])
            if rng.random() < 0.3:
                hid += 10          # the same handler through api.observe(dispatcher=queue.dispatch)
            root = 0 if rng.random() < 0.7 else g.obj()
            i = rng.randrange(len(exprs))
            reps = rng.choice([1, 1, 1, 2, 3])
            for _ in range(reps):
                g.ops.append("obs %d %d %s" % (hid, root, " ".join(rpn_of(exprs[i]))))
                active.append((hid, root, i))
        elif x < 0.52 and active:
            hid, root, i = active.pop(rng.randrange(len(active)))
            if hid % 10 in killed:
                continue
            g.ops.append("unobs %d %d %s" % (hid, root, " ".join(rpn_of(exprs[i]))))
        elif x < 0.58:
            # one removal too many / never registered
            hid = rng.choice([0, 1, 10, 11])
            if hid % 10 in killed or any(a[0] == hid for a in active):
                continue
            g.ops.append("unobs %d %d %s" % (hid, 0, " ".join(rpn_of(rng.choice(exprs)))))
        elif x < 0.68:
            hid = rng.choice([h for h in (0, 1) if h not in killed] or [2])
            g.ops.append("%s %d %d %s" % ("obs" if rng.random() < 0.85 else "unobs", hid,
                                          0 if rng.random() < 0.7 else g.obj(),
                                          " ".join(rpn_of(gen_bad_expr(rng)))))
        elif x < 0.70 and active and not killed and not gc_case:
            hid = rng.choice([0, 1])
            killed.add(hid)
            g.ops.append("kill %d" % hid)
        else:
            g.ops.append(g.mutation())
    return header(g, gen_dflts(rng, g.n)) + ";".join(g.ops[:maxops + 2])


FIXED_EXPRS = [
    # (text DSL, AST) — the 12 fixed expressions of the exhaustive scope
    ("value", t("value")),
    ("child.value", seq(t("child"), t("value"))),
    ("child:value", seq(t("child", False), t("value"))),
    ("child:child:value", seq(t("child", False), t("child", False), t("value"))),
    ("child.child.value", seq(t("child"), t("child"), t("value"))),
    ("kids.items.value", seq(t("kids"), dsl_items(), t("value"))),
    ("kids:items:value", seq(t("kids", False), dsl_items(False), t("value"))),
    ("kids.items.child.value", seq(t("kids"), dsl_items(), t("child"), t("value"))),
    ("[child,mate].value", seq(par(t("child"), t("mate")), t("value"))),
    ("child.[value,kids.items.value]", seq(t("child"), par(t("value"), seq(t("kids"), dsl_items(), t("value"))))),
    ("+tag.value", seq(("meta", True), t("value"))),
    ("child.*", seq(t("child"), ("any", True))),
]


def check_fixed_exprs():
    """The text DSL compiles to the same graphs as the AST sent to the model."""
    from traits.observation.api import compile_str, compile_expr
    bad = []
    for text, ast in FIXED_EXPRS:
        a = compile_str(text)
        b = compile_expr(real_expr(ast))
        if [canon_real(g) for g in a] != [canon_real(g) for g in b]:
            bad.append(text)
    return bad


def exhaustive_small(max_len, exprs=None):
    """Every history of at most `max_len` mutations from a small alphabet over a
    3-object pool, after observing one fixed expression on object 0 (root linked
    into a small structure first)."""
    import itertools
    exprs = exprs or FIXED_EXPRS
    alphabet = ["set 0 child 0", "set 0 child 1", "set 1 child 2", "set 1 child 0", "set 0 child N",
                "set 0 mate 1", "la 100 1", "la 100 0", "ld 100 0", "setl 0 kids 102 [1,1]",
                "setl 1 kids 104 [2]", "ls 100 0 2"]
    for text, ast in exprs:
        obs = "obs 0 0 " + " ".join(rpn_of(ast))
        for pre in (["setl 0 kids 100 [1,2]"], ["setl 0 kids 100 [1,2]", "set 0 child 1", "set 1 child 2"]):
            for k in range(1, max_len + 1):
                for hist in itertools.product(alphabet, repeat=k):
                    # every assignment of a list allocates a container of its own
                    ops = [o.replace(" 102 ", " %d " % (110 + 4 * p)).replace(" 104 ", " %d " % (112 + 4 * p))
                           for p, o in enumerate(hist)]
                    yield "obs|3|N,N,N|" + ";".join(pre + [obs] + ops)


def failure_positions(maxlen):
    """Failure injected at every position k of walks of 1..maxlen nodes, over a ring
    0 -> 1 -> 2 -> 0 (child) whose objects also hold lists; with and without completed
    sibling subtrees; for registration and for removal."""
    pre = ["set 0 child 1", "set 1 child 2", "set 2 child 0", "setl 0 kids 100 [1,2]", "setl 1 kids 102 [2,0]",
           "setl 2 kids 104 [0,1]", "addt 1 extra 0"]
    bads = [[t("nosuch")], [("li", True, False)], [t("value"), t("value")], [t("extra")]]
    for L in range(1, maxlen + 1):
        for k in range(L):
            for bad in bads:
                for shape in ("chain", "sib-before", "sib-after", "items"):
                    def build(i):
                        if i == L:
                            return t("value")
                        link = [t("child")] if shape != "items" else [t("kids"), ("li", True, False)]
                        if i == k:
                            link = bad
                        rest = build(i + 1)
                        if shape == "sib-before":
                            rest = par(t("value"), rest) if canon_ast(rest) != canon_ast(t("value")) else rest
                        elif shape == "sib-after":
                            rest = par(rest, t("value")) if canon_ast(rest) != canon_ast(t("value")) else rest
                        return seq(*(link + [rest]))
                    if shape == "items" and L > 6:
                        continue
                    e = " ".join(rpn_of(build(0)))
                    yield "obs|3|N,N,N|" + ";".join(pre + ["obs 0 0 " + e])
    # removal that fails midway: register a good walk, break it at depth k, unregister
    for L in range(1, min(maxlen, 6) + 1):
        good = seq(*([t("kids"), ("li", True, False)] * L + [t("value")]))
        e = " ".join(rpn_of(good))
        for c in (100, 102, 104):
            for pos in (0, 1):
                yield "obs|3|N,N,N|" + ";".join(pre + ["obs 0 0 " + e, "ls %d %d 99" % (c, pos), "unobs 0 0 " + e])


# --------------------------------------------------------------------------- GC clause (TEST)

def _inbound(w, r):
    """Is pool object r referenced from another live pool object or container?"""
    for i, o in enumerate(w.pool):
        if o is None or o is r:
            continue
        for v in o.__dict__.values():
            if v is r:
                return True
            if isinstance(v, dict):
                if any(x is r for x in v.values()):
                    return True
            elif isinstance(v, (list, set)):
                if any(x is r for x in v):
                    return True
        d = _DEFAULT.get(id(o))
        if d is not None and d() is r and "child" not in o.__dict__:
            pass
    for c, x in w.objs.items():
        if c >= 100:
            vals = x.values() if isinstance(x, dict) else x
            owner_is_r = False
            if any(v is r for v in vals):
                # a container owned only by r itself does not count
                for o in w.pool:
                    if o is not None and o is not r and any(x is y for y in o.__dict__.values()):
                        return True
                # detached container held by the harness: counts as a reference
                if not any(x is y for y in r.__dict__.values()):
                    return True
    return False


def run_gc_case(case):
    """TEST of the runtime clause of C09 at every point of the history."""
    _, n, dflts, ops = case.split("|")
    ops = [o for o in ops.split(";") if o.strip()]
    hits = []
    tags = set(["gc"])
    points = 0
    for k in range(1, len(ops) + 1):
        prefix = "obs|%s|%s|%s" % (n, dflts, ";".join(ops[:k]))
        # ---- A: the handler's owner is collected
        r = Runner(prefix)
        r.run()
        if r.tainted or r.selfreach or any(x.startswith(("probe-err", "mut-err")) for x in r.tags):
            continue
        w = r.w
        for hid in sorted(w.recorders):
            ref = weakref.ref(w.recorders[hid])
            w.recorders.pop(hid)
            w.dead.add(hid)
            gc.collect()
            points += 1
            if ref() is not None:
                hits.append(_hit("gc:handler-owner-kept-alive", "a registration keeps the bound-method handler's owner alive",
                                 case=prefix, handler=hid))
                continue
            before = len(r.hits08)
            out = r.probe()
            if any(s.startswith("!") for s in out):
                hits.append(_hit("gc:probe-raised-after-collection", "a change raised after the handler's owner was collected",
                                 case=prefix, handler=hid, probe=out))
            if len(r.hits08) > before:
                hits.append(_hit("gc:called-after-collection", r.hits08[-1]["what"], case=prefix, handler=hid))
            tags.add("gc:handler-owner")
        # ---- B: an observing / observed object nobody else refers to is collected
        for cand in range(int(n)):
            r = Runner(prefix)
            r.run()
            if r.tainted or r.selfreach or any(x.startswith(("probe-err", "mut-err")) for x in r.tags):
                break
            w = r.w
            obj = w.pool[cand]
            if _inbound(w, obj):
                continue
            is_target = any(kk[1] == cand for kk in r.ledger)
            ref = weakref.ref(obj)
            # forget every harness reference to it and to the containers only it owns
            own = [c for c, x in w.objs.items() if c >= 100 and any(x is y for y in obj.__dict__.values())]
            for c in own:
                w.ids.pop(id(w.objs[c]), None)
                del w.objs[c]
                if c in w.declared:
                    w.declared.remove(c)
            w.ids.pop(id(obj), None)
            del w.objs[cand]
            w.pool[cand] = None
            for kk in [kk for kk in r.ledger if kk[1] == cand]:
                del r.ledger[kk]
            del obj
            gc.collect()
            points += 1
            if ref() is not None:
                hits.append(_hit("gc:observed-object-kept-alive",
                                 "an object nobody refers to stays alive after it observed / was observed",
                                 case=prefix, object=cand, was_target=is_target))
                continue
            tags.add("gc:target" if is_target else "gc:object")
            # whatever it was the target of must now be mute; everything else as before
            w.pool = [o for o in w.pool]
            before = len(r.hits08)
            try:
                out = r.probe_sparse()
            except Exception as e:
                out = ["!harness:" + exc_name(e)]
            if any(s.startswith("!") for s in out):
                hits.append(_hit("gc:probe-raised-after-collection", "a change raised after the object was collected",
                                 case=prefix, object=cand, probe=out))
            if len(r.hits08) > before and is_target:
                hits.append(_hit("gc:called-after-collection", r.hits08[-1]["what"], case=prefix, object=cand))
    return "gc points=%d" % points, hits, tags


def history_mult(rng, maxops=12, c09=False):
    """Lists with REPEATED items; slice assignments (also extended slices) that keep the
    objects but change their multiplicities; then pops; every object is probed after each op."""
    g = Gen(rng)
    n = g.n
    a, b = rng.sample(range(1, n), 2) if n > 2 else (1, 1)
    root = 0
    c = g.fresh()
    g.conts[c] = "l"
    g.attached[(root, "kids")] = c
    items = [rng.choice([a, a, b]) for _ in range(rng.randint(2, 4))] + [a, b]
    rng.shuffle(items)
    g.lists[c] = list(items)
    g.ops.append("setl %d kids %d %s" % (root, c, show_ids(items)))
    if rng.random() < 0.5:
        g.ops.append("set %d child %d" % (a, rng.randrange(n)))
        g.ops.append("set %d child %d" % (b, rng.randrange(n)))
    n1, n2 = rng.random() < 0.7, rng.random() < 0.8
    leaf = rng.choice([t("value"), t("value"), seq(t("child"), t("value")), ("any", True)])
    link = rng.choice([("li", n2, False), dsl_items(n2)])
    es = " ".join(rpn_of(seq(t("kids", n1), link, leaf)))
    g.ops.append("obs 0 %d %s" % (root, es))
    if rng.random() < 0.3:
        g.ops.append("obs %d %d %s" % (rng.randrange(2), root, es))
    total = rng.randint(5, maxops)
    while len(g.ops) < total:
        l = g.lists[c]
        x = rng.random()
        if x < 0.45 and len(l) >= 2:
            g.ops.append(g.slice_op(c, l))
        elif x < 0.75 and l:
            i = rng.randrange(len(l))
            del l[i]
            g.ops.append("ld %d %d" % (c, i))
        elif x < 0.85:
            y = rng.choice([a, b])
            l.append(y)
            g.ops.append("la %d %d" % (c, y))
        elif x < 0.92 and c09:
            g.ops.append("unobs 0 %d %s" % (root, es))
            g.ops.append("obs 0 %d %s" % (root, es))
        else:
            g.lists.pop(c, None)
            g.ops.append(g.mutation())
            g.lists.setdefault(c, l)
            if g.attached.get((root, "kids")) != c:
                break
    return header(g, gen_dflts(rng, n)) + ";".join(g.ops[:maxops + 2])


def history_failrm(rng, maxops=12):
    """Register / unregister / re-register histories with equal-but-not-identical dispatchers
    and FAILING removals: an expression list (parallel at top level) of which a later part
    was never registered, on nodes with several observables (`*`, `+tag`), also below a link.
    The removal must raise NotifierNotFound, leave every population as before, and
    everything registered must still fire exactly once (all probed after every op)."""
    g = Gen(rng)
    n = g.n
    root = 0
    hid = rng.choice([0, 1, 10, 11, 10])

    def addt(o, name):
        g.added.add((o, name))
        g.tagof[(o, name)] = 1          # later re-adds keep the metadata
        return "addt %d %s 1" % (o, name)
    g.ops.append(addt(root, "extra"))
    if rng.random() < 0.6:
        g.ops.append("set %d child %d" % (root, rng.randrange(1, n)))
        g.ops.append(addt(rng.randrange(1, n), "extra"))
    if rng.random() < 0.5:
        g.ops.append("set %d mate %d" % (root, rng.randrange(n)))
    wide = rng.choice([("any", True), ("meta", True), ("any", True), seq(t("child"), ("any", True)),
                       seq(t("child", False), ("meta", True)), seq(("meta", True), t("value")),
                       par(("any", True), seq(t("child"), t("value")))])
    never = rng.choice([t("value"), seq(t("child"), t("value")), t("mate"), seq(t("kids"), ("li", True, False)),
                        t("nchild"), ("meta", False), seq(t("child"), t("ichild"))])
    if set(map(canon, compile_ast(wide))) & set(map(canon, compile_ast(never))):
        never = seq(t("child", False), t("nchild", False))
    ws, bs = " ".join(rpn_of(wide)), " ".join(rpn_of(par(wide, never)))
    reps = rng.choice([1, 1, 1, 2])
    for _ in range(reps):
        g.ops.append("obs %d %d %s" % (hid, root, ws))
    other = (hid + 10) % 20 if rng.random() < 0.5 else (hid + 1) % 2 + 10 * (hid // 10)
    if rng.random() < 0.4:
        g.ops.append("obs %d %d %s" % (other, root, ws))
    plan = ["unobs %d %d %s" % (hid, root, bs)]               # fails at the part never registered
    plan.append(g.mutation() if rng.random() < 0.5 else addt(root, "xchild"))
    if rng.random() < 0.5:
        plan.append("unobs %d %d %s" % (other, root, ws) if rng.random() < 0.5 else
                    "unobs %d %d %s" % (hid, root, " ".join(rpn_of(par(never, wide)))))
    for _ in range(reps):
        plan.append("unobs %d %d %s" % (hid, root, ws))         # the matching removals succeed
    plan.append("unobs %d %d %s" % (hid, root, ws))             # one too many
    if rng.random() < 0.5:
        plan += ["obs %d %d %s" % (hid, root, ws), "unobs %d %d %s" % (hid, root, bs),
                 "unobs %d %d %s" % (hid, root, ws)]
    for o in plan:
        g.ops.append(o)
        if rng.random() < 0.25:
            g.ops.append(g.mutation())
    return header(g, gen_dflts(rng, n)) + ";".join(g.ops[:maxops + 4])


def history_filt(rng, maxops=12):
    """Filtered links (`+tag`, `*`) in NON-terminal position over traits whose defaults
    (dynamic Instance default of mate / child, the List default of tkids) are materialised
    only after observe(); then changes below; equal-but-distinct list reassignment below a
    filtered link; traits added with metadata True / False / 0 / "" / "x" / None / absent."""
    g = Gen(rng)
    n = g.n
    root = 0
    d = rng.randrange(1, n)
    dflts = ["N"] * n
    if rng.random() < 0.8:
        dflts[root] = str(d)
    if rng.random() < 0.3:
        dflts[d] = str(rng.randrange(n))
    nf, n2 = rng.random() < 0.7, rng.random() < 0.8
    filt = rng.choice([("meta", nf), ("meta", nf), ("any", nf)])
    opt = filt[0] == "any"          # `*` also yields ints: what follows must be optional
    below = rng.choice([
        t("value", True, opt),
        seq(("li", n2, True), t("value", True, opt)),
        seq(t("child", n2, opt), t("value", True, opt)),
        seq(filt, t("value", True, opt)),
        par(t("value", True, opt), seq(("li", n2, True), t("value", True, opt))),
    ])
    e = seq(filt, below)
    if rng.random() < 0.3:
        e = seq(t("child", rng.random() < 0.7), e)
        g.ops.append("set %d child %d" % (root, rng.randrange(1, n)))
        if rng.random() < 0.5:
            root_of_filter = None
    es = " ".join(rpn_of(e))
    pre = rng.randint(0, 2)
    for _ in range(pre):
        g.ops.append(g.mutation())
    g.ops.append("obs 0 %d %s" % (root, es))
    if rng.random() < 0.25:
        g.ops.append("obs 1 %d %s" % (root, es))

    def addt(o, name):
        code = g.tagof.setdefault((o, name), rng.choice([1, 2, 3, 4, 5, 6, 0]))
        g.added.add((o, name))
        return "addt %d %s %d" % (o, name, code)
    total = rng.randint(5, maxops)
    while len(g.ops) < total:
        x = rng.random()
        o = root if rng.random() < 0.6 else rng.randrange(n)
        if x < 0.22:
            f = rng.choice(["mate", "child", "tkids", "tkids", "kids"])
            c = g.fresh()
            if f in ("tkids", "kids") and (o, f) not in g.attached:
                g.conts[c] = "l"
                g.attached[(o, f)] = c
                g.lists[c] = []
            g.ops.append("get %d %s %d" % (o, f, c))
        elif x < 0.36:
            c = g.attached.get((o, "tkids"))
            if c is None:
                continue
            g.ops.append(rng.choice(["la %d %d" % (c, g.obj()), "la %d %d" % (c, g.obj()), "ld %d 0" % c]))
            g.lists.pop(c, None)
        elif x < 0.46:
            c = g.attached.get((o, "tkids"))
            c2 = g.fresh()
            g.conts[c2] = "l"
            g.attached[(o, "tkids")] = c2
            its = [g.obj() for _ in range(rng.randint(0, 2))]
            g.ops.append("setl %d tkids %d %s" % (o, c2, show_ids(its)))
            if rng.random() < 0.6:                      # the same contents again: an equal, distinct list
                c3 = g.fresh()
                g.conts[c3] = "l"
                g.attached[(o, "tkids")] = c3
                g.ops.append("setl %d tkids %d %s" % (o, c3, show_ids(its)))
                g.ops.append("la %d %d" % (c3, g.obj()))
        elif x < 0.60:
            name = rng.choice(["xchild", "xchild", "extra", "items", "l2", "l2"])
            g.ops.append(addt(o, name))
            if name == "l2":
                c = g.fresh()
                if (o, "l2") not in g.attached:
                    g.conts[c] = "l"
                    g.attached[(o, "l2")] = c
                    g.ops += ["get %d l2 %d" % (o, c), "la %d %d" % (c, g.obj())]
            elif name != "extra" and rng.random() < 0.7:
                g.ops.append("set %d %s %d" % (o, name, g.obj()))
        elif x < 0.72:
            g.ops.append("set %d %s %s" % (o, rng.choice(["mate", "mate", "child"]),
                                           "N" if rng.random() < 0.15 else str(g.obj())))
        else:
            g.ops.append(g.mutation())
    return "obs|%d|%s|" % (n, ",".join(dflts)) + ";".join(g.ops[:maxops + 2])


def history_cont(rng, maxops=12):
    """A dict (casting keys, cast and un-cast) or a set under an items observer, mutated in place
    through every mutator; replaced values / removed items are bumped by the probe afterwards."""
    g = Gen(rng)
    n = g.n
    root = 0
    kind = rng.choice(["d", "d", "s"])
    c = g.fresh()
    g.conts[c] = kind
    n1, n2 = rng.random() < 0.7, rng.random() < 0.8
    leaf = rng.choice([t("value"), t("value"), seq(t("child"), t("value")), ("any", True)])
    if kind == "d":
        ks = rng.sample([0, 1, 2], rng.randint(1, 3))
        g.ops.append("setd %d byname %d %s" % (root, c, show_kvs([(k, g.obj()) for k in ks])))
        g.attached[(root, "byname")] = c
        link = rng.choice([("di", n2, False), ("di", n2, False), dsl_items(n2)])
        e = seq(t("byname", n1), link, leaf)
    else:
        g.ops.append("sets %d group %d %s" % (root, c, show_ids(sorted(set(g.obj() for _ in range(rng.randint(0, 2)))))))
        g.attached[(root, "group")] = c
        link = rng.choice([("si", n2, False), ("si", n2, False), dsl_items(n2)])
        e = seq(t("group", n1), link, leaf)
    if rng.random() < 0.3:
        g.ops.append("set %d child %d" % (g.obj(), g.obj()))
    es = " ".join(rpn_of(e))
    g.ops.append("obs 0 %d %s" % (root, es))
    if rng.random() < 0.2:
        g.ops.append("obs 1 %d %s" % (root, es))
    total = rng.randint(4, maxops)
    while len(g.ops) < total:
        g.ops.append(g.cont_op(c) if rng.random() < 0.85 else g.mutation())
    return header(g, gen_dflts(rng, n)) + ";".join(g.ops[:maxops + 2])


def history_cycle(rng, maxops=12):
    """A CYCLE THROUGH THE ROOT of length 2-3 over one kind of link (child / ichild / nchild, or kids
    lists), observed with a chain of that link at least as long as the cycle (so the same trait is the
    link at several depths of the expression; ':' and '.' mixed; terminal `value`), the registration made
    before, between or after the assignments that close the cycle; then each link of the cycle is cut
    (None / emptied), re-pointed to an object outside or inside the cycle, and put back."""
    g = Gen(rng)
    n = g.n
    L = rng.choice([2, 2, 3])
    cyc = [0] + rng.sample(range(1, n), L - 1)
    kind = rng.choice(["child", "child", "child", "ichild", "nchild", "kids", "kids"])
    K = rng.randint(L, L + 2)
    if kind == "kids":
        links = [seq(t("kids", rng.random() < 0.6), ("li", rng.random() < 0.6, False)) for _ in range(K)]
    else:
        links = [t(kind, rng.random() < 0.5) for _ in range(K)]
    es = " ".join(rpn_of(seq(*(links + [t("value")]))))
    lists = {}

    def link(i, to):
        """o_i -> to (an identity, or N)"""
        o = cyc[i]
        if kind != "kids":
            return "set %d %s %s" % (o, kind, to)
        c = g.fresh()
        g.conts[c] = "l"
        g.attached[(o, "kids")] = c
        lists[o] = c
        return "setl %d kids %d %s" % (o, c, "[]" if to == "N" else "[%s]" % to)

    order = list(range(L))
    rng.shuffle(order)
    build = [link(i, str(cyc[(i + 1) % L])) for i in order]     # container identities ascend in op order
    at = rng.randint(0, L)
    hid = rng.choice([0, 0, 0, 10])
    build.insert(at, "obs %d 0 %s" % (hid, es))
    g.ops += build
    if rng.random() < 0.2:
        g.ops.append("obs 1 %d %s" % (rng.choice(cyc), es))
    total = rng.randint(L + 3, maxops)
    while len(g.ops) < total:
        i = rng.randrange(L)
        o = cyc[i]
        nxt = str(cyc[(i + 1) % L])
        x = rng.random()
        if x < 0.35:
            to = "N"
        elif x < 0.6:
            to = str(g.obj())
        elif x < 0.9:
            to = nxt
        else:
            g.ops.append(g.mutation())
            continue
        if kind == "kids" and o in lists and rng.random() < 0.6:
            c = lists[o]
            g.ops.append("lc %d" % c if to == "N" else rng.choice(["ls %d 0 %s" % (c, to), "la %d %s" % (c, to)]))
        else:
            g.ops.append(link(i, to))
    return header(g) + ";".join(g.ops[:maxops + 2])


def history_const(rng, maxops=10):
    """A CONSTANT default that is an observable object shared by every instance
    (`shared = Any(<pool object>)`, header `S`): observed before it is read for the first time on one
    or several owners, then read, replaced, deleted; the shared object is bumped by the probe."""
    g = Gen(rng)
    n = g.n
    s = rng.randrange(n)
    g.shared = s
    dflts = gen_dflts(rng, n)
    dflts[s] = "S" + dflts[s]
    root = rng.randrange(n)
    g.setup(rng.randint(0, 2))
    n1 = rng.random() < 0.7
    r = rng.random()
    if r < 0.5:
        e = seq(t("shared", n1), rng.choice([t("value"), t("value"), ("any", True), seq(t("shared"), t("value"))]))
    elif r < 0.7:
        e = seq(par(t("shared", n1), t("child", n1)), t("value"))
    elif r < 0.85:
        e = seq(("any", n1), t("value", True, True))
    else:
        e = seq(t("child", n1), t("shared", n1), t("value"))
        g.ops.append("set %d child %d" % (root, g.obj()))
    es = " ".join(rpn_of(e))
    g.ops.append("obs 0 %d %s" % (root, es))
    if rng.random() < 0.4:
        g.ops.append("obs %d %d %s" % (rng.randrange(2), rng.randrange(n), es))
    total = rng.randint(3, maxops)
    while len(g.ops) < total:
        x = rng.random()
        o = root if rng.random() < 0.6 else g.obj()
        if x < 0.4:
            g.ops.append("get %d shared %d" % (o, g.fresh()))
        elif x < 0.55:
            g.ops.append("set %d shared %s" % (o, "N" if rng.random() < 0.15 else str(g.obj())))
        elif x < 0.65:
            g.ops.append("del %d shared %d" % (o, g.fresh()))
        else:
            g.ops.append(g.mutation())
    return "obs|%d|%s|" % (n, ",".join(dflts)) + ";".join(g.ops[:maxops + 2])


def adhoc_cases(rng, k):
    """Implementation + oracle only (`#`): an ad-hoc attribute first assigned on ONE instance
    defines its trait on the class; assigned later on another observing instance it fires no
    trait_added there (finding, signature SIG_ADHOC)."""
    for _ in range(k):
        n = rng.choice([3, 4])
        a, b = rng.sample(range(n), 2)
        e = rng.choice([("any", True), ("any", False), seq(t("child"), ("any", True))])
        es = " ".join(rpn_of(e))
        ops = []
        if e[0] == "then":
            ops += ["set 0 child %d" % a, "set 1 child %d" % b]
            ra, rb = 0, 1
        else:
            ra, rb = a, b
        ops += ["obs 0 %d %s" % (ra, es), "obs 0 %d %s" % (rb, es), "adhoc %d 1" % a]
        if rng.random() < 0.5:
            ops.append(rng.choice(["set %d mate %d" % (a, b), "adhoc %d 2" % a]))
        ops += ["adhoc %d 2" % b, "unobs 0 %d %s" % (rb, es), "unobs 0 %d %s" % (ra, es)]
        yield "#obs|%d|%s|%s" % (n, ",".join(["N"] * n), ";".join(ops))
