"""Shared pieces of the `val` cluster (C03, C01): the term syntax of
Py.Val / TraitType (twin of lean/TraitsVerif/Driver/Val.lean), construction of
the real objects and real traits from terms, canonicalisation of results, the
value lattice, the trait-type option grid and the generators.

Nothing here imports `traits` at module level (the engine activates a scratch
build first); `world()` builds the classes that need traits lazily, once per
process.
"""
import math
from fractions import Fraction
import re
import sys
import warnings

from .seqlib import exc_name

# --------------------------------------------------------------------------
# s-expressions
# --------------------------------------------------------------------------


def tokenize(s):
    return s.replace("(", " ( ").replace(")", " ) ").split()


def parse_sexps(s):
    toks = tokenize(s)
    pos = 0

    def seq():
        nonlocal pos
        out = []
        while pos < len(toks):
            t = toks[pos]
            if t == ")":
                return out
            pos += 1
            if t == "(":
                inner = seq()
                if pos >= len(toks) or toks[pos] != ")":
                    raise ValueError("unbalanced: " + s)
                pos += 1
                out.append(inner)
            else:
                out.append(t)
        return out
    out = seq()
    if pos != len(toks):
        raise ValueError("unbalanced: " + s)
    return out


def parse_sexp(s):
    xs = parse_sexps(s)
    if len(xs) != 1:
        raise ValueError("expected one term: " + s)
    return xs[0]


def show_sexp(x):
    if isinstance(x, str):
        return x
    return "(" + " ".join(show_sexp(y) for y in x) + ")"


_SAFE = set("abcdefghijklmnopqrstuvwxyzABCDEFGHIJKLMNOPQRSTUVWXYZ0123456789_.-+")
_ADDR = re.compile(r"0x[0-9a-fA-F]+")


def enc(s):
    """%XX-escape (ASCII / latin-1 payloads only)."""
    return "".join(c if c in _SAFE else "%%%02x" % ord(c) for c in s)


def dec(s):
    out = []
    i = 0
    while i < len(s):
        if s[i] == "%":
            out.append(chr(int(s[i + 1:i + 3], 16)))
            i += 3
        else:
            out.append(s[i])
            i += 1
    return "".join(out)


# --------------------------------------------------------------------------
# floats on the grid q/4
# --------------------------------------------------------------------------

class OffGrid(Exception):
    pass


def show_f(x):
    x = float(x)
    if x != x:
        return "nan"
    if x == math.inf:
        return "inf"
    if x == -math.inf:
        return "-inf"
    if x == 0.0 and math.copysign(1.0, x) < 0:
        return "-0"
    fr = Fraction(x) * 4
    if fr.denominator != 1:
        raise OffGrid(repr(x))
    return str(fr.numerator)


def parse_f(s):
    if s == "nan":
        return float("nan")  # a fresh object every time: `is` must not short-cut ==
    if s == "inf":
        return math.inf
    if s == "-inf":
        return -math.inf
    if s == "-0":
        return -0.0
    return int(s) / 4


# --------------------------------------------------------------------------
# the world: classes and singletons the terms denote
# --------------------------------------------------------------------------

EXC = {"TypeError": TypeError, "ValueError": ValueError, "OverflowError": OverflowError,
       "RuntimeError": RuntimeError}


class MyInt(int):
    pass


class MyFloat(float):
    pass


class MyComplex(complex):
    pass


class MyStr(str):
    pass


class MyTuple(tuple):
    pass


class FwdP:
    """Target of the forward references Instance("props.vallib.FwdP") (class ids 6, 7)."""

    def __repr__(self):
        return "<FwdP>"


class FwdQ(FwdP):
    def __repr__(self):
        return "<FwdQ>"


def _proto_result(r):
    if r[0] == "exc":
        raise EXC[r[1]]("protocol method raises")
    return r[1]


class Idx:
    def __init__(self, r):
        self.r = r

    def __index__(self):
        return _proto_result(self.r)

    def __repr__(self):
        return "<Idx>"


class Flt:
    def __init__(self, r):
        self.r = r

    def __float__(self):
        return _proto_result(self.r)

    def __repr__(self):
        return "<Flt>"


class Cpx:
    def __init__(self, r):
        self.r = r

    def __complex__(self):
        return _proto_result(self.r)

    def __repr__(self):
        return "<Cpx>"


class IdxFlt:
    def __init__(self, ri, rf):
        self.ri, self.rf = ri, rf

    def __index__(self):
        return _proto_result(self.ri)

    def __float__(self):
        return _proto_result(self.rf)

    def __repr__(self):
        return "<IdxFlt>"


class Plain:
    def __repr__(self):
        return "<Plain>"


class BadEq:
    __hash__ = None

    def __eq__(self, other):
        raise ValueError("comparison refused")

    def __ne__(self, other):
        raise ValueError("comparison refused")

    def __repr__(self):
        return "<BadEq>"


def func0(object, name, value):
    """accepts everything unchanged"""
    return value


def func1(object, name, value):
    """non-negative exact ints"""
    from traits.api import TraitError
    if type(value) is int and value >= 0:
        return value
    raise TraitError("negative or not an int")


def func2(object, name, value):
    """always raises ValueError"""
    raise ValueError("validator refuses")


def func3(object, name, value):
    """strings become None"""
    from traits.api import TraitError
    if isinstance(value, str):
        return None
    raise TraitError("not a string")


FUNCS = [func0, func1, func2, func3]


def pred0(x):
    return x[0] < x[1]


PREDS = [pred0]


class _Holder:
    def meth(self):
        return None

    def __repr__(self):
        return "<Holder>"


_HOLDER = _Holder()
REGEXES = [r"^[a-z]+$", r"\d"]
DTYPES = {0: "bool", 1: "int32", 2: "int64", 3: "float32", 4: "float64"}
CASTINGS = {0: "unsafe", 1: "same_kind", 2: "safe", 3: "equiv", 4: "no"}


def dtype_code(dt):
    for k, n in DTYPES.items():
        if str(dt) == n:
            return k
    return 99

# user classes: cid -> (name, mro cids, adapts-to cids)
CLASS_INFO = {0: ("O", [0], []), 1: ("O1", [1, 0], []), 2: ("P", [2], []), 3: ("Q", [3, 2], []),
              4: ("R", [4], [2]), 5: ("A", [5, 0], []), 6: ("FwdP", [6], []), 7: ("FwdQ", [7, 6], []),
              9: ("RtoP", [9], [])}
# falsy flavours (0 truthy, 1 __bool__ returning False, 2 __len__ returning 0) of the adaptable class R and of the
# adapter its factory builds: cid 40 + 3 * (flavour of the adaptee) + (flavour of its adapter); of class P: cid 20 + flavour
FLAVOURS = ("truthy", "bool-false", "len-zero")
for _a in range(3):
    for _b in range(3):
        if _a or _b:
            CLASS_INFO[40 + 3 * _a + _b] = ("R_%d%d" % (_a, _b), [40 + 3 * _a + _b, 4], [2])
for _a in (1, 2):
    CLASS_INFO[20 + _a] = ("P_%d" % _a, [20 + _a, 2], [])
# objects that PASS isinstance(value, klass) although type(value) is not a subclass of klass (implementation-only
# `#` streams; the Lean lattice assumes isinstance = PyObject_TypeCheck).  cid 60 = D, a class whose metaclass
# __instancecheck__ is structural; cid -> (kind, claimed class cid, adapter registered from the REAL type to the
# claimed class, flavour of the object, flavour of its adapter).  kind "meta": D's __instancecheck__ says yes;
# kind "proxy": the object's __class__ is a property returning P (cid 2)
CLAIMING = {61: ("meta", 60, True, 0, 0), 62: ("meta", 60, False, 0, 0), 63: ("proxy", 2, True, 0, 0),
            64: ("proxy", 2, False, 0, 0), 65: ("meta", 60, True, 1, 0), 66: ("meta", 60, True, 0, 2),
            67: ("proxy", 2, True, 2, 0), 68: ("proxy", 2, True, 0, 1), 69: ("meta", 60, False, 1, 0),
            70: ("proxy", 2, False, 2, 0)}
CLASS_INFO[60] = ("D", [60], [])
for _c, _k in CLAIMING.items():
    CLASS_INFO[_c] = ("%s%d" % (_k[0].capitalize(), _c), [_c], [_k[1]] if _k[2] else [])


def claim_name(cid):
    """Name of the value class of a claiming object, for signatures."""
    kind, _, adapter, own, ad = CLAIMING[cid]
    return "%s%s%s" % ({"meta": "metaclass-instancecheck", "proxy": "class-property-proxy"}[kind],
                       "+adapter" if adapter else "+no-adapter",
                       "" if not (own or ad) else ":object-%s:adapter-%s" % (FLAVOURS[own], FLAVOURS[ad]))


def claiming_values(cids=None):
    """`inst` terms of the claiming objects: (inst cid (mro) (adapts-to) oid (claims klass))."""
    return ["(inst %d (%d) (%s) %d (claims %d))" % (c, c, CLAIMING[c][1] if CLAIMING[c][2] else "", c, CLAIMING[c][1])
            for c in sorted(CLAIMING) if cids is None or c in cids]


def flavoured(cls, flavour, name):
    """Subclass of cls whose instances are falsy: flavour 1 defines __bool__ returning False, 2 __len__ returning 0."""
    ns = {"__repr__": lambda self: "<%s>" % name}
    if flavour == 1:
        ns["__bool__"] = lambda self: False
    elif flavour == 2:
        ns["__len__"] = lambda self: 0
    return type(name, (cls,), ns)


def inst_flavours(cid):
    """(flavour of the object itself, flavour of the adapter its class's factory builds) of an `inst` value."""
    if 40 <= cid <= 48:
        return (cid - 40) // 3, (cid - 40) % 3
    if cid in (21, 22):
        return cid - 20, 0
    if cid in CLAIMING:
        return CLAIMING[cid][3], CLAIMING[cid][4]
    return 0, 0

TY_NAMES = ["str", "int", "float", "complex", "bool", "bytes", "list", "tuple", "dict", "function",
            "method", "type", "NoneType", "module", "npbool", "object"]

_WORLD = None


class World:
    pass


def world():
    """Classes that need traits / numpy; built once per process."""
    global _WORLD
    if _WORLD is not None:
        return _WORLD
    import types
    import numpy as np
    from traits.api import HasTraits
    from traits.adaptation.api import Adapter, register_factory
    w = World()
    w.np = np

    class O(HasTraits):
        def __repr__(self):
            return "<O>"

    class O1(O):
        def __repr__(self):
            return "<O1>"

    class P:
        def __repr__(self):
            return "<P>"

    class Q(P):
        def __repr__(self):
            return "<Q>"

    class R:
        def __repr__(self):
            return "<R>"

    class RtoP(Adapter):
        def __repr__(self):
            return "<RtoP>"

    class A(O):   # stand-in for the per-case class of C01 (replaced through Ctx(self_class))
        def __repr__(self):
            return "<A>"

    # the adapter objects themselves come in the three flavours: the registered factory picks the adapter class
    # from the class of the adaptee (a perfectly legitimate adapter may be an empty container view)
    w.adapters = {0: RtoP, 1: flavoured(RtoP, 1, "RtoP_b"), 2: flavoured(RtoP, 2, "RtoP_l")}

    def r_to_p(adaptee):
        return w.adapters[getattr(type(adaptee), "adapter_flavour", 0)](adaptee=adaptee)

    register_factory(r_to_p, R, P)
    w.classes = {0: O, 1: O1, 2: P, 3: Q, 4: R, 5: A, 6: FwdP, 7: FwdQ, 9: RtoP}
    for a in range(3):
        for b in range(3):
            if a or b:
                c = flavoured(R, a, "R_%d%d" % (a, b))
                c.adapter_flavour = b
                w.classes[40 + 3 * a + b] = c
    for a in (1, 2):
        w.classes[20 + a] = flavoured(P, a, "P_%d" % a)
    w.cid_of = {O: 0, O1: 1, P: 2, Q: 3, R: 4, RtoP: 9}
    w.types = {"str": str, "int": int, "float": float, "complex": complex, "bool": bool, "bytes": bytes,
               "list": list, "tuple": tuple, "dict": dict, "function": types.FunctionType,
               "method": types.MethodType, "type": type, "NoneType": type(None),
               "module": types.ModuleType, "npbool": np.bool_, "object": object}
    w.type_name = dict((v, k) for k, v in w.types.items())
    w.np_int = {8: np.int8, 16: np.int16, 32: np.int32, 64: np.int64, 108: np.uint8}
    w.np_float = {16: np.float16, 32: np.float32, 64: np.float64}
    w.np_complex = {64: np.complex64, 128: np.complex128}
    w.funcs = {0: func0, 1: (lambda: None)}
    w.methods = {0: _HOLDER.meth}
    w.builtins = {0: len}
    w.modules = {0: sys, 1: math}
    w.arrays = {0: np.array([1, 2]), 1: np.array([3.0, 4.0, 5.0])}
    w.dicts = {0: {}, 1: {"a": 1}}
    w.plain = {}
    w.badeq = {}
    w.insts = {}
    _claiming_classes(w, P, r_to_p, register_factory)
    _WORLD = w
    return w


def _claiming_classes(w, P, r_to_p, register_factory):
    """The classes of CLAIMING (cids 60-70): isinstance(value, klass) holds although type(value) is unrelated to
    klass; where CLAIMING says so the adapter factory of R is registered from the real type to the claimed class."""
    class DuckMeta(type):
        def __instancecheck__(cls, obj):
            return getattr(type(obj), "claims_d", False) or type.__instancecheck__(cls, obj)

    class D(metaclass=DuckMeta):
        def __repr__(self):
            return "<D>"

    w.classes[60] = D
    for cid, (kind, target, adapter, own, ad) in CLAIMING.items():
        name = CLASS_INFO[cid][0]
        ns = {"__repr__": (lambda n: lambda self: "<%s>" % n)(name), "adapter_flavour": ad}
        if kind == "meta":
            ns["claims_d"] = True
        else:
            ns["__class__"] = property(lambda self: P)
        c = type(name, (), ns)
        if own:
            c = flavoured(c, own, name)
        w.classes[cid] = c
        if adapter:
            register_factory(r_to_p, c, w.classes[target])


def falsy_mode(key):
    """0 = ordinary owner objects; 1 = the HasTraits owner class (and with it every HasTraits value of the
    lattice) defines __bool__ returning False; 2 = it defines __len__ returning 0.  Derived from the case's own
    text (crc32), so a replay keeps it.  Nothing in C01 / C03 depends on an object's truth value."""
    import zlib
    return (0, 0, 1, 2)[zlib.crc32(key.encode()) % 4]


class falsy:
    """Context manager installing / removing the special method on the owner base class O."""

    def __init__(self, mode):
        self.mode = mode

    def __enter__(self):
        O = world().classes[0]
        if self.mode == 1:
            O.__bool__ = lambda self: False
        elif self.mode == 2:
            O.__len__ = lambda self: 0
        return self

    def __exit__(self, *a):
        O = world().classes[0]
        if self.mode == 1:
            del O.__bool__
        elif self.mode == 2:
            del O.__len__
        return False


class Ctx:
    """Per-case object table: the same term denotes the same object within a case."""

    def __init__(self, self_class=None):
        self.w = world()
        self.classes = dict(self.w.classes)
        if self_class is not None:
            self.classes[5] = self_class
        self.objs = {}
        self.rev = {}

    def remember(self, key, make):
        if key not in self.objs:
            o = make()
            self.objs[key] = o
            self.rev[id(o)] = key
        return self.objs[key]


# --------------------------------------------------------------------------
# terms -> objects
# --------------------------------------------------------------------------

def _pr(x, conv):
    if x[0] == "exc":
        return ("exc", x[1])
    return ("ret", conv(x[1:]))


def build_type(t, ctx):
    if isinstance(t, list):
        return ctx.classes[int(t[1])]
    return ctx.w.types[t]


def build_value(t, ctx):
    w = ctx.w
    if t == "N":
        return None
    h = t[0]
    if h == "b":
        return t[1] == "1"
    if h == "i":
        return int(t[1])
    if h == "is":
        return MyInt(int(t[1]))
    if h == "f":
        return parse_f(t[1])
    if h == "fs":
        return MyFloat(parse_f(t[1]))
    if h == "c":
        return complex(parse_f(t[1]), parse_f(t[2]))
    if h == "cs":
        return MyComplex(complex(parse_f(t[1]), parse_f(t[2])))
    if h == "s":
        return dec(t[1]) if len(t) > 1 else ""
    if h == "ss":
        return MyStr(dec(t[1]) if len(t) > 1 else "")
    if h == "y":
        return (dec(t[1]) if len(t) > 1 else "").encode("latin-1")
    if h == "nb":
        return w.np.bool_(t[1] == "1")
    if h == "ni":
        return w.np_int[int(t[1])](int(t[2]))
    if h == "nf":
        return w.np_float[int(t[1])](parse_f(t[2]))
    if h == "nc":
        return w.np_complex[int(t[1])](complex(parse_f(t[2]), parse_f(t[3])))
    if h == "arr":
        return w.arrays[int(t[1])]
    if h == "nd":
        return w.np.zeros(tuple(int(x) for x in t[2]), DTYPES[int(t[1])])
    key = show_sexp(t)
    if h == "idx":
        return ctx.remember(key, lambda: Idx(_pr(t[1], lambda a: int(a[0]))))
    if h == "flt":
        return ctx.remember(key, lambda: Flt(_pr(t[1], lambda a: parse_f(a[0]))))
    if h == "cpx":
        return ctx.remember(key, lambda: Cpx(_pr(t[1], lambda a: complex(parse_f(a[0]), parse_f(a[1])))))
    if h == "idxflt":
        return ctx.remember(key, lambda: IdxFlt(_pr(t[1], lambda a: int(a[0])), _pr(t[2], lambda a: parse_f(a[0]))))
    if h == "inst":
        cid = int(t[1])

        def mk():
            if cid == 9:
                return ctx.classes[9](adaptee=None)
            return ctx.classes[cid]()
        return ctx.remember(key, mk)
    if h == "cls":
        return ctx.classes[int(t[1])]
    if h == "ty":
        return build_type(t[1], ctx)
    if h == "fn":
        return w.funcs[int(t[1])]
    if h == "meth":
        return w.methods[int(t[1])]
    if h == "bfn":
        return w.builtins[int(t[1])]
    if h == "mod":
        return w.modules[int(t[1])]
    if h == "obj":
        return ctx.remember(key, Plain)
    if h == "badeq":
        return ctx.remember(key, BadEq)
    if h == "dict":
        return w.dicts[int(t[1])]
    if h == "t":
        return tuple(build_value(x, ctx) for x in t[1:])
    if h == "ts":
        return MyTuple(build_value(x, ctx) for x in t[1:])
    if h == "l":
        return [build_value(x, ctx) for x in t[1:]]
    if h == "st":          # a set (implementation-only streams: the Lean driver has no such term)
        return set(build_value(x, ctx) for x in t[1:])
    if h == "dd":          # a dict given by (key value) pairs (implementation-only streams)
        return dict((build_value(k, ctx), build_value(v, ctx)) for k, v in t[1:])
    raise ValueError("unknown value term " + show_sexp(t))


# --------------------------------------------------------------------------
# objects -> terms (canonical: exact type tag + payload)
# --------------------------------------------------------------------------

def _strpay(tag, s):
    s = _ADDR.sub("0xX", s)
    return [tag, enc(s)] if s else [tag]


def canon(o, ctx):
    w = ctx.w
    np = w.np
    if o is None:
        return "N"
    k = ctx.rev.get(id(o))
    if k is not None:
        return parse_sexp(k)
    t = type(o)
    if t is bool:
        return ["b", "1" if o else "0"]
    if t is int:
        return ["i", str(o)]
    if t is MyInt:
        return ["is", str(int(o))]
    if t is float:
        return ["f", show_f(o)]
    if t is MyFloat:
        return ["fs", show_f(o)]
    if t is complex:
        return ["c", show_f(o.real), show_f(o.imag)]
    if t is MyComplex:
        return ["cs", show_f(o.real), show_f(o.imag)]
    if t is str:
        return _strpay("s", o)
    if t is MyStr:
        return _strpay("ss", str.__str__(o))
    if t is bytes:
        return _strpay("y", o.decode("latin-1"))
    if t is np.bool_:
        return ["nb", "1" if o else "0"]
    for bits, nt in w.np_int.items():
        if t is nt:
            return ["ni", str(bits), str(int(o))]
    for bits, nt in w.np_float.items():
        if t is nt:
            return ["nf", str(bits), show_f(float(o))]
    for bits, nt in w.np_complex.items():
        if t is nt:
            return ["nc", str(bits), show_f(float(o.real)), show_f(float(o.imag))]
    if t is tuple:
        return ["t"] + [canon(x, ctx) for x in o]
    if t is MyTuple:
        return ["ts"] + [canon(x, ctx) for x in o]
    if t is list:
        return ["l"] + [canon(x, ctx) for x in o]
    if t is set:
        return ["st"] + sorted((canon(x, ctx) for x in o), key=show_sexp)
    if isinstance(o, type):
        for cid, c in ctx.classes.items():
            if o is c:
                return ["cls", str(cid), [str(x) for x in CLASS_INFO[cid][1]]]
        if o in w.type_name:
            return ["ty", w.type_name[o]]
        return ["unk", "type"]
    for table, tag in ((w.funcs, "fn"), (w.methods, "meth"), (w.builtins, "bfn"), (w.modules, "mod"),
                       (w.dicts, "dict")):
        for i, x in table.items():
            if o is x or (tag == "meth" and getattr(o, "__self__", None) is x.__self__
                          and getattr(o, "__func__", None) is x.__func__):
                return [tag, str(i)]
    if t is np.ndarray:
        return ["nd", str(dtype_code(o.dtype)), [str(x) for x in o.shape]]
    if isinstance(o, ctx.classes[9]):
        a = o.adaptee
        ak = ctx.rev.get(id(a))
        oid = 1000 + int(parse_sexp(ak)[4]) if ak else 999
        return ["inst", "9", ["9"], [], str(oid)]
    return ["unk", enc(t.__name__)]


def show_value(o, ctx):
    return show_sexp(canon(o, ctx))


def show_outcome(f, ctx):
    """Run f(); canonical `ok <term>` / `TraitError` / `exc Name`; also returns the raw result."""
    try:
        with warnings.catch_warnings():
            warnings.simplefilter("ignore")
            r = f()
    except BaseException as e:  # noqa: B902
        n = exc_name(e)
        return ("TraitError" if n == "TraitError" else "exc " + n), None, e
    return "ok " + show_value(r, ctx), r, None


# --------------------------------------------------------------------------
# trait terms -> real traits
# --------------------------------------------------------------------------

ADAPT = {0: "no", 1: "yes", 2: "default"}


def opt_f(x):
    return None if x == "N" else parse_f(x)


def build_trait(t, ctx):
    """TraitType / legacy handler object for the term."""
    import traits.api as T
    if isinstance(t, str):
        simple = {"Any": T.Any, "Int": T.Int, "Float": T.Float, "Complex": T.Complex, "Str": T.Str,
                  "Bytes": T.Bytes, "Bool": T.Bool, "CInt": T.CInt, "CFloat": T.CFloat,
                  "CComplex": T.CComplex, "CStr": T.CStr, "CBytes": T.CBytes, "CBool": T.CBool,
                  "Module": T.Module, "TupleAny": T.Tuple}
        if t == "NoneT":
            return None
        return simple[t]()
    h = t[0]
    if h == "Base":
        s = t[1]
        if isinstance(s, str):
            import traits.trait_types as TT
            return getattr(TT, "Base" + s)()
        base = {"RangeF": T.BaseRange, "RangeI": T.BaseRange, "Enum": T.BaseEnum,
                "Instance": T.BaseInstance, "Callable": T.BaseCallable}[s[0]]
        return _build_with(s, ctx, base)
    return _build_with(t, ctx, None)


def _build_with(t, ctx, cls):
    import traits.api as T
    import traits.trait_handlers as H
    h = t[0]
    if h == "RangeF":
        return (cls or T.Range)(opt_f(t[1]), opt_f(t[2]), exclude_low=t[3] == "1", exclude_high=t[4] == "1")
    if h == "RangeI":
        lo = None if t[1] == "N" else int(t[1])
        hi = None if t[2] == "N" else int(t[2])
        return (cls or T.Range)(lo, hi, exclude_low=t[3] == "1", exclude_high=t[4] == "1")
    if h == "Enum":
        return (cls or T.Enum)([build_value(x, ctx) for x in t[1:]])
    if h == "Map":
        return T.Map(dict((build_value(k, ctx), build_value(v, ctx)) for k, v in t[1:]))
    if h == "Tuple":
        return T.Tuple(*[_inner(x, ctx) for x in t[1:]])
    if h == "BaseTuple":
        return T.BaseTuple(*[_inner(x, ctx) for x in t[1:]])
    if h == "ValidatedTuple":
        kw = {} if t[1] == "N" else {"fvalidate": PREDS[int(t[1])]}
        return T.ValidatedTuple(*[_inner(x, ctx) for x in t[2:]], **kw)
    if h == "Instance":
        return (cls or T.Instance)(build_type(t[1], ctx), allow_none=t[2] == "1", adapt=ADAPT[int(t[3])])
    if h == "InstanceF":
        # a FORWARD REFERENCE: the class is named, looked up at the first validation that reaches it
        return T.Instance(__name__ + ".FwdP", allow_none=t[1] == "1")
    if h == "Type":
        return T.Type(klass=build_type(t[1], ctx), allow_none=t[2] == "1")
    if h == "This":
        return T.This(allow_none=t[1] == "1")
    if h == "Callable":
        return T.Callable(allow_none=t[1] == "1") if cls is None else cls()
    if h == "Either":
        alts = [_inner(x, ctx) for x in t[2:]]
        if t[1] == "1":
            alts.append(None)
        return T.Either(*alts)
    if h == "TraitK":
        # Trait(default, c1, c2, …, T1, …): the _TraitMaker factory sorts constants and members itself
        return T.Trait(build_value(t[1], ctx), *([build_value(c, ctx) for c in t[2]] + [_inner(x, ctx) for x in t[3:]]))
    if h == "EitherK":
        return T.Either(*([build_value(c, ctx) for c in t[1]] + [_inner(x, ctx) for x in t[2:]]))
    if h == "Union":
        return T.Union(*[_inner(x, ctx) for x in t[1:]])
    if h == "String":
        kw = {"minlen": int(t[1])}
        if t[2] != "N":
            kw["maxlen"] = int(t[2])
        if t[3] != "N":
            kw["regex"] = REGEXES[int(t[3])]
        return T.String(**kw)
    if h == "Array":
        from traits.api import Array
        return Array(dtype=None if t[1] == "N" else DTYPES[int(t[1])], shape=shape_spec(t[2]),
                     casting=CASTINGS[int(t[3])])
    if h == "PrefixList":
        return T.PrefixList([dec(x) for x in t[1:]])
    if h == "PrefixMap":
        return T.PrefixMap(dict((dec(k), build_value(v, ctx)) for k, v in t[1:]))
    # ---- terms of the implementation-only (`#`) streams: the Lean driver does not know them
    if h == "List":
        return T.List(_inner(t[1], ctx))
    if h == "Dict":
        return T.Dict()
    if h == "Set":
        return T.Set()
    if h == "SetOf":
        return T.Set(_inner(t[1], ctx))
    if h == "DictOf":
        return T.Dict(_inner(t[1], ctx), _inner(t[2], ctx))
    if h == "Supports":
        return T.Supports(build_type(t[1], ctx), allow_none=t[2] == "1")
    if h == "AdaptsTo":
        return T.AdaptsTo(build_type(t[1], ctx), allow_none=t[2] == "1")
    if h == "CoerceH":
        return H.TraitCoerceType(build_type(t[1], ctx))
    if h == "CastH":
        return H.TraitCastType(build_type(t[1], ctx))
    if h == "InstanceH":
        return H.TraitInstance(build_type(t[1], ctx), allow_none=t[2] == "1")
    if h == "InstanceHF":
        # the legacy handler with a FORWARD REFERENCE: (InstanceHF allow_none 0) names the class with module=...,
        # (InstanceHF allow_none 1) with a dotted name
        if t[2] == "1":
            return H.TraitInstance(__name__ + ".FwdP", allow_none=t[1] == "1")
        return H.TraitInstance("FwdP", allow_none=t[1] == "1", module=__name__)
    if h == "Clone":
        # CLONE BY CALL: T(allow_none=b) = T.clone(allow_none=b).as_ctrait() (TraitType.__call__); a CTrait
        return build_trait(t[1], ctx)(allow_none=t[2] == "1")
    if h == "FunctionH":
        return H.TraitFunction(FUNCS[int(t[1])])
    if h == "EnumH":
        return H.TraitEnum([build_value(x, ctx) for x in t[1:]])
    if h == "MapH":
        return H.TraitMap(dict((build_value(k, ctx), build_value(v, ctx)) for k, v in t[1:]))
    if h == "CompoundH":
        return H.TraitCompound([_handler(x, ctx) for x in t[1:]])
    raise ValueError("unknown trait term " + show_sexp(t))


def shape_spec(t):
    if t == "N":
        return None
    out = []
    for d in t:
        if d == "N":
            out.append(None)
        elif isinstance(d, list):
            out.append((int(d[0]), None if d[1] == "N" else int(d[1])))
        else:
            out.append(int(d))
    return tuple(out)


def array_traits(t, acc):
    """(dtype, casting) options of the Array traits in term t."""
    if isinstance(t, list) and t:
        if t[0] == "Array":
            acc.add((t[1], int(t[3])))
        elif t[0] in ("Base", "Tuple", "BaseTuple", "Union", "CompoundH", "Either"):
            for x in t[1:]:
                array_traits(x, acc)
    return acc


def _inner(t, ctx):
    """An argument of Tuple / Either / Union: trait types as they are, legacy
    handlers wrapped into a CTrait (what `Trait(handler)` gives)."""
    import traits.api as T
    o = build_trait(t, ctx)
    if o is None:
        return None
    if isinstance(o, T.TraitType):
        return o
    return T.Trait(o)


def _handler(t, ctx):
    """A member of TraitCompound([...]): handlers as they are; Either has no
    handler interface of its own, its handler is the TraitCompound it builds
    (what _TraitMaker.do_list substitutes)."""
    import traits.api as T
    o = build_trait(t, ctx)
    if isinstance(o, T.Either):
        return o.as_ctrait().handler
    return o


def as_ctrait(o):
    import traits.api as T
    if isinstance(o, T.CTrait):
        return o
    if isinstance(o, T.TraitType):
        return o.as_ctrait()
    return T.Trait(o)


# --------------------------------------------------------------------------
# descriptor rendering (twin of Driver/Val.lean showDesc)
# --------------------------------------------------------------------------

def show_ty_obj(tp, ctx):
    w = ctx.w
    for cid, c in ctx.classes.items():
        if tp is c:
            return "(u %d)" % cid
    return w.type_name.get(tp, "?" + getattr(tp, "__name__", "?"))


def show_desc(fv, ctx):
    from traits.ctrait import CTrait
    if fv is None:
        return "none"
    if callable(fv) and not isinstance(fv, tuple):
        return "(14)"
    k = int(fv[0])
    if k in (0, 1):
        return "(%d %d %s)" % (k, 1 if len(fv) == 3 else 0, show_ty_obj(fv[-1], ctx))
    if k == 2:
        return "(2 %d)" % (1 if len(fv) == 2 else 0)
    if k == 4:
        return "(4 %s %s %d)" % ("N" if fv[1] is None else show_f(fv[1]), "N" if fv[2] is None else show_f(fv[2]), fv[3])
    if k == 5:
        return "(" + " ".join(["5"] + [show_value(x, ctx) for x in fv[1]]) + ")"
    if k == 6:
        return "(" + " ".join(["6"] + [show_value(x, ctx) for x in fv[1]]) + ")"
    if k == 7:
        return "(" + " ".join(["7"] + [show_desc(x, ctx) for x in fv[1]]) + ")"
    if k == 8:
        return "(8)"
    if k == 9:
        items = []
        for ct in fv[1]:
            assert isinstance(ct, CTrait)
            v = ct.handler.fast_validate if getattr(ct.handler, "fast_validate", None) is not None else None
            if v is not None:
                items.append(show_desc(v, ctx))
            elif getattr(ct.handler, "validate", None) is not None:
                items.append("(14)")
            else:
                items.append("null")
        return "(" + " ".join(["9"] + items) + ")"
    if k == 11:
        return "(" + " ".join(["11"] + ["N" if x is None else show_ty_obj(x, ctx) for x in fv[1:]]) + ")"
    if k == 12:
        return "(12 %s)" % show_ty_obj(fv[1], ctx)
    if k == 13:
        return "(13 %d)" % FUNCS.index(fv[1])
    if k == 19:
        return "(19 %s %d %d)" % (show_ty_obj(fv[1], ctx), fv[2], 1 if fv[3] else 0)
    if k == 22:
        return "(22)" if len(fv) == 1 else "(22 %d)" % (1 if fv[1] else 0)
    if k in (20, 21, 23):
        return "(%d)" % k
    return "(?%d)" % k


# --------------------------------------------------------------------------
# external behaviour sent on the case line: T(v) tables, regex matches
# --------------------------------------------------------------------------

CAST_OF = {"CInt": "int", "CFloat": "float", "CComplex": "complex", "CStr": "str", "CBytes": "bytes",
           "CBool": "bool", "Bool": "bool"}


def cast_types(t, acc):
    """Type names whose constructor the validators of trait term t may call."""
    if isinstance(t, str):
        if t in CAST_OF:
            acc.add(CAST_OF[t])
        return acc
    h = t[0]
    if h in ("CoerceH", "CastH"):
        if isinstance(t[1], str) and t[1] in ("int", "float", "complex", "str", "bytes", "bool", "tuple", "list"):
            acc.add(t[1])
    elif h == "String":
        acc.add("str")
    elif h in ("Base", "Tuple", "BaseTuple", "Union", "CompoundH"):
        for x in t[1:]:
            cast_types(x, acc)
    elif h in ("Either", "ValidatedTuple", "EitherK"):
        for x in t[2:]:
            cast_types(x, acc)
    elif h == "TraitK":
        for x in t[3:]:
            cast_types(x, acc)
    return acc


def regex_ids(t, acc):
    if isinstance(t, str):
        return acc
    h = t[0]
    if h == "String" and t[3] != "N":
        acc.add(int(t[3]))
    elif h in ("Base", "Tuple", "BaseTuple", "Union", "CompoundH"):
        for x in t[1:]:
            regex_ids(x, acc)
    elif h in ("Either", "ValidatedTuple", "EitherK"):
        for x in t[2:]:
            regex_ids(x, acc)
    elif h == "TraitK":
        for x in t[3:]:
            regex_ids(x, acc)
    return acc


def sub_values(v, acc):
    acc.append(v)
    if isinstance(v, list) and v and v[0] in ("t", "ts", "l"):
        for x in v[1:]:
            sub_values(x, acc)
    return acc


def env_for(tts, vals, self_cid=0):
    """The `env` field for trait terms x value terms: outcome of T(v) for every
    cast type and every sub-value, regex matches of the resulting strings.
    Computed with the plain builtins / numpy / re — no traits code involved."""
    types_, rxs = set(), set()
    for tt in tts:
        cast_types(tt, types_)
        regex_ids(tt, rxs)
    parts = []
    if self_cid:
        parts.append("(self %d)" % self_cid)
    if types_:
        ctx = Ctx()
        seen = set()
        subs = []
        for v in vals:
            for s in sub_values(v, []):
                k = show_sexp(s)
                if k not in seen:
                    seen.add(k)
                    subs.append(s)
        strs = set()
        for s in subs:
            o = build_value(s, ctx)
            for tn in sorted(types_):
                tp = ctx.w.types[tn]
                out, r, _ = show_outcome(lambda: tp(o), ctx)
                if "(unk" in out:
                    continue  # not expressible: the model answers `exc Other` if it ever asks
                parts.append("(cast %s %s %s)" % (tn, show_sexp(s), out))
                if tn == "str" and r is not None and type(r) is str:
                    strs.add(_ADDR.sub("0xX", r))
        for k in sorted(rxs):
            for s in sorted(strs):
                m = re.compile(REGEXES[k]).match(s) is not None
                parts.append("(rx %d %s %d)" % (k, enc(s), 1 if m else 0) if s else "(rx %d %d)" % (k, 1 if m else 0))
    arrs = set()
    for tt in tts:
        array_traits(tt, arrs)
    if arrs:
        import numpy as np
        ctx = Ctx()
        for dt in sorted(set(d for d, _ in arrs)):
            for v in vals:
                if isinstance(v, list) and v and v[0] in ("t", "ts", "l"):
                    o = build_value(v, ctx)
                    try:
                        with warnings.catch_warnings():
                            warnings.simplefilter("ignore")
                            a = np.asarray(o) if dt == "N" else np.asarray(o, DTYPES[int(dt)])
                        parts.append("(asarray %s %s ok %d (%s))" % (show_sexp(v), dt, dtype_code(a.dtype),
                                                                      " ".join(str(x) for x in a.shape)))
                    except Exception as e:
                        parts.append("(asarray %s %s exc %s)" % (show_sexp(v), dt, exc_name(e)))
        for dt, c in sorted(arrs):
            if dt != "N":
                for src in DTYPES:
                    ok = np.can_cast(np.dtype(DTYPES[src]), np.dtype(DTYPES[int(dt)]), casting=CASTINGS[c])
                    parts.append("(cancast %d %s %d %d)" % (src, dt, c, 1 if ok else 0))
    return " ".join(parts) if parts else "-"


# --------------------------------------------------------------------------
# the value lattice
# --------------------------------------------------------------------------

def F(x):
    return show_f(x)


def lattice():
    """~150 value terms (strings in the term syntax)."""
    big = 10 ** 400
    L = ["N", "(b 1)", "(b 0)"]
    for n in (-1, 0, 1, 2, 3, 5, 255, 2 ** 53 - 1, 2 ** 53 + 1, 2 ** 53 + 2, 2 ** 53 + 3, big, -big,
              2 ** 1024 - 2 ** 970, 2 ** 1024 - 2 ** 970 - 1):
        L.append("(i %d)" % n)
    L += ["(is 0)", "(is 3)", "(is -1)"]
    for x in (-1.5, -1.0, -0.0, 0.0, 0.5, 1.0, 1.5, 2.0, 2.5, 3.0, math.nan, math.inf, -math.inf, 1e300,
              2.0 ** 53, 2.0 ** 53 + 2):
        L.append("(f %s)" % F(x))
    L += ["(fs %s)" % F(1.0), "(fs nan)", "(fs %s)" % F(2.5)]
    L += ["(c 0 0)", "(c 4 0)", "(c 6 8)", "(c nan 0)", "(c 4 inf)", "(c 4 -0)", "(cs 4 8)"]
    for s in ("", "a", "abc", "abcd", "yes", "y", "ye", "no", "n", "yellow", "12", " 7 ", "1.5", "nan", "1+2j", "xxxxxx",
              "AB", "ABCDEF"):
        L.append("(s %s)" % enc(s) if s else "(s)")
    L += ["(ss a)", "(ss yes)", "(ss y)", "(y)", "(y a)", "(y 12)"]
    L += ["(t)", "(t (i 1))", "(t (i 1) (i 2))", "(t (i 1) (f 8))", "(t (b 1) (i 2))", "(t (i 1) (s a))",
          "(t (s a) (i 1))", "(t (f 6) (s a))", "(t (i 1) (i 2) (i 3))", "(t (t (i 1) (i 2)) (s a))",
          "(t N N)", "(t (f nan) (i 1))", "(ts (i 1) (i 2))", "(ts (i 1) (f 8))", "(ts (i 1) (s a))", "(ts)",
          "(ts (b 1) (i 2))", "(t (i %d) (i 1))" % big, "(t (idx (exc ValueError)) (i 1))",
          "(t (i 1) (idx (exc ValueError)))", "(t (inst 2 (2) () 3) (bfn 0))", "(t (f 4) (i 1))",
          "(t (f 2) (s yes))", "(t (idx (ret 3)) (i 4))", "(l (i 1) (f 10))", "(t (i 5) (f 8))", "(l (b 1) (i 7))"]
    L += ["(l)", "(l (i 1))", "(l (i 1) (i 2))", "(l (i 1) (s a))", "(l (s a))"]
    L += ["(nb 1)", "(nb 0)", "(ni 8 3)", "(ni 32 -1)", "(ni 64 2)", "(ni 108 255)", "(ni 64 %d)" % (2 ** 53 + 1),
          "(nf 16 6)", "(nf 32 2)", "(nf 32 nan)", "(nf 64 10)", "(nf 64 inf)", "(nf 64 -0)",
          "(nc 64 4 8)", "(nc 128 6 0)", "(nd 2 (2))"]
    L += ["(nd 4 (3))", "(nd 1 (3))", "(nd 4 (2 3))", "(nd 0 (0))", "(nd 2 (2 2 2))", "(nd 3 (3))",
          "(l (f 4) (f 8) (f 12))", "(t (t (i 1) (i 2) (i 3)) (t (i 4) (i 5) (i 6)))"]
    L += ["(idx (ret 3))", "(idx (ret -1))", "(idx (ret %d))" % big]
    L += ["(idx (exc %s))" % e for e in EXC]
    L += ["(flt (ret 6))", "(flt (ret nan))"] + ["(flt (exc %s))" % e for e in EXC]
    L += ["(cpx (ret 4 8))"] + ["(cpx (exc %s))" % e for e in EXC]
    L += ["(idxflt (ret 3) (ret 10))", "(idxflt (ret 3) (exc ValueError))", "(idxflt (exc TypeError) (ret 4))"]
    L += ["(inst 0 (0) () 1)", "(inst 1 (1 0) () 2)", "(inst 2 (2) () 3)", "(inst 3 (3 2) () 4)",
          "(inst 4 (4) (2) 5)", "(inst 2 (2) () 6)"]
    L += INST_FALSY
    L += ["(cls 0 (0))", "(cls 1 (1 0))", "(cls 2 (2))", "(cls 3 (3 2))", "(cls 4 (4))",
          "(ty int)", "(ty float)", "(ty str)", "(ty bool)", "(ty object)"]
    L += ["(fn 0)", "(fn 1)", "(meth 0)", "(bfn 0)", "(mod 0)", "(mod 1)", "(obj 0)", "(badeq 0)",
          "(dict 0)", "(dict 1)"]
    return L


# falsy objects wherever adaptation looks at a value: adaptees whose ADAPTER is falsy (41 __bool__, 42 __len__),
# falsy adaptees with a truthy / falsy adapter (43, 47), falsy instances of the target class itself (21, 22)
INST_FALSY = ["(inst 41 (41 4) (2) 21)", "(inst 42 (42 4) (2) 22)", "(inst 43 (43 4) (2) 23)", "(inst 47 (47 4) (2) 24)",
              "(inst 21 (21 2) () 25)", "(inst 22 (22 2) () 26)"]
INST_VALUES = INST_FALSY + ["(inst 4 (4) (2) 5)", "(inst 2 (2) () 3)", "(inst 3 (3 2) () 4)", "(inst 0 (0) () 1)"]


def value_class(t):
    """Coarse class of a value term, for signatures and the tag distribution."""
    if isinstance(t, str):
        return t
    h = t[0]
    if h == "f" or h == "fs":
        return h + (":" + t[1] if t[1] in ("nan", "inf", "-inf", "-0") else "")
    if h in ("ni", "nf", "nc"):
        return h + t[1]
    if h == "nd":
        return "nd"
    if h in ("idx", "flt", "cpx"):
        return h + ":" + (t[1][1] if t[1][0] == "exc" else "ret")
    if h == "i":
        return "i:big" if abs(int(t[1])) >= 2 ** 53 else "i"
    if h == "inst":
        return "inst" + t[1]
    if h == "cls":
        return "cls"
    return h


def trait_head(t):
    """Constructor name plus the options that select the validator."""
    if isinstance(t, str):
        return t
    h = t[0]
    if h == "Base":
        return "Base" + trait_head(t[1])
    if h in ("RangeF", "RangeI"):
        return h
    if h == "Instance":
        return "Instance(%s,adapt=%s)" % (t[1] if isinstance(t[1], str) else "cls", t[3])
    if h in ("Callable", "This"):
        return "%s(allow_none=%s)" % (h, t[1])
    if h in ("CoerceH", "CastH"):
        return "%s(%s)" % (h, t[1] if isinstance(t[1], str) else "cls")
    if h == "FunctionH":
        return "FunctionH(%s)" % t[1]
    return h


# --------------------------------------------------------------------------
# the trait-type option grid
# --------------------------------------------------------------------------

BOUNDS = [("N", -1), ("N", 0), ("N", 2), (-1, "N"), (0, "N"), (2, "N"), (-1, 0), (-1, 2), (0, 2), (0, 0)]


def fb(x):
    return "N" if x == "N" else str(4 * x)


def ib(x):
    return "N" if x == "N" else str(x)


ENUMS = ["(i 1) (i 2) (i 3)", "(s a) (s b)", "(f 4) (s a) N", "(t (i 1) (i 2)) (t (i 3) (i 4))",
         "(b 1) (i 2)", "(f nan) (i 1)", "(l (i 1)) (i 2)", "(inst 2 (2) () 3) (obj 0)",
         "(i %d) (f -0)" % (2 ** 53 + 1), "(c 4 0) (y a)"]
MAPS = ["((s yes) (i 1)) ((s no) (i 0))", "((i 1) (s a)) ((f 10) (s b)) (N (s c))", "((t (i 1) (i 2)) (i 3))"]


def single_traits():
    """Trait terms of the single-trait grid."""
    out = ["Int", "Float", "Complex", "Str", "Bytes", "Bool", "CInt", "CFloat", "CComplex", "CStr",
           "CBytes", "CBool", "Module", "TupleAny", "Any"]
    out += ["(Base %s)" % x for x in ("Int", "Float", "Complex", "Str", "Bytes", "Bool", "CInt", "CFloat",
                                        "CComplex", "CStr", "CBytes", "CBool")]
    for lo, hi in BOUNDS:
        for a in "01":
            for b in "01":
                out.append("(RangeF %s %s %s %s)" % (fb(lo), fb(hi), a, b))
    for lo, hi in [("N", 2), (-1, "N"), (-1, 2), (0, 2), (0, 0)]:
        for a in "01":
            for b in "01":
                out.append("(RangeI %s %s %s %s)" % (ib(lo), ib(hi), a, b))
    out += ["(Base (RangeF 0 8 0 0))", "(Base (RangeF -4 N 1 0))", "(Base (RangeF N 8 0 1))"]
    out += ["(Enum %s)" % e for e in ENUMS]
    out += ["(Base (Enum %s))" % e for e in ENUMS[:3]]
    out += ["(Map %s)" % m for m in MAPS]
    out += ["(Tuple Int)", "(Tuple Int Int)", "(Tuple Int Float)", "(Tuple Float Str)", "(Tuple CInt Any)",
            "(Tuple (RangeF 0 8 0 0) (Enum (s a) (s yes)))", "(Tuple (Tuple Int Int) Str)",
            "(Tuple (Instance (u 2) 1 0 N) (Callable 1))", "(Tuple (Base Int) (RangeI 0 2 0 0))",
            "(Tuple Bool Complex)", "(Tuple (Either 1 Int Str) Float)", "(Tuple (CastH float) (CoerceH int))",
            "(Tuple (Instance (u 2) 1 2 N) Int)", "(Union (Instance (u 2) 0 2 N) Str)",
            "(Tuple (Instance (u 2) 0 1 N) Int)", "(Union Str (Instance (u 2) 1 1 N))",
            "(Either 0 (Instance (u 2) 0 1 N) Str)", "(Either 0 Int (Instance (u 2) 1 1 N))",
            "(BaseTuple Int Int)", "(BaseTuple Float Str)", "(BaseTuple (Tuple Int Int) Str)"]
    for c in ("(u 2)", "(u 0)"):
        for an in "01":
            for mode in "012":
                out.append("(Instance %s %s %s N)" % (c, an, mode))
    for c in ("int", "str", "tuple", "object", "NoneType"):
        for an in "01":
            out.append("(Instance %s %s 0 N)" % (c, an))
    out += ["(Base (Instance (u 2) 1 0 N))", "(Base (Instance (u 2) 0 1 N))"]
    for c in ("(u 2)", "object", "int"):
        for an in "01":
            out.append("(Type %s %s)" % (c, an))
    out += ["(This 1)", "(This 0)", "(Callable 1)", "(Callable 0)", "(Base (Callable 1))"]
    out += ["(String 0 N N)", "(String 1 3 N)", "(String 0 N 0)", "(String 2 5 1)", "(String 0 2 N)", "(String 3 N N)"]
    # every combination of {no minlen, minlen} x {no maxlen, maxlen} x {no regex, regex}: String._init picks
    # one of four validators from exactly these three tests
    for mn in ("0", "3"):
        for mx in ("N", "4"):
            for rx in ("N", "0"):
                term = "(String %s %s %s)" % (mn, mx, rx)
                if term not in out:
                    out.append(term)
    out += ["(ValidatedTuple N Int Float)", "(ValidatedTuple 0 Int Float)", "(ValidatedTuple 0 Int Int)",
            "(ValidatedTuple N (Base Int) Str)", "(ValidatedTuple N CFloat (Tuple Int Int))"]
    out += ["(PrefixList yes no yellow)", "(PrefixMap (yes (i 1)) (no (i 0)) (yellow (i 2)))"]
    out += ["(Array N N 0)", "(Array 4 N 0)", "(Array 4 (3) 0)", "(Array 1 (N 3) 2)", "(Array 4 ((1 3)) 4)",
            "(Array N ((2 N) 3) 0)", "(Array 2 N 1)", "(Array 3 (3) 2)"]
    out += ["(CoerceH %s)" % t for t in ("str", "int", "float", "complex", "list", "tuple", "dict", "function",
                                          "method", "type", "NoneType", "bool", "bytes")]
    out += ["(CastH %s)" % t for t in ("int", "float", "complex", "str", "bytes", "bool", "tuple", "list")]
    out += ["(InstanceH (u 2) 1)", "(InstanceH (u 2) 0)", "(InstanceH int 1)", "(InstanceH int 0)",
            "(InstanceH object 0)", "(InstanceH object 1)"]
    out += ["(FunctionH %d)" % i for i in range(4)]
    out += ["(EnumH %s)" % e for e in ENUMS[:4]]
    out += ["(MapH %s)" % m for m in MAPS[:2]]
    out += ["(Union Int Str)", "(Union NoneT Float)", "(Union (Callable 0) Int)", "(Union (Tuple Int Int) (RangeI 0 2 0 0))"]
    # numpy scalars against Bool / Int / Float / Complex alternatives INSIDE compounds (the coercing arm of
    # validate_trait_complex is a separate copy of the code)
    out += ["(Either 1 Bool)", "(Either 0 Bool Str)", "(Either 0 Str Bool)", "(Either 0 Int Str)", "(Either 0 Float Str)",
            "(Either 0 Str Float Int)", "(CompoundH Bool Int)", "(Either 1 Complex)", "(Either 0 (Tuple Bool Int) Str)"]
    # definitions made by the _TraitMaker factory that mix enumerated constants with members:
    # Either(c1, c2, T…) (default None) and Trait(default, c1, c2, T…); default listed / not listed, with / without None
    out += ["(EitherK ((i 1) (i 2)) Str)", "(EitherK ((i 1) (i 2) N) Str)", "(EitherK ((s a) (f 4)) Int Float)",
            "(TraitK (i 5) ((i 1) (i 2)) Str)", "(TraitK (i 1) ((i 1) (i 2)) Str)", "(TraitK N ((i 1) (s a)) Int)",
            "(TraitK (i 5) ((i 1) (i 2)))", "(TraitK (i 1) ((i 1) (i 2)))", "(TraitK (s abc) ((s a) N) Float Str)",
            "(TraitK (f 6) ((i 1) (i 2)) Int Bytes)"]
    out += ["(Either 1 Int Str)", "(Either 0 Float Int)", "(Either 0 CInt Float)", "(Either 0 (Callable 0) Int)",
            "(Either 1 (RangeF 0 8 1 0) (Tuple Int Int))", "(Either 0 Int (RangeI 0 2 0 0) Str)",
            "(Either 0 (Enum (i 1) (i 2)) (Instance (u 2) 0 0 N))", "(CompoundH (CoerceH float) (EnumH (s a)))",
            "(CompoundH (FunctionH 1) (CastH str))", "(Either 0 (String 1 3 N) (PrefixList yes no))",
            "(Either 0 Int Any)", "(Either 0 Any Int)"]
    return out


LEAVES = ["Int", "Float", "Complex", "Str", "Bytes", "Bool", "CInt", "CFloat", "CStr", "CBool",
          "(RangeF 0 8 0 0)", "(RangeF -4 8 1 1)", "(RangeF N 0 0 1)", "(RangeF 0 N 1 0)", "(RangeI 0 2 0 0)",
          "(RangeI -1 N 1 0)", "(Enum (i 1) (i 2) (i 3))", "(Enum (s a) (s yes) N)", "(Enum (f 4) (t (i 1) (i 2)))",
          "(Map ((s yes) (i 1)) ((s no) (i 0)))", "(Instance (u 2) 1 0 N)", "(Instance (u 2) 0 0 N)",
          "(Instance (u 2) 0 1 N)", "(Instance (u 2) 1 1 N)", "(Instance int 0 0 N)", "(Instance (u 0) 0 0 N)",
          "(This 0)", "(This 1)", "(Callable 1)", "(Callable 0)", "Module", "(Type (u 2) 0)", "(Type object 1)",
          "(String 1 3 N)", "(String 0 N 0)", "(PrefixList yes no yellow)", "(Base Int)", "(Base Float)",
          "(Base Str)", "(Base (Enum (i 1) (i 2)))", "TupleAny", "(Base (Callable 1))", "Any",
          "(Instance object 0 0 N)"]
LEGACY = ["(CoerceH float)", "(CoerceH int)", "(CoerceH str)", "(CoerceH complex)", "(CastH int)", "(CastH str)",
          "(CastH float)", "(InstanceH (u 2) 1)", "(InstanceH (u 2) 0)", "(FunctionH 1)", "(FunctionH 2)",
          "(FunctionH 3)", "(EnumH (i 1) (s a))", "(MapH ((s yes) (i 1)))"]


def random_trait(rng, depth, allow_legacy=True, mapped=True):
    """Random trait term with nestings of Either / Tuple / Union / CompoundH.
    mapped=False leaves out Map / TraitMap members (a compound with a mapped
    member is itself mapped: shadow attribute and post_setattr chain)."""
    if depth <= 0 or rng.random() < 0.25:
        pool = LEAVES + (LEGACY if allow_legacy else [])
        if not mapped:
            pool = [x for x in pool if not x.startswith(("(Map", "(MapH", "(PrefixMap"))]
        return rng.choice(pool)
    r = rng.random()
    n = rng.randint(2, 4) if r < 0.8 else rng.randint(1, 3)
    if r < 0.4:
        alts = [random_trait(rng, depth - 1, allow_legacy, mapped) for _ in range(n)]
        return "(Either %d %s)" % (1 if rng.random() < 0.3 else 0, " ".join(alts))
    if r < 0.6:
        alts = [random_trait(rng, depth - 1, allow_legacy, mapped) for _ in range(n)]
        return "(CompoundH %s)" % " ".join(alts)
    if r < 0.85:
        return "(Tuple %s)" % " ".join(random_trait(rng, depth - 1, allow_legacy, mapped) for _ in range(n))
    alts = [random_trait(rng, depth - 1, False, mapped) for _ in range(n)]
    if rng.random() < 0.3:
        alts.insert(rng.randrange(len(alts) + 1), "NoneT")
    return "(Union %s)" % " ".join(alts)


def random_value_for(rng, tt, L, depth=0):
    """A value that is likely to exercise trait term tt: a lattice member, or,
    for tuples, a tuple assembled from values chosen for the item traits."""
    t = parse_sexp(tt) if isinstance(tt, str) else tt
    if isinstance(t, list) and t[0] in ("Tuple", "BaseTuple") and rng.random() < 0.85 and depth < 4:
        items = [random_value_for(rng, x, L, depth + 1) for x in t[1:]]
        r = rng.random()
        if r < 0.1 and items:
            items = items[:-1]
        elif r < 0.15:
            items.append("(i 1)")
        tag = "ts" if rng.random() < 0.15 else ("l" if rng.random() < 0.05 else "t")
        return "(%s)" % " ".join([tag] + items) if items else "(%s)" % tag
    if isinstance(t, list) and t[0] == "Instance" and isinstance(t[1], list) and rng.random() < 0.5:
        return rng.choice(INST_VALUES)        # instances, adaptable objects, falsy ones among them
    if isinstance(t, list) and t[0] in ("Either", "Union", "CompoundH") and rng.random() < 0.8 and depth < 4:
        alts = t[2:] if t[0] == "Either" else t[1:]
        alts = [a for a in alts if a != "NoneT"]
        if alts:
            return random_value_for(rng, rng.choice(alts), L, depth + 1)
    return rng.choice(L)


def nest_depth(t):
    if isinstance(t, str):
        return 0
    return 1 + max([nest_depth(x) for x in t[1:]] or [0]) if t[0] in (
        "Tuple", "BaseTuple", "Either", "Union", "CompoundH", "Base") else 0
