"""Subprocess server for crash-prone work (CTrait pickling, sanitizer builds).

Parent side:  `Server(scratch, sanitize=False)`; `srv.request(dict)` sends one
JSON line to a child interpreter that imports traits from `scratch` only and
answers with one JSON line.  If the child dies (signal, sanitizer abort) the
request returns {"crash": rc, "stderr": tail} and the child is restarted on the
next request: a crash is an observation, not the end of the check.

Child side (`python -m props.subserver`): interpreters for
  {"k": "T", "ops": [...]}        CTrait function-pointer protocol (twin of Driver `T|…`)
  {"k": "CT", "spec": {...}}      trait-definition round trips with behaviour comparison
  {"k": "PROG", "prog": {...}}    generated API programs (C18 runtime tier)
  {"k": "GC" / "H" / "W" / "A"}   finalizer-time collections, handler-list mutation, failing defaults under
                                  warnings filters, raw CTrait calls with aliased arguments (props/c18raw.py)
"""
import json
import os
import subprocess
import sys

HERE = os.path.dirname(os.path.abspath(__file__))
HARNESS = os.path.dirname(HERE)


def asan_runtime():
    for cc in ("clang-14", "clang"):
        try:
            p = subprocess.run([cc, "-print-file-name=libclang_rt.asan-x86_64.so"], capture_output=True, text=True)
            path = p.stdout.strip()
            if p.returncode == 0 and os.path.isabs(path) and os.path.exists(path):
                return path
        except OSError:
            pass
    return None


class Server:
    def __init__(self, scratch, sanitize=False, timeout=60):
        self.scratch = scratch
        self.sanitize = sanitize
        self.timeout = timeout
        self.p = None
        self.starts = 0

    def start(self):
        env = dict(os.environ)
        env["PYTHONPATH"] = self.scratch + os.pathsep + HARNESS
        env["ENTHOUGHT_TRAITS_VERIF"] = "1"
        env["PYTHONFAULTHANDLER"] = "1"
        if self.sanitize:
            rt = asan_runtime()
            if rt is None:
                raise RuntimeError("no ASan runtime")
            env["LD_PRELOAD"] = rt
            env["ASAN_OPTIONS"] = "detect_leaks=0:abort_on_error=0:exitcode=99:allocator_may_return_null=1"
            env["UBSAN_OPTIONS"] = "print_stacktrace=1:halt_on_error=1:exitcode=98"
            env["PYTHONMALLOC"] = "malloc"
        self.p = subprocess.Popen([sys.executable, "-u", "-m", "props.subserver"], cwd=HARNESS, env=env,
                                  stdin=subprocess.PIPE, stdout=subprocess.PIPE, stderr=subprocess.PIPE, text=True)
        self.starts += 1
        hello = self._readline()
        if hello is None or not hello.get("hello"):
            err = self._collect()
            raise RuntimeError("sub-server failed to start: %s" % (err.get("stderr", "")[-800:]))
        if os.path.realpath(hello["traits"]).find(os.path.realpath(self.scratch)) != 0:
            raise RuntimeError("sub-server imported traits from %s" % hello["traits"])

    def _readline(self):
        import select
        r, _, _ = select.select([self.p.stdout], [], [], self.timeout)
        if not r:
            return None
        line = self.p.stdout.readline()
        if not line:
            return None
        try:
            return json.loads(line)
        except ValueError:
            return {"garbled": line[:200]}

    def _collect(self):
        try:
            self.p.stdin.close()
        except Exception:
            pass
        try:
            rc = self.p.wait(timeout=5)
        except subprocess.TimeoutExpired:
            self.p.kill()
            rc = self.p.wait()
            rc = "timeout" if rc in (-9, 137) else rc
        try:
            err = self.p.stderr.read()
        except Exception:
            err = ""
        self.p = None
        return {"crash": rc, "stderr": err[-3000:]}

    def request(self, req):
        if self.p is None or self.p.poll() is not None:
            self.start()
        try:
            self.p.stdin.write(json.dumps(req) + "\n")
            self.p.stdin.flush()
        except (BrokenPipeError, OSError):
            return self._collect()
        ans = self._readline()
        if ans is None:
            return self._collect()
        if isinstance(ans, dict) and (ans.get("exiting") or ans.get("gc_violation")):
            # the child answered and left on purpose (its state is no longer trustworthy): wait for it, so that the
            # next request starts a new one instead of racing with the exit
            try:
                self.p.stdin.close()
            except Exception:
                pass
            try:
                self.p.wait(timeout=10)
            except subprocess.TimeoutExpired:
                self.p.kill()
                self.p.wait()
            self.p = None
        return ans

    def close(self):
        if self.p is not None:
            try:
                self.p.stdin.close()
                self.p.wait(timeout=5)
            except Exception:
                self.p.kill()
            self.p = None


def crash_summary(ans):
    """One line naming what the crash was (for `what`)."""
    err = ans.get("stderr", "")
    for line in err.splitlines():
        if "ERROR: AddressSanitizer" in line or "runtime error:" in line or "Fatal Python error" in line \
                or line.startswith("SUMMARY:"):
            return line.strip()[:200]
    tail = [l.strip() for l in err.splitlines() if l.strip()]
    return "exit status %s%s" % (ans.get("crash"), (" - " + tail[-1][:160]) if tail else "")


# ======================================================================= child

def exc_name(e):
    from props.seqlib import exc_name as en
    return en(e)


def _validate_arg(k):
    """A well-shaped argument of `set_validate` for validate kind k."""
    class K(object):
        pass
    table = {0: (0, int), 1: (1, K), 2: (2,), 4: (4, None, None, 0), 5: (5, (1, 2)), 6: (6, {}),
             7: (7, ((20,),)), 9: (9, ((20,),)), 11: (11, int), 12: (12, int), 13: (13, len),
             19: (19, K, 0, False), 20: (20,), 21: (21,), 22: (22,), 23: (23,)}
    if k == 14:
        return lambda o, n, v: v
    return table.get(k, (k,))


def do_T(ops):
    from traits.api import TraitError
    from traits.ctrait import CTrait
    t = None
    probe = False
    dprobe = False
    for op in ops:
        w = op.split()
        try:
            if w[0] == "new":
                t = CTrait(int(w[1]))
            elif w[0] == "validate":
                t.set_validate(_validate_arg(int(w[1])))
            elif w[0] == "delegate":
                t.delegate("target", "x", int(w[1]), True)
            elif w[0] == "property":
                g, s, v, hv = int(w[1]), int(w[2]), int(w[3]), w[4] == "1"
                t._set_property(lambda *a: 0, g, lambda *a: None, s, (lambda *a: a[-1]) if hv else None, v)
            elif w[0] == "post":
                t.post_setattr = (lambda o, n, v: None) if w[1] == "1" else None
            elif w[0] == "default":
                k = int(w[1])
                t.set_default_value(k, [1] if k in (3, 5) else {} if k in (4, 6) else set() if k == 9 else
                                    (len, ((),), None) if k == 7 else (lambda o: 3) if k == 8 else 5)
            elif w[0] == "probe":
                probe = True
            elif w[0] == "dprobe":
                dprobe = True
            else:
                return "bad-case"
        except TraitError:
            return "err TraitError"
        except ValueError:
            return "err ValueError"
        except OverflowError:
            return "err TraitError" if w[0] == "new" else "err ValueError"
    if t is None:
        return "none"
    pr = ""
    if probe:
        # obj.z / obj.z = 1 / del obj.z, each on a fresh object (twin of probeGet / probeSet / probeDel)
        from traits.api import HasTraits

        def one(f):
            class Host(HasTraits):
                pass
            h = Host()
            h.add_trait("z", t)
            try:
                f(h)
                return "ok"
            except Exception as e:
                return exc_name(e)
        pr = " probe=%s,%s,%s" % (one(lambda h: h.z), one(lambda h: setattr(h, "z", 1)), one(lambda h: delattr(h, "z")))
    if dprobe:
        # owner.x / owner.x = 7 through delegate("target", "x", prefix_type, True) (twin of probeDelegated)
        from traits.api import HasTraits, Instance, Int

        class Target(HasTraits):
            x = Int(42)

        class Owner(HasTraits):
            target = Instance(Target, ())

        def g():
            o = Owner()
            o.add_trait("x", t)
            try:
                return "ok" if o.x == 42 and o.base_trait("x") is not None else "wrong"
            except Exception as e:
                return exc_name(e)

        def st():
            o = Owner()
            o.add_trait("x", t)
            try:
                o.x = 7
                return "ok" if o.target.x == 7 else "wrong"
            except Exception as e:
                return exc_name(e)
        pr += " dprobe=%s,%s" % (g(), st())
    t.__dict__ = {}   # a CTrait without __dict__ does not survive __setstate__ (finding F17); not this protocol's subject
    st = t.__getstate__()
    idx = (st[0], st[1], st[2], st[4], st[11])
    t2 = CTrait(0)
    t2.__setstate__(st)
    st2 = t2.__getstate__()
    same = (st2[0], st2[1], st2[2], st2[4], st2[11]) == idx
    return "idx %d %d %d %d %d %s" % (idx + ("same" if same else "differs",)) + pr


# ---- CT: trait definitions of traits.api x option grid

def ct_catalog():
    """name -> (factory, sample values).  Every trait type exported by traits.api
    that can be instantiated without further infrastructure, with options."""
    import datetime
    import traits.api as T

    class Cls(object):
        pass

    class HT(T.HasTraits):
        v = T.Int()
    samples = [0, 1, -3, 2.5, "a", "", b"b", None, True, [1], (1, 2), {"a": 1}, {1}, 1 + 2j, Cls(), Cls, len,
               datetime.date(2020, 1, 2), "yes", 7, 100, "apple"]
    cat = {}

    def add(name, f):
        cat[name] = f
    for nm in ("Any", "Int", "Float", "Complex", "Str", "Title", "Bytes", "Bool", "CInt", "CFloat", "CComplex",
               "CStr", "CBytes", "CBool", "BaseInt", "BaseFloat", "BaseComplex", "BaseStr", "BaseBytes", "BaseBool",
               "BaseCInt", "BaseCFloat", "BaseCComplex", "BaseCStr", "BaseCBytes", "BaseCBool", "String", "Callable",
               "BaseCallable", "Code", "HTML", "Password", "Python", "ReadOnly", "Disallow", "Date", "Datetime", "Time",
               "Event", "Button", "ToolbarButton", "UUID", "File", "Directory", "BaseFile", "BaseDirectory", "Type",
               "Subclass", "Self", "This", "self", "Module", "Function", "Method", "Expression", "PythonValue",
               "generic_trait", "List", "CList", "Set", "CSet", "Dict", "Tuple", "BaseTuple", "WeakRef", "Symbol",
               "ListInt", "ListFloat", "ListStr", "ListBool", "ListComplex", "ListUnicode", "DictStrAny", "DictStrStr",
               "DictStrInt", "DictStrFloat", "DictStrBool", "DictStrList"):
        obj = getattr(T, nm, None)
        if obj is None:
            continue
        add(nm, (lambda o=obj: o))
    add("Int(3)", lambda: T.Int(3))
    add("Float(1.5)", lambda: T.Float(1.5))
    add("Str('x')", lambda: T.Str("x"))
    add("Range(0,9)", lambda: T.Range(0, 9))
    add("Range(0.0,1.0)", lambda: T.Range(0.0, 1.0))
    add("Range(0.0,1.0,excl)", lambda: T.Range(0.0, 1.0, exclude_low=True, exclude_high=True))
    add("Range(low=1)", lambda: T.Range(low=1))
    add("Range('lo','hi')", lambda: T.Range("lo", "hi"))
    add("BaseRange(0,9)", lambda: T.BaseRange(0, 9))
    add("Enum(1,2,3)", lambda: T.Enum(1, 2, 3))
    add("Enum(values=)", lambda: T.Enum(values="vals"))
    add("BaseEnum('a','b')", lambda: T.BaseEnum("a", "b"))
    add("Constant(5)", lambda: T.Constant(5))
    add("Either(Int,Str)", lambda: T.Either(T.Int, T.Str))
    add("Either(None,Int)", lambda: T.Either(None, T.Int))
    add("Either(Range,List)", lambda: T.Either(T.Range(0.0, 1.0), T.List(T.Int)))
    add("Union(Int,Str)", lambda: T.Union(T.Int, T.Str))
    add("Union(None,Float)", lambda: T.Union(None, T.Float))
    add("Optional(Int)", lambda: T.Optional(T.Int) if hasattr(T, "Optional") else T.Union(None, T.Int))
    add("Tuple(Int,Str)", lambda: T.Tuple(T.Int, T.Str))
    add("Tuple(1,'a')", lambda: T.Tuple(1, "a"))
    add("List(Int)", lambda: T.List(T.Int))
    add("List(Int,1..3)", lambda: T.List(T.Int, [1], minlen=1, maxlen=3))
    add("List(List(Int))", lambda: T.List(T.List(T.Int)))
    add("List(Instance)", lambda: T.List(T.Instance(Cls)))
    add("Set(Int)", lambda: T.Set(T.Int))
    add("Dict(Str,Int)", lambda: T.Dict(T.Str, T.Int))
    add("Dict(Str,List(Int))", lambda: T.Dict(T.Str, T.List(T.Int)))
    add("Map", lambda: T.Map({"yes": 1, "no": 0}))
    add("PrefixMap", lambda: T.PrefixMap({"yes": 1, "no": 0}))
    add("PrefixList", lambda: T.PrefixList(["apple", "pear"]))
    add("Instance(Cls)", lambda: T.Instance(Cls))
    add("Instance(Cls,())", lambda: T.Instance(Cls, ()))
    add("Instance(Cls,allow_none=False)", lambda: T.Instance(Cls, allow_none=False))
    add("Instance('str-name')", lambda: T.Instance("props.subserver.Named"))
    add("Instance(HT)", lambda: T.Instance(HT))
    add("BaseInstance(Cls)", lambda: T.BaseInstance(Cls))
    add("AdaptedTo(Cls)", lambda: T.AdaptedTo(Cls))
    add("AdaptsTo(Cls)", lambda: T.AdaptsTo(Cls))
    add("Supports(Cls)", lambda: T.Supports(Cls))
    add("Type(Cls)", lambda: T.Type(Cls))
    add("Subclass(Cls)", lambda: T.Subclass(Cls))
    add("WeakRef(Cls)", lambda: T.WeakRef(Cls))
    add("Callable(len)", lambda: T.Callable(len))
    add("Date(allow_none)", lambda: T.Date(allow_none=True))
    add("Regex", lambda: T.Regex("a", regex="a+"))
    add("String(maxlen)", lambda: T.String("", maxlen=3))
    add("Trait(1,2,3)", lambda: T.Trait(1, 2, 3))
    add("Trait('a',{'a':1})", lambda: T.Trait("a", {"a": 1, "b": 2}))
    add("Trait(None,Int)", lambda: T.Trait(None, T.Int))
    add("Trait(Cls)", lambda: T.Trait(Cls))
    add("Trait(0,Range)", lambda: T.Trait(0, T.Range(0, 5), "auto"))
    add("TraitType-python-validate", lambda: _custom_trait_type())
    add("Delegate", lambda: T.Delegate("d"))
    add("DelegatesTo", lambda: T.DelegatesTo("d"))
    add("DelegatesTo(prefix)", lambda: T.DelegatesTo("d", prefix="v"))
    add("PrototypedFrom", lambda: T.PrototypedFrom("d"))
    add("Delegate(modify)", lambda: T.Delegate("d", modify=True))
    add("Property()", lambda: T.Property())
    add("Property(Int)", lambda: T.Property(T.Int))
    add("Property(Str)", lambda: T.Property(T.Str))
    add("Property(List(Int))", lambda: T.Property(T.List(T.Int)))
    add("Property(Range)", lambda: T.Property(T.Range(0, 9)))
    add("Property(fget)", lambda: T.Property(fget=lambda self: 3))
    add("Property(fget,fset)", lambda: T.Property(fget=lambda self: 3, fset=lambda self, v: None))
    add("Property(fget,fset,fvalidate)", lambda: T.Property(fget=lambda self: 3, fset=lambda self, v: None,
                                                             fvalidate=lambda v: v))
    add("Property(observe)", lambda: T.Property(T.Int, observe="v"))
    add("Property(depends_on)", lambda: T.Property(T.Int, depends_on="v"))
    add("Event(Int)", lambda: T.Event(T.Int))
    add("Int(comparison_mode=none)", lambda: T.Int(comparison_mode=T.ComparisonMode.none))
    add("Any(comparison_mode=identity)", lambda: T.Any(comparison_mode=T.ComparisonMode.identity))
    add("Int(transient)", lambda: T.Int(transient=True))
    add("Any(copy=deep)", lambda: T.Any(copy="deep"))
    add("Expression('1+1')", lambda: T.Expression("1+1"))
    add("Color-like-Trait-mapped", lambda: T.Trait("red", {"red": 0xFF0000, "blue": 0xFF}))
    from traits.ctrait import CTrait
    for k in (0, 1, 2, 4, 5, 6, 8):   # 3 and 7 crash on first use when bare (C18 findings)
        add("raw:CTrait(%d)" % k, (lambda k=k: CTrait(k)))
    return cat, samples, HT


class Named(object):
    pass


def _custom_trait_type():
    import traits.api as T

    class Even(T.TraitType):
        default_value = 0

        def validate(self, object, name, value):
            if isinstance(value, int) and value % 2 == 0:
                return value
            self.error(object, name, value)

        def post_setattr(self, object, name, value):
            object.__dict__["_seen_" + name] = value
    return Even()


def _behaviour(ct, samples, T, how):
    """Accept/reject + stored value of `ct` on a fresh object, for every sample."""
    class Host(T.HasTraits):
        v = T.Int()
        d = T.Instance(T.HasTraits)
        vals = T.List([1, 2])
        _p = T.Any()

        def _get_q(self):
            return self._p

        def _set_q(self, value):
            self._p = value
    out = []
    for s in samples:
        h = Host()
        h.d = Host()
        try:
            h.add_trait("q", ct)
        except Exception as e:
            out.append("add:" + exc_name(e))
            continue
        try:
            setattr(h, "q", s)
            r = "ok"
        except Exception as e:
            r = exc_name(e)
        try:
            g = getattr(h, "q")
            if type(g).__name__ == "UUID":
                g = "UUID"
            g = type(g).__name__ + ":" + repr(g)[:40] if not isinstance(g, (T.HasTraits,)) and "object at" not in repr(g) \
                else type(g).__name__
        except Exception as e:
            g = "!" + exc_name(e)
        out.append(r + "/" + g)
    return out


def _build_ct(spec):
    import traits.api as T
    cat, samples, HT = ct_catalog()
    name = spec["name"]
    if name not in cat:
        return None, {"skip": "not in catalogue"}, samples
    try:
        tr = cat[name]()
        via = spec.get("via", "as_ctrait")
        if via == "class":
            cls = type(T.HasTraits)("Holder", (T.HasTraits,), {"q": tr, "v": T.Int(), "d": T.Instance(T.HasTraits),
                                                                 "vals": T.List([1, 2]),
                                                                 "__module__": __name__})
            obj = cls()
            ct = obj.trait("q")
            if ct is None:
                return None, {"skip": "no trait"}, samples
        else:
            from traits.ctrait import CTrait
            from traits.trait_converters import as_ctrait
            ct = tr if isinstance(tr, CTrait) else as_ctrait(tr) if not isinstance(tr, type) else as_ctrait(tr())
    except Exception as e:
        return None, {"skip": "cannot build: %s" % exc_name(e)}, samples
    return ct, None, samples


def do_CTINFO(spec):
    """What kind of CTrait this is - asked BEFORE the risky operation, so that a
    crash can be attributed to its input class."""
    ct, skip, _ = _build_ct(spec)
    if ct is None:
        return skip
    try:
        pf = ct.property_fields if ct.is_property else None
    except Exception:
        pf = None
    return {"validated_property": bool(pf is not None and pf[2] is not None), "is_property": bool(ct.is_property)}


def do_CT(spec):
    """Round-trip the CTrait of one catalogued trait definition through `how`
    and compare its behaviour with the original's."""
    import copy
    import pickle
    import traits.api as T
    name, how = spec["name"], spec["how"]
    ct, skip, samples = _build_ct(spec)
    if ct is None:
        return skip
    stage = "getstate"
    try:
        if how == "getstate":
            st = ct.__getstate__()
            ct2 = type(ct)(0)
            stage = "setstate"
            ct2.__setstate__(st)
        elif how.startswith("pickle"):
            stage = "pickle.dumps"
            data = pickle.dumps(ct, int(how[6:]))
            stage = "pickle.loads"
            ct2 = pickle.loads(data)
        elif how == "copy":
            stage = "copy.copy"
            ct2 = copy.copy(ct)
        elif how == "deepcopy":
            stage = "copy.deepcopy"
            ct2 = copy.deepcopy(ct)
        else:
            return {"skip": "how"}
    except Exception as e:
        # lambdas, local classes, modules … are legitimately unpicklable
        return {"ok": True, "roundtrip": "raises " + exc_name(e), "stage": stage}
    try:
        st1, st2 = ct.__getstate__(), ct2.__getstate__()
    except Exception as e:
        return {"ok": True, "roundtrip": "ok", "broken": exc_name(e) + ": " + str(e)[:80]}
    idx = lambda s: (s[0], s[1], s[2], s[4], s[6], s[8], s[11])  # noqa: E731
    res = {"ok": True, "roundtrip": "ok", "idx_same": idx(st1) == idx(st2), "idx": [list(idx(st1)), list(idx(st2))]}
    b1 = _behaviour(ct, samples, T, how)
    b2 = _behaviour(ct2, samples, T, how)
    res["behaviour_same"] = b1 == b2
    if b1 != b2:
        res["diff"] = [(i, a, b) for i, (a, b) in enumerate(zip(b1, b2)) if a != b][:4]
    return res


# ---- GC: a collection triggered from a finalizer while a CTrait / HasTraits object is being deallocated

GC_SCENARIOS = ["ctrait-default", "ctrait-default-callable-args", "ctrait-validate-closure",
                "ctrait-post-setattr-closure", "ctrait-handler", "ctrait-dict", "ctrait-notifiers",
                "ctrait-delegate-clone", "itrait-handler-closure", "itrait-observe-closure", "object-attribute",
                "object-anytrait-closure", "object-list-value", "object-instance-chain"]


def do_GC(spec):
    """The object under test holds the LAST reference to a Victim whose __del__ runs gc.collect().
    mode `saveall`: the collection runs under gc.DEBUG_SAVEALL and whatever the collector considers unreachable
    is inspected: a CTrait / HasTraits object there is an object in the middle of its deallocation that the
    collector was handed (it would clear and free it a second time) - the answer is written and the process
    leaves at once (its state is no longer trustworthy).  mode `plain`: an ordinary collection (for runs under
    PYTHONMALLOC=malloc / ASan, where the double free is a crash)."""
    import gc
    import traits.api as T
    from traits.constants import DefaultValue
    from traits.ctrait import CTrait
    scenario, mode = spec["scenario"], spec.get("mode", "saveall")
    seen = []

    class Victim(object):
        def __del__(self):
            if mode == "plain":
                gc.collect()
                gc.collect()
                seen.append(0)
                return
            gc.set_debug(gc.DEBUG_SAVEALL)
            try:
                gc.collect()
            finally:
                gc.set_debug(0)
            dying = [type(o).__name__ for o in gc.garbage if isinstance(o, (CTrait, T.HasTraits))]
            seen.append(len(gc.garbage))
            if dying:
                sys.stdout.write(json.dumps({"gc_violation": dying[:5], "scenario": scenario}) + "\n")
                sys.stdout.flush()
                os._exit(3)
            del gc.garbage[:]

    class A(T.HasTraits):
        x = T.Int()
        v = T.Any()
        l = T.List()
        nxt = T.Instance(T.HasTraits)

    def closure():
        victim = Victim()

        def handler(*args):
            return victim
        return handler

    def run():
        if scenario == "ctrait-default":
            ct = CTrait(0)
            ct.set_default_value(DefaultValue.constant, Victim())
        elif scenario == "ctrait-default-callable-args":
            ct = CTrait(0)
            ct.set_default_value(DefaultValue.callable_and_args, (len, ((Victim(),),), None))
        elif scenario == "ctrait-validate-closure":
            ct = CTrait(0)
            ct.set_validate(closure())
        elif scenario == "ctrait-post-setattr-closure":
            ct = CTrait(0)
            ct.post_setattr = closure()
        elif scenario == "ctrait-handler":
            ct = CTrait(0)
            ct.handler = Victim()
        elif scenario == "ctrait-dict":
            ct = CTrait(0)
            ct.__dict__ = {"meta": Victim()}
        elif scenario == "ctrait-notifiers":
            ct = CTrait(0)
            ct._notifiers(True).append(closure())
        elif scenario == "ctrait-delegate-clone":
            src = T.Any(Victim()).as_ctrait()
            ct = CTrait(0)
            ct.clone(src)
            del src
        elif scenario == "itrait-handler-closure":
            ct = A()
            ct.on_trait_change(closure(), "x")
            ct.x = 3
        elif scenario == "itrait-observe-closure":
            ct = A()
            ct.observe(closure(), "x")
            ct.x = 3
        elif scenario == "object-attribute":
            ct = A()
            ct.v = Victim()
        elif scenario == "object-anytrait-closure":
            ct = A()
            ct.on_trait_change(closure())
            ct.x = 1
        elif scenario == "object-list-value":
            ct = A()
            ct.l = [Victim()]
        elif scenario == "object-instance-chain":
            ct = A()
            ct.nxt = A()
            ct.nxt.v = Victim()
        else:
            raise ValueError(scenario)
        gc.collect()
        del ct
    gc.collect()
    run()
    gc.collect()
    return {"ok": True, "finalizer_runs": len(seen)}


# ---- H: the notifier lists are changed by the handlers while a notification is being dispatched

def do_H(spec):
    """Twin of Driver `handleH`.  kind: `otc` (on_trait_change), `observe`, `raw` (callables put into the lists)."""
    import traits.api as T
    kind, tc, oc = spec["kind"], spec["t"], spec["o"]
    acts = {}
    nxt = [tc + oc]
    for w in spec["acts"]:
        p = w.split(":")
        if p[1] == "add":
            acts[int(p[0])] = ("add", nxt[0], p[2] == "t")
            nxt[0] += 1
        elif p[1] == "rs":
            acts[int(p[0])] = ("rm", int(p[0]))
        else:
            acts[int(p[0])] = ("rm", int(p[2]))

    class A(T.HasTraits):
        x = T.Int()
        y = T.Int()
    a = A()
    calls = []
    funcs = {}
    where = {}

    def register(k, on_trait):
        where[k] = on_trait
        f = funcs[k]
        if kind == "otc":
            a.on_trait_change(f, "x" if on_trait else None)
        elif kind == "observe":
            a.observe(f, "x" if on_trait else "*")
        else:
            (a._trait("x", 2)._notifiers(True) if on_trait else a._notifiers(True)).append(f)

    def unregister(k):
        if k not in where:
            return
        f = funcs[k]
        on_trait = where.pop(k)
        try:
            if kind == "otc":
                a.on_trait_change(f, "x" if on_trait else None, remove=True)
            elif kind == "observe":
                a.observe(f, "x" if on_trait else "*", remove=True)
            else:
                (a._trait("x", 2)._notifiers(True) if on_trait else a._notifiers(True)).remove(f)
        except Exception:
            pass

    def make(k):
        def body():
            calls.append(k)
            act = acts.get(k)
            if act is None:
                return
            if act[0] == "rm":
                unregister(act[1])
            elif act[1] not in funcs:
                make(act[1])
                register(act[1], act[2])
        if kind == "otc":
            def f():
                body()
        elif kind == "observe":
            def f(event):
                body()
        else:
            def f(obj, name, old, new):
                if name == "x":
                    body()
        funcs[k] = f
    for k in range(tc + oc):
        make(k)
        register(k, k < tc)
    T.push_exception_handler(handler=lambda *args: None, reraise_exceptions=True)
    try:
        a.x = 1
        first = list(calls)
        del calls[:]
        a.x = 2
        second = list(calls)
    finally:
        T.pop_exception_handler()
    return {"out": "calls=[%s] again=[%s]" % (",".join(map(str, first)), ",".join(map(str, second)))}


# ---- PROG: generated API programs (see props/c18lib.py for the generator)

def do_PROG(prog):
    from props import c18lib
    return c18lib.run_program(prog)


def main():
    import traits
    import traits.ctraits
    sys.stdout.write(json.dumps({"hello": True, "traits": traits.ctraits.__file__}) + "\n")
    sys.stdout.flush()
    import logging
    logging.getLogger("traits").addHandler(logging.NullHandler())
    logging.getLogger("traits").propagate = False
    for line in sys.stdin:
        line = line.strip()
        if not line:
            continue
        req = json.loads(line)
        try:
            if req["k"] == "T":
                ans = {"out": do_T(req["ops"])}
            elif req["k"] == "CT":
                ans = do_CT(req["spec"])
            elif req["k"] == "CTINFO":
                ans = do_CTINFO(req["spec"])
            elif req["k"] == "PROG":
                ans = do_PROG(req["prog"])
            elif req["k"] == "GC":
                ans = do_GC(req["spec"])
            elif req["k"] == "H":
                ans = do_H(req["spec"])
            elif req["k"] == "W":
                from props import c18raw
                ans = c18raw.do_W(req["spec"])
            elif req["k"] == "A":
                from props import c18raw
                ans = c18raw.do_A(req["spec"])
            elif req["k"] in ("GREF", "GLIVE", "REJ", "DPX"):
                from props import c18gc
                ans = getattr(c18gc, "do_" + req["k"])(req["spec"])
            else:
                ans = {"error": "unknown request"}
        except Exception as e:  # interpreter bug or unexpected behaviour: report, keep serving
            import traceback
            ans = {"error": "%s: %s" % (type(e).__name__, str(e)[:300]), "tb": traceback.format_exc()[-1500:]}
        sys.stdout.write(json.dumps(ans, default=str) + "\n")
        sys.stdout.flush()
        if isinstance(ans, dict) and ans.get("exiting"):
            os._exit(3)      # dangling pointers around: no clean-up, no finalizers


if __name__ == "__main__":
    main()
