"""C18 family #INTRO api|shape: the introspection entry points that walk a delegation chain in C
(`HasTraits.base_trait(name)`, `_trait(name, -2)`, and for comparison `trait(name)`, `_trait(name, 0)`) on objects whose
chain ends in an error - delegate object None / not a HasTraits / its read raises / target attribute missing /
self-delegation (recursion limit) - or in success.  "Operations, whether they succeed or raise, leave the reference
counts of the values, names and objects passed in unchanged": sys.getrefcount of the class trait, the object, the delegate
object and the name string before and after N calls (exceptions and results dropped, gc collected) must be equal.
Signature `refcount:introspection:<shape>:<who>` (the entry point is in the case line and the tags).  Never import traits at module level."""
import gc
import sys

APIS = ["base_trait", "_trait-2", "trait", "_trait0", "_trait-1"]
SHAPES = ["ok", "ok-chain", "delegate-none", "delegate-raises", "delegate-not-hastraits", "target-missing", "self-recursion",
          "prefix-not-str"]
N = 12


def build(shape):
    from traits.api import Any, Delegate, HasTraits, Instance, Int, Property

    class B(HasTraits):
        x = Int(3)

    class M(HasTraits):
        x = Delegate("d")
        d = Instance(B)

    if shape == "ok":
        class A(HasTraits):
            x = Delegate("d")
            d = Instance(B, ())
        a = A()
    elif shape == "ok-chain":
        class A(HasTraits):
            x = Delegate("d")
            d = Instance(M)
        a = A(d=M(d=B()))
    elif shape == "delegate-none":
        class A(HasTraits):
            x = Delegate("d")
            d = Instance(B)
        a = A()
    elif shape == "delegate-raises":
        class A(HasTraits):
            x = Delegate("d")
            d = Property()
            boom = False

            def _get_d(self):
                if type(self).boom:
                    raise AttributeError("no d")
                return B()
        a = A()
        A.boom = True
    elif shape == "delegate-not-hastraits":
        class A(HasTraits):
            x = Delegate("d")
            d = Any()
        a = A()
        a.__dict__["d"] = 5          # behind the listener's back (the legacy delegate listener would call 5.base_trait)
    elif shape == "target-missing":
        class E(HasTraits):
            pass

        class A(HasTraits):
            x = Delegate("d")
            d = Instance(E, ())
        a = A()
    elif shape == "self-recursion":
        class A(HasTraits):
            x = Delegate("d")
            d = Any()
        a = A()
        a.d = a
    elif shape == "prefix-not-str":
        class A(HasTraits):
            __prefix__ = "p"
            x = Delegate("d", prefix="*")
            d = Instance(B, ())
        a = A()
        A.__prefix__ = 5
    else:
        raise ValueError(shape)
    return a


def call(a, api, name):
    if api == "base_trait":
        return a.base_trait(name)
    if api == "trait":
        return a.trait(name)
    return a._trait(name, int(api[len("_trait"):]))


def run_intro(case):
    api, shape = case[len("#INTRO "):].split("|")
    tags = ["INTRO", "INTRO:" + api, "INTRO:" + shape]
    try:
        a = build(shape)
    except Exception as e:
        return "skip build " + type(e).__name__, [], tags
    name = "".join(["x"])            # a string object of our own
    ct = a.__class_traits__["x"]
    d = a.__dict__.get("d")
    watched = [("class-trait", ct), ("object", a), ("name", name)] + ([("delegate", d)] if d is not None and d is not a else [])
    outcome = set()

    def once():
        try:
            r = call(a, api, name)
            outcome.add("ok" if r is not None else "none")
            del r
        except Exception as e:
            outcome.add(type(e).__name__)
    once()                           # warm-up: caches, instance-trait dictionaries
    gc.collect()
    before = [sys.getrefcount(o) for _, o in watched]
    for _ in range(N):
        once()
    gc.collect()
    after = [sys.getrefcount(o) for _, o in watched]
    hits = []
    for (who, _), b, c in zip(watched, before, after):
        if c != b:
            hits.append({"signature": "refcount:introspection:%s:%s" % (shape, who), "no_shrink": True,
                         "what": "%d calls of %s('x') on an object whose delegation chain is '%s' (outcome %s) changed the "
                         "reference count of the %s by %+d" % (N, api, shape, "/".join(sorted(outcome)), who, c - b)})
    return "%s %s" % ("/".join(sorted(outcome)), " ".join("%s%+d" % (w, c - b) for (w, _), b, c in zip(watched, before, after))), \
        hits, tags + ["INTRO:out:" + "/".join(sorted(outcome))]


def gen_intro():
    for api in APIS:
        for shape in SHAPES:
            yield "#INTRO %s|%s" % (api, shape)
