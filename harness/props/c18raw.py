"""C18, two more families, both executed in the subprocess server (props/subserver.py):

W  `W|src|cls|mode|access|hold`   the computation of a default value FAILS (a `_x_default` method, an Instance
   factory with args / kw, the validator applied to a computed default, a TraitType with a callable default) with an
   exception of class `cls`, while the warnings filter is `mode`; the value is asked for through `access`.
   `_warn_on_attribute_error` then issues a UserWarning, which the filter can turn into an exception that gets the
   AttributeError as `__cause__`.  Observed three times in a row: what comes out (the original exception, the
   warning with its cause, nothing), how many warnings were recorded, the reference count of the exception object
   while what came out is still alive and after it was released (`hold=held`: one instance raised again and again,
   counted with sys.getrefcount; `hold=fresh`: a new instance per failure, followed with a weak reference, checked
   BEFORE anything that would touch a dangling pointer), plus the counts of the factory's argument, its keyword
   value, the attribute-name object and the HasTraits object.
   Twin: Driver `handleW` (Model.RefLedger.warnOnAttributeError / accessOutcome).

A  `A|holds|ops`   raw CTrait API on three traits and six payload objects, arguments ALIASED on purpose:
   t.clone(t), clone / __setstate__(__getstate__()) into a trait that already holds objects, setters given the
   object the field already holds, a field re-set from its own getter.  Payload i is `h` (the harness keeps a
   reference: exact reference counts) or `s` (the trait gets the ONLY reference: weak-reference liveness, checked
   right after the operation and before any collection).  Every payload has a finalizer that looks at every field
   of every trait: a dying object that is still reachable through a trait is reported (`!i`).
   Twin: Driver `handleA` (Model.RefLedger raw-trait machine: events incref / decref / store, checkpoints after each
   decref).  History: this stream found F79 (set_validate released the old validator before storing the new one;
   `!i` marks) and F79b (clone / __setstate__ / _set_property overwrote references without releasing them), repaired
   in /repo d96fc77 and 86511b4; both signatures are violations again.
"""
import json

W_SRC = ["method", "factory", "factorykw", "validate", "ttype"]
W_CLS = ["AttributeError", "AttrSub", "KeyError", "TraitError", "ZeroDivisionError"]
W_MODE = ["default", "error", "ignore", "always"]
W_ACCESS = ["getattr", "hasattr", "getattr3", "trait_get", "default_value_for", "setattr-notify"]
W_HOLD = ["held", "fresh"]
W_REPS = 3

A_TRAITS = 3
A_PAYLOADS = 6
A_FIELDS = ["post", "validate", "dflt", "dname", "dprefix", "handler"]     # slot = 6 * trait + index
A_SETTERS = {"ps": "post", "v": "validate", "dv": "dflt", "h": "handler"}


# ===================================================================== child side

def do_W(spec):
    import gc
    import sys
    import warnings
    import weakref
    import traits.api as T
    from traits.constants import DefaultValue
    src, cname, mode, access, hold = spec["src"], spec["cls"], spec["mode"], spec["access"], spec["hold"]
    base = {"AttributeError": AttributeError, "AttrSub": AttributeError, "KeyError": KeyError,
            "TraitError": T.TraitError, "ZeroDivisionError": ZeroDivisionError}[cname]
    if cname == "AttrSub" or hold == "fresh":
        cls = type("X" + cname, (base,), {})          # a Python subclass: instances can be weakly referenced
    else:
        cls = base
    held = cls("boom") if hold == "held" else None
    keep = [held] * 40                                 # the count cannot reach zero even if it drifts
    wrs = []
    arg, kwv = ["arg"], ["kw"]

    def raiser():
        if held is not None:
            raise held
        e = cls("boom")
        wrs.append(weakref.ref(e))
        raise e

    def fac(*a, **k):
        raiser()

    class VT(T.TraitType):
        def validate(self, obj, name, value):
            raiser()

    class DT(T.TraitType):
        def get_default_value(self):
            return (DefaultValue.callable, lambda obj: raiser())

    if src == "method":
        class A(T.HasTraits):
            x = T.Int()

            def _x_default(self):
                raiser()
    elif src == "factory":
        class A(T.HasTraits):
            x = T.Instance(list, factory=fac, args=(arg,))
    elif src == "factorykw":
        class A(T.HasTraits):
            x = T.Instance(list, factory=fac, args=(arg,), kw={"k": kwv})
    elif src == "validate":
        class A(T.HasTraits):
            x = VT()

            def _x_default(self):
                return 5
    elif src == "ttype":
        class A(T.HasTraits):
            x = DT()
    else:
        raise ValueError(src)

    class N(str):
        pass
    name = N("x")
    names = [name] * 5
    use_name = access in ("getattr", "hasattr", "getattr3", "default_value_for")
    sentinel = object()

    def go(obj):
        n = name if use_name else "x"
        if access == "getattr":
            return getattr(obj, n)
        if access == "hasattr":
            return hasattr(obj, n)
        if access == "getattr3":
            return getattr(obj, n, sentinel)
        if access == "trait_get":
            return obj.trait_get("x")
        if access == "default_value_for":
            return obj.trait("x").default_value_for(obj, n)
        if access == "setattr-notify":
            obj.x = [1] if src in ("factory", "factorykw") else 3
            return "assigned"
        raise ValueError(access)

    def handler():
        pass
    lines, others, problems = [], [], []
    for rep in range(W_REPS):
        obj = A()
        if access == "setattr-notify":
            obj.on_trait_change(handler, "x")
        objs = [obj] * 3
        gc.collect()
        tracked = [("arg", arg), ("kw", kwv), ("name", name), ("object", obj)]
        b_other = [sys.getrefcount(tracked[i][1]) for i in range(len(tracked))]
        b_exc = sys.getrefcount(held) if held is not None else 0
        n_wr = len(wrs)
        P = None
        with warnings.catch_warnings(record=True) as rec:
            warnings.simplefilter(mode)
            try:
                go(obj)
            except BaseException as ex:
                P = ex
        warned = len([w for w in rec if issubclass(w.category, UserWarning)
                      and "default value resolution" in str(w.message)])
        del rec
        # -------- release everything that is not "what came out": tracebacks and their frames
        if P is not None:
            P.__traceback__ = None
        if held is not None:
            held.__traceback__ = None
            if isinstance(held, AttributeError):
                # CPython (3.10+) records the object and the name on an AttributeError that leaves getattr()
                held.name = None
                held.obj = None
        else:
            for w in wrs[n_wr:]:
                e = w()
                if e is not None:
                    e.__traceback__ = None
                del e
        fresh_alive = None
        if held is None:
            if len(wrs) != n_wr + 1:
                problems.append("the default was computed %d times" % (len(wrs) - n_wr))
            fresh_alive = wrs[-1]() is not None if len(wrs) > n_wr else False
            if P is not None and not fresh_alive:
                # what came out refers to the exception (it is it, or has it as __cause__) and the exception is gone
                return {"out": " / ".join(lines + ["out=? held=0 FREED"]), "poisoned":
                        "the exception raised by the default computation was deallocated while the exception that "
                        "came out of the operation (%s) still refers to it" % type(P).__name__, "exiting": True}
        if P is None:
            out, cause = "swallowed", 0
        elif (P is held) if held is not None else (P is wrs[-1]()):
            out, cause = "orig", 0
        else:
            out = "warning" if isinstance(P, UserWarning) else "other:" + type(P).__name__
            c = P.__cause__
            cause = 1 if (c is held if held is not None else c is wrs[-1]()) and c is not None else 0
            del c
        if held is not None:
            during = sys.getrefcount(held) - b_exc
        else:
            during = 1 if fresh_alive else 0
        P = None
        gc.collect()
        if held is not None:
            after = sys.getrefcount(held) - b_exc
        else:
            after = 1 if wrs[-1]() is not None else 0
        lines.append("out=%s cause=%d warned=%d held=%d after=%d" % (out, cause, warned, during, after))
        others.append([sys.getrefcount(tracked[i][1]) - b_other[i] for i in range(len(tracked))])
        del objs, obj, tracked
    ans = {"out": " / ".join(lines), "others": others, "other_names": ["arg", "kw", "name", "object"],
           "problems": problems, "keep": len(keep) + len(names)}
    if held is not None and sys.getrefcount(held) < b_exc or any(d < 0 for ds in others for d in ds):
        # an object has fewer references than holders: releasing the holders would free it early and corrupt the
        # heap for the cases that follow - answer and leave without any clean-up
        ans["exiting"] = True
    return ans


def do_A(spec):
    import gc
    import sys
    import weakref
    from traits.ctrait import CTrait
    holds, ops = spec["holds"], spec["ops"]
    traits = [CTrait(0) for _ in range(A_TRAITS)]
    state = {"visible": [], "stop": False}
    book = [[None] * 6 for _ in range(A_TRAITS)]          # expected contents: payload index or None

    def read_fields(t):
        """The six reference fields of a trait, through its API (new references)."""
        prop = t._get_property()
        return [t.post_setattr, t.get_validate(), t.default_value()[1],
                prop[0] if prop is not None else None, prop[1] if prop is not None else None, t.handler]

    class Payload(object):
        __slots__ = ("i", "__weakref__")

        def __init__(self, i):
            self.i = i

        def __call__(self, *args):
            return args[-1] if args else None

        def __del__(self):
            if state["stop"]:
                return
            for ti, t in enumerate(traits):
                vals = read_fields(t)
                for fi in range(6):
                    if vals[fi] is self:
                        state["visible"].append((self.i, ti, A_FIELDS[fi]))
                        state["stop"] = True      # the trait is in an inconsistent state: look no further
                del vals
                if state["stop"]:
                    return

    P = [Payload(i) if holds[i] == "h" else None for i in range(A_PAYLOADS)]
    W = [None] * A_PAYLOADS
    keep = [p for p in P if p is not None] * 20
    gc.collect()
    base = [sys.getrefcount(P[i]) if P[i] is not None else 0 for i in range(A_PAYLOADS)]

    def payload(i):
        """The object to pass for payload i: the held one, or a new sole one (created here, dropped by the caller)."""
        if P[i] is not None:
            return P[i]
        if W[i] is not None:
            raise ValueError("sole payload %d used twice" % i)
        p = Payload(i)
        W[i] = weakref.ref(p)
        return p

    lines, slack_prev, leaks, problems = [], [0] * A_PAYLOADS, [], []
    t = None
    for op in ops:
        k = op[0]
        t = None                                   # no reference of ours to a trait of the previous operation
        state["visible"], state["stop"] = [], False
        if k in A_SETTERS:
            t, i = traits[op[1]], op[2]
            if k == "ps":
                t.post_setattr = payload(i)
            elif k == "v":
                t.set_validate(payload(i))
            elif k == "dv":
                t.set_default_value(0, payload(i))
            else:
                t.handler = payload(i)
            book[op[1]][A_FIELDS.index(A_SETTERS[k])] = i
        elif k == "pr":
            t = traits[op[1]]
            t._set_property(payload(op[2]), 0, payload(op[3]), 0, payload(op[4]) if op[4] is not None else None, 0)
            book[op[1]][3], book[op[1]][4], book[op[1]][1] = op[2], op[3], op[4]
        elif k == "cl":
            traits[op[1]].clone(traits[op[2]])
            book[op[1]] = list(book[op[2]])
        elif k == "ss":
            traits[op[1]].__setstate__(traits[op[2]].__getstate__())
            book[op[1]] = list(book[op[2]])
        elif k == "re":
            t, f = traits[op[1]], op[2]
            if book[op[1]][A_FIELDS.index(f)] is not None:
                if f == "post":
                    t.post_setattr = t.post_setattr
                elif f == "validate":
                    t.set_validate(t.get_validate())
                elif f == "dflt":
                    t.set_default_value(*t.default_value())
                elif f == "handler":
                    t.handler = t.handler
        elif k == "drop":
            traits[op[1]] = CTrait(0)
            book[op[1]] = [None] * 6
        elif k == "rd":
            read_fields(traits[op[1]])
        else:
            raise ValueError(k)
        t = None
        state["stop"] = True
        # -------- 1. liveness of the sole payloads, before anything else touches the traits
        holders = [sum(1 for tb in book for x in tb if x == i) for i in range(A_PAYLOADS)]
        cells = []
        dead_held = []
        for i in range(A_PAYLOADS):
            if P[i] is not None:
                cells.append(str(sys.getrefcount(P[i]) - base[i]))
            else:
                alive = W[i] is not None and W[i]() is not None
                cells.append("+" if alive else ".")
                if holders[i] and not alive:
                    dead_held.append(i)
        vis = sorted(set(v[0] for v in state["visible"]))
        line = " ".join(cells) + ("".join(" !%d" % v for v in vis))
        lines.append(line)
        if dead_held:
            fields = [(ti, A_FIELDS[fi]) for ti in range(A_TRAITS) for fi in range(6) if book[ti][fi] in dead_held]
            return {"out": ";".join(lines), "visible": state["visible"], "op": k, "poisoned":
                    "after `%s` payload(s) %s - whose only reference belongs to the trait - were deallocated although "
                    "trait field(s) %s still point to them" % (" ".join(map(str, op)), dead_held, fields),
                    "freed_fields": sorted(set(f for _, f in fields)), "exiting": True}
        # -------- 2. the fields, read back through the API, against the expected contents
        for ti in range(A_TRAITS):
            vals = read_fields(traits[ti])
            for fi in range(6):
                want = book[ti][fi]
                obj = None if want is None else (P[want] if P[want] is not None else W[want]())
                if vals[fi] is not obj:
                    problems.append("after %s: t%d.%s is %r, expected payload %r" % (
                        " ".join(map(str, op)), ti, A_FIELDS[fi], getattr(vals[fi], "i", vals[fi]), want))
            del vals, obj
        # -------- 3. references beyond one per field that points to the object
        for i in range(A_PAYLOADS):
            if P[i] is not None:
                slack = sys.getrefcount(P[i]) - base[i] - holders[i]
                if slack != slack_prev[i]:
                    leaks.append({"op": k, "alias": len(op) > 2 and op[1] == op[2], "payload": i,
                                  "change": slack - slack_prev[i]})
                    slack_prev[i] = slack
    state["stop"] = True
    ans = {"out": ";".join(lines), "leaks": leaks, "problems": problems, "keep": len(keep)}
    if any(x < 0 for x in slack_prev):
        ans["exiting"] = True        # an object with fewer references than holders: leave without clean-up
    return ans


# ===================================================================== parent side

def w_spec(case):
    p = [x.strip() for x in case.split("|")]
    return {"src": p[1], "cls": p[2], "mode": p[3], "access": p[4], "hold": p[5]}


def judge_w(case, ans, asan, crash_summary):
    sp = w_spec(case)
    tag = sp["mode"]
    if "crash" in ans:
        return "crash", [{"signature": "crash:default-failure:" + tag,
                          "what": "a default computation failing with %s under warnings filter %r, read through %s%s: %s" % (
                              sp["cls"], sp["mode"], sp["access"], " (ASan+UBSan build)" if asan else "",
                              crash_summary(ans)), "stderr_tail": ans.get("stderr", "")[-1500:]}]
    if ans.get("error"):
        return "harness-exception " + ans["error"], []
    hits = []
    out = ans["out"]
    if ans.get("poisoned"):
        hits.append({"signature": "freed-while-referenced:default-failure:" + tag, "what": ans["poisoned"]})
        return out, hits
    for rep, line in enumerate(out.split(" / ")):
        f = dict(x.split("=", 1) for x in line.split())
        if int(f["after"]) != 0:
            hits.append({"signature": "refcount:default-failure:%s:exception" % sp["mode"],
                         "what": "failure %d of the default computation (%s, %s raised, filter %r, %s): after what came "
                                 "out of the operation was released, the exception object raised by the default is %+d "
                                 "reference(s) off its count before the operation (each failing read changes it)" % (
                                     rep + 1, sp["src"], sp["cls"], sp["mode"], sp["access"], int(f["after"]))})
            break
        if f["out"] == "warning" and f["cause"] != "1":
            hits.append({"signature": "default-failure:cause-not-set:" + sp["mode"],
                         "what": "the UserWarning raised in place of the %s of the default computation does not have "
                                 "it as __cause__" % sp["cls"]})
            break
        if f["out"].startswith("other:"):
            hits.append({"signature": "default-failure:unexpected-exception:" + sp["mode"],
                         "what": "neither the exception of the default computation nor the UserWarning came out: " + f["out"]})
            break
    for rep, deltas in enumerate(ans.get("others", [])):
        bad = [(n, d) for n, d in zip(ans["other_names"], deltas) if d]
        if bad:
            hits.append({"signature": "refcount:default-failure:%s:%s" % (sp["mode"], bad[0][0]),
                         "what": "failure %d of the default computation (%s, %s, filter %r, %s) left reference counts "
                                 "changed: %s" % (rep + 1, sp["src"], sp["cls"], sp["mode"], sp["access"], bad)})
            break
    if ans.get("problems"):
        return "harness-exception " + "; ".join(ans["problems"])[:300], hits
    return out, hits


def gen_w(rng=None, n=0):
    out = []
    for src in W_SRC:
        for cls in W_CLS:
            for mode in W_MODE:
                for access in W_ACCESS:
                    if src == "validate" and access == "setattr-notify":
                        continue      # the validator rejects the ASSIGNED value first: no default is computed
                    # the exhaustive part: every combination with a held exception, fresh ones for the two classes
                    # and the two modes that behave differently
                    out.append("W|%s|%s|%s|%s|held" % (src, cls, mode, access))
                    if cls in ("AttrSub", "KeyError") and mode in ("error", "default") and src != "ttype":
                        out.append("W|%s|%s|%s|%s|fresh" % (src, cls, mode, access))
    for _ in range(n):
        src, access = rng.choice(W_SRC), rng.choice(W_ACCESS)
        if src == "validate" and access == "setattr-notify":
            access = "getattr"
        out.append("W|%s|%s|%s|%s|%s" % (src, rng.choice(W_CLS), rng.choice(W_MODE), access, rng.choice(W_HOLD)))
    return out


def a_case(holds, ops):
    return "A|%s|%s" % (holds, ";".join(" ".join("n" if x is None else str(x) for x in op) for op in ops))


def a_spec(case):
    _, holds, ops = case.split("|")
    out = []
    for w in ops.split(";"):
        p = w.split()
        if not p:
            continue
        out.append([p[0]] + [None if x == "n" else int(x) if x.lstrip("-").isdigit() else x for x in p[1:]])
    return {"holds": holds.strip(), "ops": out}


def judge_a(case, ans, asan, crash_summary):
    sp = a_spec(case)
    kinds = "-".join(sorted(set(o[0] for o in sp["ops"] if o[0] in ("cl", "ss", "pr", "re", "v"))))
    alias = any(o[0] in ("cl", "ss") and o[1] == o[2] for o in sp["ops"])
    if "crash" in ans:
        return "crash", [{"signature": "crash:raw-ctrait-alias:%s%s" % (kinds or "set", ":self" if alias else ""),
                          "what": "raw CTrait calls with aliased arguments%s: %s" % (
                              " (ASan+UBSan build)" if asan else "", crash_summary(ans)),
                          "stderr_tail": ans.get("stderr", "")[-1500:]}]
    if ans.get("error"):
        return "harness-exception " + ans["error"], []
    hits = []
    names = {"cl": "clone", "ss": "setstate", "pr": "set_property", "v": "set_validate", "ps": "post_setattr",
             "dv": "set_default_value", "h": "handler", "re": "reset", "drop": "dealloc", "rd": "read"}
    out = ans["out"]
    if ans.get("poisoned"):
        hits.append({"signature": "raw-ctrait:freed-while-held:%s%s" % (
            names.get(ans.get("op"), ans.get("op")), ":self" if alias else ""), "what": ans["poisoned"]})
    # a dying payload that found itself through a trait: which operation released it (the `!i` marks of `out`)
    lines = out.split(";")
    for op, line in zip(sp["ops"], lines):
        if "!" in line:
            hits.append({"signature": "raw-ctrait:dying-object-visible:" + names.get(op[0], op[0]),
                         "what": "during `%s` the finalizer of payload(s) %s - released by that call - still found the "
                                 "dying object in a field of the trait (a release before the new value is stored: "
                                 "code run by the release sees a dangling field)" % (
                                     " ".join(map(str, op)), [w[1:] for w in line.split() if w.startswith("!")])})
            break
    for lk in ans.get("leaks", []):
        if lk["change"] > 0:
            hits.append({"signature": "refleak:raw-ctrait:overwrite-without-release" if lk["op"] in ("cl", "ss", "pr")
                         else "refleak:raw-ctrait:" + names.get(lk["op"], lk["op"]),
                         "what": "`%s` left payload %d with %d reference(s) more than the number of trait fields that "
                                 "point to it (the field's previous reference was overwritten, not released)" % (
                                     names.get(lk["op"], lk["op"]), lk["payload"], lk["change"])})
        else:
            hits.append({"signature": "refunder:raw-ctrait:%s%s" % (names.get(lk["op"], lk["op"]),
                                                                    ":self" if lk.get("alias") else ""),
                         "what": "`%s` left payload %d with %d reference(s) FEWER than before relative to the number of "
                                 "trait fields that point to it" % (names.get(lk["op"], lk["op"]), lk["payload"],
                                                                    -lk["change"])})
        break
    if ans.get("problems"):
        hits.append({"signature": "raw-ctrait:field-mismatch", "what": "; ".join(ans["problems"])[:400]})
    return out, hits


def gen_a(rng=None, n=0):
    out = []
    setters = ["ps", "v", "dv", "h"]
    for hold in ("h", "s"):
        H = hold * A_PAYLOADS
        for k in setters:
            out.append(a_case(H, [[k, 0, 0], ["cl", 0, 0], ["rd", 0]]))
            out.append(a_case(H, [[k, 0, 0], ["ss", 0, 0], ["rd", 0]]))
            out.append(a_case(H, [[k, 0, 0], ["cl", 1, 0], ["cl", 1, 0], ["drop", 1]]))
            out.append(a_case(H, [[k, 0, 0], [k, 1, 1], ["cl", 1, 0], ["drop", 0], ["drop", 1]]))
            out.append(a_case(H, [[k, 0, 0], [k, 1, 1], ["ss", 1, 0], ["drop", 0]]))
            out.append(a_case(H, [[k, 0, 0], ["re", 0, A_SETTERS[k]], ["drop", 0]]))
            out.append(a_case(H, [[k, 0, 0], [k, 0, 1], [k, 0, 2], ["drop", 0]]))
        out.append(a_case(H, [["ps", 0, 0], ["v", 0, 1], ["dv", 0, 2], ["h", 0, 3], ["cl", 0, 0], ["rd", 0],
                              ["drop", 0]]))
        out.append(a_case(H, [["ps", 0, 0], ["v", 0, 1], ["dv", 0, 2], ["h", 0, 3], ["ss", 0, 0], ["drop", 0]]))
        out.append(a_case(H, [["pr", 0, 0, 1, 2], ["cl", 0, 0], ["drop", 0]]))
        out.append(a_case(H, [["pr", 0, 0, 1, None], ["pr", 0, 2, 3, 4], ["drop", 0]]))
        out.append(a_case(H, [["v", 0, 0], ["pr", 0, 1, 2, 3], ["drop", 0]]))
    for k in setters:       # the object the field already holds, passed again (held payloads only)
        out.append(a_case("h" * A_PAYLOADS, [[k, 0, 0], [k, 0, 0], [k, 1, 0], ["cl", 2, 0], [k, 2, 0], ["drop", 2]]))
    for _ in range(n):
        holds = "".join(rng.choice("hhs") for _ in range(A_PAYLOADS))
        used = set()
        ops = []

        def pick():
            cand = [i for i in range(A_PAYLOADS) if holds[i] == "h" or i not in used]
            if not cand:
                return None
            i = rng.choice(cand)
            used.add(i)
            return i
        for _ in range(rng.randint(2, 9)):
            r = rng.random()
            t = rng.randrange(A_TRAITS)
            if r < 0.42:
                i = pick()
                if i is not None:
                    ops.append([rng.choice(setters), t, i])
            elif r < 0.50:
                g, s, v = pick(), pick(), (pick() if rng.random() < 0.7 else None)
                if g is not None and s is not None:
                    ops.append(["pr", t, g, s, v])
            elif r < 0.70:
                ops.append(["cl", t, t if rng.random() < 0.4 else rng.randrange(A_TRAITS)])
            elif r < 0.82:
                ops.append(["ss", t, t if rng.random() < 0.5 else rng.randrange(A_TRAITS)])
            elif r < 0.90:
                ops.append(["re", t, rng.choice(["post", "validate", "dflt", "handler"])])
            elif r < 0.96:
                ops.append(["drop", t])
            else:
                ops.append(["rd", t])
        if ops:
            out.append(a_case(holds, ops))
    return out
