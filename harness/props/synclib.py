"""Shared pieces of the `sync` cluster (property C20): line protocol, the real
classes the histories run on, pure twins of the trait validators (used by the
oracle only), generators.

Case line:   sy|<obj>,<obj>,...|<cmd>;<cmd>;...
  <obj>  = kx:ky:kl:km      trait kinds of the scalar traits x, y and of the items of the list traits l, m
         | name=kind:name=*kind:...   any class shape: `*` marks a List trait (kind = kind of its items).  Names
           are opaque to the model; the same name may be a List trait in one class, a scalar trait in another,
           absent in a third; names may contain `_items` (`menu_items`).  A List kind may carry a flavour,
           `name=*kind+f`: how the class gets the trait and its default - dm: `_name_default` method on the class,
           ds: `_name_default` method only on a subclass (the object is an instance of the subclass), so: a subclass
           overrides the default by value (`name = [1, 2]`), sub: declared with a subclass of List.  dm / ds / so
           make the default [1,2] (kinds int, cint, rng, mod7; [] otherwise), which is the model's initial value
  kinds  = int (Int) | str (Str) | cint (CInt) | rng (Range(-3,3)) | mod7 | inc   (the last two are TraitTypes
           defined here: an idempotent, non-injective coercion and a non-idempotent one)
         | any (Any(0): not a List trait but able to hold a list - the sender's own list object when linked
           one-way, a list object of its own when linked mutually or assigned from its side; object identity is
           outside the Lean model, so cases with this kind are `#sy|...` lines: implementation + oracle only)
  <cmd>  = as <o> <name> <val>                 setattr(obj_o, name, val)   val = 5 | s5 (the str '5') | [1,2]
         | mu <o> <name> <list op of seqlib>   in-place mutation of obj_o.name
         | li <o> <name> <o2> <alias> <0|1>    obj_o.sync_trait(name, obj_o2, alias, mutual)
         | un <o> <name> <o2> <alias> <0|1>    obj_o.sync_trait(name, obj_o2, alias, mutual, remove=True)
         | ki <o>                              del obj_o; gc.collect()
         | kd <o> <name> <v>                   arm a trigger: from now on, whenever trait <name> of obj_o is notified
                                               (whole-trait change or items event; a recording handler registered at
                                               birth, so it runs BEFORE the synchronisation handlers), the harness drops
                                               its last reference to obj_v (`del obj_v; gc.collect()` inside the handler:
                                               partner death DURING a propagation) - unless obj_v is busy: it is obj_o,
                                               the running command addresses it, or one of its sync locks is set
Output: one record per command, joined by ' ; ':
  <res> r<n> <obj0> <obj1> ...      res = ok | ok=<ret> | err:<Exc>;  n = exceptions swallowed by the notifier
  <obj> = dead | <name>=<v>,...,c=<digits>,k=<locked names '+'-joined or '-'>     (declared traits, in order)
          (c = handler calls during this command: on every trait in order, then on the items event of every List
           trait in order; one digit each, 9 = nine or more)
"""
from . import seqlib as S

SCALARS = ("x", "y")
LISTS = ("l", "m")
NAMES = SCALARS + LISTS
KINDS = ("int", "str", "cint", "rng", "mod7", "inc")
IDEMPOTENT = ("int", "str", "cint", "rng", "mod7")

_classes = {}
_types = {}


def _trait_types():
    if _types:
        return _types
    from traits.api import TraitType

    class Mod7(TraitType):
        default_value = 0

        def validate(self, object, name, value):
            if type(value) is int:
                return value % 7
            self.error(object, name, value)

    class Inc(TraitType):
        default_value = 0

        def validate(self, object, name, value):
            if type(value) is int:
                return value + 1
            self.error(object, name, value)
    _types["mod7"] = Mod7
    _types["inc"] = Inc
    return _types


def make_trait(kind):
    from traits.api import Int, Str, CInt, Range, Any
    if kind == "any":
        return Any(0)
    if kind == "int":
        return Int(0)
    if kind == "str":
        return Str("0")
    if kind == "cint":
        return CInt(0)
    if kind == "rng":
        return Range(-3, 3, 0)
    return _trait_types()[kind]()


FLAVOURS = ("dm", "ds", "so", "sub")


def parse_spec(s):
    """-> tuple of (name, is_list, kind, flavour)."""
    parts = [t.strip() for t in s.strip().split(":")]
    if any("=" in t for t in parts):
        out = []
        for t in parts:
            n, k = t.split("=")
            il = k.startswith("*")
            k, _, fl = k.lstrip("*").partition("+")
            out.append((n, il, k, fl))
        return tuple(out)
    return tuple((n, n in LISTS, k, "") for n, k in zip(NAMES, parts))


def names(spec):
    return tuple(d[0] for d in spec)


def lists(spec):
    return tuple(d[0] for d in spec if d[1])


def decl(spec, name):
    """-> (name, is_list, kind)"""
    for d in spec:
        if d[0] == name:
            return d[:3]
    raise KeyError(name)


def is_list(spec, name):
    return any(d[0] == name and d[1] for d in spec)


def kind_of(spec, name):
    return decl(spec, name)[2]


def default_of(d):
    """The default value of a declared trait (= the model's initial value)."""
    n, il, k, fl = d
    if il:
        return [1, 2] if fl in ("dm", "ds", "so") and k in ("int", "cint", "rng", "mod7") else []
    return "0" if k == "str" else 0


def falsy_mode(case):
    """Replay-stable switch: a quarter of the cases run on objects whose classes define `__bool__` returning
    False, another quarter on classes with `__len__` returning 0 (alive but falsy HasTraits objects: nothing in
    the property depends on an object's truth value, so `if not partner:` instead of `is None` shows)."""
    import zlib
    return ("bool", "len", "", "")[zlib.crc32(case.encode()) % 4]


def make_class(spec, falsy=""):
    """spec = tuple of (name, is_list, kind, flavour)."""
    c = _classes.get((spec, falsy))
    if c is None:
        from traits.api import HasTraits, List

        class SubList(List):
            """a List trait type declared through a subclass of List"""

        def method(value):
            return lambda self: list(value)
        base, sub = {}, {}
        if falsy == "bool":
            base["__bool__"] = lambda self: False
        elif falsy == "len":
            base["__len__"] = lambda self: 0
        for d in spec:
            n, il, k, fl = d
            if not il:
                base[n] = make_trait(k)
                continue
            base[n] = (SubList if fl == "sub" else List)(make_trait(k))
            if fl == "dm":
                base["_%s_default" % n] = method(default_of(d))
            elif fl == "ds":
                sub["_%s_default" % n] = method(default_of(d))
            elif fl == "so":
                sub[n] = list(default_of(d))
        tag = "_".join("%s%s%s%s" % (n, "L" if il else "S", k, fl) for n, il, k, fl in spec)
        c = type("O_" + tag, (HasTraits,), base)
        if sub:
            c = type("OS_" + tag, (c,), sub)
        _classes[(spec, falsy)] = c
    return c


class Reject(Exception):
    pass


def pure_validate(kind, v):
    """What the trait of this kind stores for v (oracle's own reading of the trait
    documentation; independent of traits and of the Lean model)."""
    if kind == "int":
        if type(v) is int:
            return v
    elif kind == "str":
        if type(v) is str:
            return v
    elif kind == "cint":
        if type(v) is int:
            return v
        if type(v) is str:
            try:
                return int(v)
            except ValueError:
                pass
    elif kind == "rng":
        if type(v) is int and -3 <= v <= 3:
            return v
    elif kind == "mod7":
        if type(v) is int:
            return v % 7
    elif kind == "inc":
        if type(v) is int:
            return v + 1
    elif kind == "any":
        return v
    raise Reject(kind)


def pure_validate_attr(spec, name, v):
    """Validated value for attribute `name` of an object of class spec."""
    _, il, kind = decl(spec, name)
    if il:
        if type(v) is not list:
            raise Reject("list")
        return [pure_validate(kind, x) for x in v]
    if kind == "any":
        return list(v) if isinstance(v, list) else v      # Any stores whatever it is given (contents compared)
    if type(v) is list:
        raise Reject("scalar")
    return pure_validate(kind, v)


# ------------------------------------------------------------------ protocol

def parse_val(s):
    s = s.strip()
    if s.startswith("["):
        return list(S.parse_list(s))
    if s.startswith("s"):
        return str(int(s[1:]))
    return int(s)


def show_scalar(v):
    if type(v) is str:
        return "s%d" % int(v)
    return "%d" % int(v)


def show_val(v):
    if isinstance(v, list):
        return "[" + ",".join(show_scalar(x) for x in v) + "]"
    return show_scalar(v)


def parse_cmd(s):
    w = s.split()
    k = w[0]
    if k == "as":
        return (k, int(w[1]), w[2], parse_val(" ".join(w[3:])))
    if k == "mu":
        return (k, int(w[1]), w[2], S.parse_op(" ".join(w[3:])))
    if k in ("li", "un"):
        return (k, int(w[1]), w[2], int(w[3]), w[4], int(w[5]))
    if k == "ki":
        return (k, int(w[1]))
    if k == "kd":
        return (k, int(w[1]), w[2], int(w[3]))
    raise AssertionError(s)


def parse_case(case):
    kind, specs, cmds = case.split("|")
    specs = [parse_spec(o) for o in specs.split(",")]
    cmds = [parse_cmd(c) for c in cmds.split(";") if c.strip()]
    return kind.lstrip("#"), specs, cmds


# ---------------------------------------------------------------- generators

def rand_scalar(rng, kind, valid=True):
    if not valid:
        return rng.choice(["[1]", "s5" if kind in ("int", "rng", "mod7", "inc") else "7", "9" if kind == "rng" else "[]"])
    if kind == "str":
        return "s%d" % rng.randint(-2, 9)
    if kind == "cint" and rng.random() < 0.4:
        return "s%d" % rng.randint(-2, 9)
    if kind == "rng":
        return "%d" % rng.randint(-3, 3)
    return "%d" % rng.choice([0, 1, 2, 3, 5, 8, 9, 13, -1, -4])


def rand_listval(rng, kind, valid=True, lo=0, hi=5):
    if not valid:
        return rng.choice(["3", "s1"])
    n = rng.randint(lo, hi)
    if kind == "rng":
        return S.show_list([rng.randint(-3, 3) for _ in range(n)])
    return S.show_list([rng.choice([0, 1, 2, 3, 5, 8, 9, 13, -1, -4]) for _ in range(n)])


def random_history(rng, maxcmds=12, gc_heavy=False, shape=None):
    """A two-sided history on 2-4 objects.  Mostly same-kind objects (the
    property's scope), sometimes mixed validators; links mutual / one-way, with
    aliases, two partners, chains and (rarely) cycles; removal and partner
    death at any point, then a fresh partner."""
    r = rng.random()
    nobj = 2 if r < 0.45 else 3 if r < 0.85 else 4
    r = rng.random()
    if r < 0.6:
        k = rng.choice(["int", "int", "int", "cint", "mod7", "rng"])
        specs = [(k, k, k if k != "str" else "int", k if k != "str" else "int")] * nobj
    elif r < 0.8:
        ks, kl = rng.choice(["int", "str", "cint", "rng", "mod7"]), rng.choice(["int", "cint", "rng", "mod7"])
        specs = [(ks, ks, kl, kl)] * nobj
    else:
        specs = [(rng.choice(KINDS), rng.choice(KINDS), rng.choice(KINDS), rng.choice(KINDS)) for _ in range(nobj)]
    alive = list(range(nobj))
    # objects 0 and 1 are the two "sides"; the others are further / fresh partners
    shadow = {}         # rough guess of every list (builtin-list semantics, linked lists copied): only used to
                        # aim indices and slice bounds at existing positions
    cmds = []
    links = []          # (o, n, o2, n2) as requested, for plausible removals

    def sh(o, n):
        return shadow.setdefault((o, n), [])

    def spread(o, n):
        """copy the guessed list of (o, n) to everything linked with it"""
        seen, todo = {(o, n)}, [(o, n)]
        while todo:
            u = todo.pop()
            for (a, na, b, nb) in links:
                for x, y in (((a, na), (b, nb)), ((b, nb), (a, na))):
                    if x == u and y not in seen and y[0] in alive:
                        seen.add(y)
                        todo.append(y)
        for y in seen:
            shadow[y] = list(shadow.get((o, n), []))
    ncmd = rng.randint(1, maxcmds)
    big = 0

    def pick_obj(bias_sides=True):
        side = [o for o in alive if o < 2]
        if bias_sides and side and rng.random() < 0.75:
            return rng.choice(side)
        return rng.choice(alive)

    def pick_name(lst=None):
        if lst is None:
            lst = rng.random() < 0.6
        if lst:
            return "l" if rng.random() < 0.8 else "m"
        return "x" if rng.random() < 0.8 else "y"

    def link_cmd():
        if len(alive) < 2 and rng.random() < 0.9:
            return None
        o = pick_obj()
        o2 = rng.choice([p for p in alive if p != o] or [o]) if rng.random() < 0.95 else o
        n = pick_name()
        lst = n in LISTS
        r = rng.random()
        if r < 0.7:
            n2 = n
        elif r < 0.97:
            n2 = pick_name(lst)
        else:
            n2 = pick_name(not lst)   # cross-kind link (raises TraitError at link time)
        links.append((o, n, o2, n2))
        if lst and n2 in LISTS:
            spread(o, n)
        return "li %d %s %d %s %d" % (o, n, o2, n2, 1 if rng.random() < 0.7 else 0)

    # usually start by linking, and give a linked list some content to work on
    if rng.random() < 0.85:
        c = link_cmd()
        if c:
            cmds.append(c)
            w = c.split()
            if w[2] in LISTS and rng.random() < 0.6:
                o = int(w[1])
                kind = specs[o][NAMES.index(w[2])]
                v = rand_listval(rng, kind, True, lo=3, hi=7)
                cmds.append("as %d %s %s" % (o, w[2], v))
                shadow[(o, w[2])] = S.parse_list(v)
                spread(o, w[2])
    while len(cmds) < ncmd and alive:
        r = rng.random()
        if gc_heavy and len(alive) > 1 and r < 0.18:
            r = 0.99
        if r < 0.22:
            o, n = pick_obj(), pick_name(False)
            kind = specs[o][NAMES.index(n)]
            cmds.append("as %d %s %s" % (o, n, rand_scalar(rng, kind, rng.random() < 0.85)))
        elif r < 0.32:
            o, n = pick_obj(), pick_name(True)
            kind = specs[o][NAMES.index(n)]
            v = rand_listval(rng, kind, rng.random() < 0.9)
            cmds.append("as %d %s %s" % (o, n, v))
            if v.startswith("["):
                shadow[(o, n)] = list(S.parse_list(v))
                spread(o, n)
        elif r < 0.72:
            o, n = pick_obj(), pick_name(True)
            cur = len(sh(o, n))
            op = S.random_op(rng, min(cur, 12))
            if cur >= 3 and rng.random() < 0.2:
                # an extended slice selecting at least two positions (its event carries a slice index)
                step = rng.choice([2, 2, -2, 3, -3, -2])
                a = rng.choice([None, None, 0, 1, -1, cur - 1, rng.randint(-cur, cur)])
                b = rng.choice([None, None, None, 0, cur, -1, rng.randint(-cur, cur)])
                k = len(range(*slice(a, b, step).indices(cur)))
                if k >= 2:
                    if rng.random() < 0.6:
                        op = "ss %s %s %d %s" % (S.show_opt(a), S.show_opt(b), step,
                                                 S.show_list([rng.choice([0, 1, 2, 3, -1]) for _ in range(k)]))
                    else:
                        op = "ds %s %s %d" % (S.show_opt(a), S.show_opt(b), step)
            if op in ("im 2", "im 3"):
                big += 1
                if big > 2 or cur > 8:
                    op = "im 1"
            cmds.append("mu %d %s %s" % (o, n, op))
            try:
                S.apply_op(sh(o, n), S.parse_op(op))
                spread(o, n)
            except Exception:
                pass
        elif r < 0.84:
            c = link_cmd()
            if c:
                cmds.append(c)
        elif r < 0.92:
            if links and rng.random() < 0.85:
                o, n, o2, n2 = rng.choice(links)
                if o in alive and o2 in alive:
                    if rng.random() < 0.3:
                        o, n, o2, n2 = o2, n2, o, n
                    cmds.append("un %d %s %d %s %d" % (o, n, o2, n2, 1 if rng.random() < 0.75 else 0))
            elif len(alive) >= 2:
                o, o2 = rng.sample(alive, 2)
                cmds.append("un %d %s %d %s %d" % (o, pick_name(), o2, pick_name(), rng.randint(0, 1)))
        else:
            if len(alive) > 1:
                # kill a partner (prefer side 1 or a further partner), keep object 0 mostly
                cand = [o for o in alive if o != 0] if rng.random() < 0.85 else alive
                o = rng.choice(cand)
                alive.remove(o)
                cmds.append("ki %d" % o)
                # continue with a fresh partner
                if len(specs) < 5 and rng.random() < 0.8:
                    specs = list(specs) + [specs[o] if rng.random() < 0.8 else
                                           tuple(rng.choice(KINDS) for _ in range(4))]
                    alive.append(len(specs) - 1)
                    if rng.random() < 0.8 and len(cmds) < ncmd:
                        fresh = len(specs) - 1
                        # mostly: the survivor's link to the dead partner again, same trait and alias, at once
                        # (a stale table entry keyed by the dead partner's id() would be taken for the new one)
                        old = [(a, na, nb) for (a, na, b, nb) in links if b == o and a in alive and a != fresh] + \
                              [(b, nb, na) for (a, na, b, nb) in links if a == o and b in alive and b != fresh]
                        if old and rng.random() < 0.75:
                            src, n, n2 = rng.choice(old)
                        else:
                            src = rng.choice([a for a in alive if a != fresh])
                            n = n2 = pick_name()
                        links.append((src, n, fresh, n2))
                        if n in LISTS and n2 in LISTS:
                            spread(src, n)
                        cmds.append("li %d %s %d %s %d" % (src, n, fresh, n2, 1 if rng.random() < 0.8 else 0))
    return "sy|%s|%s" % (",".join(":".join(s) for s in specs), ";".join(cmds))


# Class shapes with List traits under different names and partial overlaps of names: a name that is a List
# trait in one class is a scalar trait in another and absent in a third; names containing `_items`, next to a
# scalar trait named like their stem.  (A class cannot have List traits `menu` and `menu_items` both: the items
# event of the first is the trait `menu_items`.)
SHAPES = (
    "x=K:y=K:l=*K:m=*K",
    "x=K:y=K:l=*K:menu_items=*K",
    "x=K:m=*K:n=K:menu_items=*K",
    "y=K:n=*K:m=K:menu=K",
    "x=K:l=*K:n=*K",
    "x=K:menu_items=*K:menu=K",
    "x=K:y=K:m=*K:l=K",
    "x=K:menu=*K:n=*K",
)


def random_shape_history(rng, maxcmds=14):
    """A hub List trait linked to List traits of two or three partners under different attribute names; removal
    of one link among several; in-place mutations of the hub (and of the partners) before and after."""
    k = rng.choice(["int", "int", "int", "cint", "mod7", "rng"])
    nobj = rng.choice([3, 3, 4, 2])
    def flavoured(shape):
        # how the class comes by its List traits and their defaults: static, `_name_default` method (own / only in
        # a subclass), default overridden by value in a subclass, subclass of List - mixed within one link graph
        return ":".join(t + ("+" + rng.choice(FLAVOURS) if "*" in t and rng.random() < 0.4 else "")
                        for t in shape.split(":"))
    specs_s = [flavoured(rng.choice(SHAPES)).replace("K", k) for _ in range(nobj)]
    if rng.random() < 0.15:
        specs_s[rng.randrange(nobj)] = flavoured(rng.choice(SHAPES)).replace("K", rng.choice(KINDS))
    specs = [parse_spec(t) for t in specs_s]
    alive = list(range(nobj))
    cmds, links, shadow = [], [], {}
    for o, sp in enumerate(specs):
        for d in sp:
            if d[1]:
                shadow[(o, d[0])] = list(default_of(d))

    def spread(o, n):
        seen, todo = {(o, n)}, [(o, n)]
        while todo:
            u = todo.pop()
            for (a, na, b, nb) in links:
                for x, y in (((a, na), (b, nb)), ((b, nb), (a, na))):
                    if x == u and y not in seen and y[0] in alive:
                        seen.add(y)
                        todo.append(y)
        for y in seen:
            shadow[y] = list(shadow.get((o, n), []))

    def pick(o, lst):
        c = [d[0] for d in specs[o] if d[1] == lst]
        return rng.choice(c) if c else None

    hub = 0
    hn = pick(hub, True)
    # the hub trait gets its partners
    others = [o for o in alive if o != hub]
    rng.shuffle(others)
    for o in others[:rng.choice([2, 2, 3, 1])]:
        n2 = pick(o, True)
        if hn is None or n2 is None:
            continue
        links.append((hub, hn, o, n2))
        if rng.random() < 0.5:
            cmds.append("li %d %s %d %s %d" % (hub, hn, o, n2, rng.choice([1, 1, 0])))
        else:
            cmds.append("li %d %s %d %s 1" % (o, n2, hub, hn))
    if hn is not None and rng.random() < 0.6:
        v = rand_listval(rng, kind_of(specs[hub], hn), True, lo=2, hi=6)
        cmds.append("as %d %s %s" % (hub, hn, v))
        shadow[(hub, hn)] = list(S.parse_list(v))
        spread(hub, hn)
    ncmd = rng.randint(max(4, len(cmds) + 2), maxcmds)
    while len(cmds) < ncmd:
        r = rng.random()
        if r < 0.45:
            # in-place mutation, mostly of the hub
            o = hub if (hn is not None and rng.random() < 0.65 and hub in alive) else rng.choice(alive)
            n = hn if o == hub and hn is not None and rng.random() < 0.85 else pick(o, True)
            if n is None:
                continue
            cur = len(shadow.setdefault((o, n), []))
            op = S.random_op(rng, min(cur, 12))
            if op in ("im 2", "im 3") and cur > 6:
                op = "im 1"
            cmds.append("mu %d %s %s" % (o, n, op))
            try:
                S.apply_op(shadow[(o, n)], S.parse_op(op))
                spread(o, n)
            except Exception:
                pass
        elif r < 0.62 and links:
            # one link among several goes (mostly exactly as it was made)
            a, na, b, nb = rng.choice(links)
            if a in alive and b in alive:
                if rng.random() < 0.3:
                    a, na, b, nb = b, nb, a, na
                cmds.append("un %d %s %d %s %d" % (a, na, b, nb, 1 if rng.random() < 0.8 else 0))
                if rng.random() < 0.8:
                    links[:] = [l for l in links if l not in ((a, na, b, nb), (b, nb, a, na))]
        elif r < 0.74:
            # a further link: lists under whatever names, scalars, now and then across kinds
            o = rng.choice(alive)
            o2 = rng.choice([p for p in alive if p != o] or [o])
            lst = rng.random() < 0.6
            n, n2 = pick(o, lst), pick(o2, lst if rng.random() < 0.93 else not lst)
            if n is None or n2 is None:
                continue
            links.append((o, n, o2, n2))
            if is_list(specs[o], n) and is_list(specs[o2], n2):
                spread(o, n)
            cmds.append("li %d %s %d %s %d" % (o, n, o2, n2, rng.choice([1, 1, 0])))
        elif r < 0.86:
            o = rng.choice(alive)
            lst = rng.random() < 0.5
            n = pick(o, lst)
            if n is None:
                continue
            kind = kind_of(specs[o], n)
            if lst:
                v = rand_listval(rng, kind, rng.random() < 0.9)
                if v.startswith("["):
                    shadow[(o, n)] = list(S.parse_list(v))
                    spread(o, n)
            else:
                v = rand_scalar(rng, kind, rng.random() < 0.85)
            cmds.append("as %d %s %s" % (o, n, v))
        elif r < 0.92 and len(alive) > 2:
            o = rng.choice([a for a in alive if a != hub])
            alive.remove(o)
            cmds.append("ki %d" % o)
    return "sy|%s|%s" % (",".join(specs_s), ";".join(cmds))


def random_doom_history(rng):
    """Partner death DURING a propagation: a hub trait (scalar or List) with 2-4 partners (one-way or mutual,
    sometimes chained), a trigger armed on one partner's trait whose victim is another partner (mostly one that
    the hub's loop has not reached yet, sometimes one already visited, the hub itself, an unrelated object),
    then changes of the hub (assignment / in-place mutation) and, afterwards, changes on both sides and links
    to a fresh partner (a lock left behind shows there)."""
    k = rng.choice(["int", "int", "cint", "mod7"])
    npart = rng.choice([2, 2, 3, 3, 4])
    nobj = npart + 1 + (1 if rng.random() < 0.5 else 0)
    specs = [(k, k, k, k)] * nobj
    lst = rng.random() < 0.5
    n = ("l" if rng.random() < 0.8 else "m") if lst else ("x" if rng.random() < 0.8 else "y")
    cmds = []
    parts = list(range(1, npart + 1))
    rng.shuffle(parts)
    for o in parts:
        if rng.random() < 0.8:
            cmds.append("li 0 %s %d %s %d" % (n, o, n, 1 if rng.random() < 0.5 else 0))
        else:
            cmds.append("li %d %s 0 %s 1" % (o, n, n))
    if npart >= 3 and rng.random() < 0.3:
        a, b = rng.sample(parts, 2)
        cmds.append("li %d %s %d %s %d" % (a, n, b, n, rng.randint(0, 1)))
    if lst and rng.random() < 0.6:
        cmds.append("as 0 %s %s" % (n, rand_listval(rng, k, True, lo=2, hi=5)))
    # the trigger
    r = rng.random()
    watcher = rng.choice(parts)
    if r < 0.7:
        victim = rng.choice([o for o in parts if o != watcher])
    elif r < 0.8:
        victim = 0
    elif r < 0.9:
        victim = watcher
    else:
        victim = rng.randrange(nobj)
    cmds.insert(rng.randint(0, len(cmds)), "kd %d %s %d" % (watcher, n, victim))
    if rng.random() < 0.2:
        cmds.append("kd %d %s %d" % (rng.choice(parts), n, rng.choice(parts)))

    def change(o):
        if lst and rng.random() < 0.75:
            return "mu %d %s %s" % (o, n, rng.choice(["ap 3", "ap 5", "ex [1,2]", "in 0 7", "po -1", "rv", "ia [4]",
                                                        "ss N N 2 [8]", "ds N N 2", "cl"]))
        if lst:
            return "as %d %s %s" % (o, n, rand_listval(rng, k, True, lo=1, hi=4))
        return "as %d %s %s" % (o, n, rand_scalar(rng, k, True))
    cmds.append(change(0))
    fresh = nobj - 1 if nobj > npart + 1 else None
    for _ in range(rng.randint(1, 5)):
        r = rng.random()
        if r < 0.4:
            cmds.append(change(0))
        elif r < 0.75:
            cmds.append(change(rng.choice(parts)))
        elif r < 0.9 and fresh is not None:
            cmds.append("li 0 %s %d %s 1" % (n, fresh, n))
            cmds.append(change(fresh))
        else:
            cmds.append("un 0 %s %d %s 1" % (n, rng.choice(parts), n))
    return "sy|%s|%s" % (",".join(":".join(sp) for sp in specs), ";".join(cmds))


def random_any_history(rng):
    """Mixed partner kinds (implementation + oracle only, `#sy`): a hub List trait with 2-4 partners of different
    kinds - List traits and Any traits, in any order, mutual or one-way (a one-way Any partner holds the hub's
    very list object, a mutual one a list object of its own) -, whole-value assignments from every side (also a
    plain list assigned from the Any side), then in-place mutations of the List sides, removal of a link and
    more mutations.  The oracle compares the contents of every linked side after every in-place mutation."""
    k = rng.choice(["int", "int", "cint", "mod7"])
    nl = rng.choice([1, 1, 2])
    na = rng.choice([1, 1, 2])
    specs = ["x=%s:l=*%s" % (k, k)] + ["x=%s:l=*%s" % (k, k)] * nl + ["x=%s:z=any" % k] * na
    parts = [(o, "l") for o in range(1, nl + 1)] + [(o, "z") for o in range(nl + 1, nl + na + 1)]
    rng.shuffle(parts)
    cmds = []
    if rng.random() < 0.5:
        cmds.append("as 0 l %s" % rand_listval(rng, k, True, lo=1, hi=4))
    for (o, n) in parts:
        if n == "z" and rng.random() < 0.25:
            cmds.append("li 0 l %d z 0" % o)
        elif rng.random() < 0.8:
            cmds.append("li 0 l %d %s 1" % (o, n))
        else:
            cmds.append("li %d %s 0 l 1" % (o, n))
    lists = [0] + [o for (o, n) in parts if n == "l"]
    anys = [o for (o, n) in parts if n == "z"]
    ops = ["ap 3", "ap 5", "ex [1,2]", "in 0 7", "in 1 4", "po -1", "po 0", "rv", "so", "ia [4]", "ss N N 2 [8]",
           "ss 0 1 N [6,6]", "ds N N 2", "di 0", "rm 3", "si 0 2", "im 2"]
    for _ in range(rng.randint(3, 9)):
        r = rng.random()
        if r < 0.55:
            cmds.append("mu %d l %s" % (rng.choice(lists), rng.choice(ops)))
        elif r < 0.7:
            cmds.append("as %d l %s" % (rng.choice(lists), rand_listval(rng, k, True, lo=1, hi=4)))
        elif r < 0.85:
            cmds.append("as %d z %s" % (rng.choice(anys), rand_listval(rng, k, True, lo=1, hi=4)))
        elif r < 0.93:
            o, n = rng.choice(parts)
            cmds.append("un 0 l %d %s 1" % (o, n))
        else:
            o, n = rng.choice(parts)
            cmds.append("li 0 l %d %s 1" % (o, n))
    return "#sy|%s|%s" % (",".join(specs), ";".join(cmds))


def with_gc_everywhere(case):
    """From one history, the variants in which the second side is collected
    before command i (for every i) and a fresh partner is linked in its place."""
    kind, specs, cmds = case.split("|")
    cl = [c for c in cmds.split(";") if c.strip()]
    sp = specs.split(",")
    if len(sp) >= 5 or len(sp) < 2 or any(c.startswith("ki 1") for c in cl):
        return
    fresh = len(sp)
    for i in range(1, len(cl) + 1):
        tail = []
        for c in cl[i:]:
            w = c.split()
            # redirect later commands that address the dead object to the fresh one
            if w[0] in ("as", "mu") and w[1] == "1":
                w[1] = str(fresh)
            elif w[0] in ("li", "un"):
                if w[1] == "1":
                    w[1] = str(fresh)
                if w[3] == "1":
                    w[3] = str(fresh)
            elif w[0] == "ki" and w[1] == "1":
                continue
            tail.append(" ".join(w))
        first = cl[0].split()
        relink = []
        if first[0] == "li" and "1" in (first[1], first[3]):
            w = list(first)
            if w[1] == "1":
                w[1] = str(fresh)
            if w[3] == "1":
                w[3] = str(fresh)
            relink = [" ".join(w)]
        yield "%s|%s|%s" % (kind, ",".join(sp + [sp[1]]), ";".join(cl[:i] + ["ki 1"] + relink + tail))
