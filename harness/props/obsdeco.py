"""C09 on *decorator-form* observers: class shapes carrying ``@observe`` methods.

Case line (implementation + oracle only, fully explicit, replayable):

    #deco|<class>;<class>;...|<inst>|<op>;<op>;...

    class := Name(Base,Base,...)            bases in source order; a Base is an earlier class Name,
           | Name(Base,...):item,item,...   `H` (traits.api.HasTraits) or `O` (object)
    item  := redecl.<trait>                 the class re-declares the universe trait (value/count -> Int(7),
                                            child -> Instance(Leaf), kids -> List(Instance(Leaf)))
           | <meth>=                        plain (undecorated) definition of the handler method
           | <meth>=deco+deco+...           decorated definition, decorators in source order (top first)
    deco  := [!][~]expr                     `!` post_init=True; `~` the expression is handed over as an
                                            ObserverExpression object (traits.observation.api.parse) not as text
    expr  := text of the observe mini-language over  value count child kids items  with `.` / `:`,
             or  e1&e2  = the python list [e1, e2]
    inst  := Name[ kw ...]                  class to instantiate and constructor keywords, in order:
                                            value (=5) | count (=5) | child (=Leaf()) | kids2 (=[Leaf(), Leaf()])
    op    := bump T | cbump T | kbump i T | newchild | nochild | kapp | kpop | knew n
           | add M E | rm M E | addx M E | rmx M E          (x: expression handed over as an object)

Every class directly below `H` declares the universe  value = Int(); count = Int(); child = Instance(Leaf);
kids = List(Instance(Leaf));  Leaf has value and count.  All classes (Leaf too) are created afresh per case.

ORACLE (from the statement, not from has_traits.update_traits_class_dict):
  declarations in force for the instantiated class K and a method name n = the decorators stacked on the
  definition of n that the MRO of K resolves n to (the first class in K.__mro__ whose body defines n), if
  that class is a HasTraits subclass; an undecorated override therefore silences the inherited decorators,
  one declaration counts once however many inheritance paths reach it, two equal stacked declarations count
  twice.  From these a registration multiset  reg : (method, graph) -> n  is kept through the history
  (add +1, successful rm -1) and after construction and after EVERY op the oracle demands
    * spec populations: on every observable a graph reaches (paths counted over the live object graph) the
      user notifier of the method has reference count  sum(reg x paths)  where the node notifies, and the
      number of maintainers equals  sum(reg x paths)  where the node is not the last one;
    * twin: the complete notifier population (every instance trait of the object and of every Leaf ever
      made, every list ever held, trait_added hooks included) equals that of an instance of the TWIN class
      shape (same hierarchy, decorators stripped) that registered the declarations in force explicitly, once
      each, right after construction and went through the same ops;
    * calls: a change of an observable calls each method exactly once iff reg gives it a notifying
      registration there (also during construction: post_init=False declarations see the keywords);
    * rm with reg == 0 raises NotifierNotFound and changes nothing; rm with reg >= 1 does not raise.
  A removal of a never-registered graph that overlaps (same names up to notify flags, or prefix) an active
  registration of the same method is outside the statement: the history is not judged after it.

Known deviation of the clean tree (F110): when several bases disagree about a method name the metaclass
takes the registrations of the LAST HasTraits base that has any (has_traits.update_traits_class_dict) while
getattr resolves the method through the MRO.  The oracle re-judges such a case under that rule and, if it
fits, reports the single hit `deco-inforce:last-base-wins`.
"""
import collections

RULE = (" ; `#deco` cases (implementation only, harness/props/obsdeco.py): generated class shapes (chains of depth "
        "1-3, diamonds, stacked / three-level diamonds, three-way joins, plain-object and HasTraits mixins, random "
        "DAGs) whose handler methods carry @observe decorators (plain, nested, notify=False links, list items, "
        "lists of expressions, stacked, duplicated, post_init, expression objects; defined in the top base, a "
        "middle class or several, overridden with / without decorator, observed trait re-declared) x histories "
        "of changes, n explicit registrations and n removals, removal of the decorator's own registration, one "
        "removal too many; after construction and after every op the notifier populations are compared with a "
        "from-scratch count and with a decorator-free twin class shape, the calls with one per change")

UNIVERSE = ("value", "count", "child", "kids")
KWS = ("value", "count", "child", "kids2")
EXPRS_PLAIN = ["value", "count"]
EXPRS_NESTED = ["child.value", "child:value", "child.count", "child"]
EXPRS_ITEMS = ["kids.items.value", "kids:items:value", "kids.items", "kids"]
EXPRS_LIST = ["value&count", "child.value&count", "child:value&kids.items.value"]
ALL_EXPRS = EXPRS_PLAIN + EXPRS_NESTED + EXPRS_ITEMS + EXPRS_LIST


# --------------------------------------------------------------------------
# description
# --------------------------------------------------------------------------

class Desc:
    """classes: [(name, [bases], [items])]; items: ('redecl', trait) | ('meth', name, None | [(post, obj, expr)])"""

    def __init__(self, classes, inst, kws, ops):
        self.classes, self.inst, self.kws, self.ops = classes, inst, kws, ops

    def line(self):
        cs = []
        for name, bases, items in self.classes:
            its = []
            for it in items:
                if it[0] == "redecl":
                    its.append("redecl." + it[1])
                else:
                    decos = it[2]
                    its.append(it[1] + "=" + ("" if decos is None else
                                              "+".join(("!" if p else "") + ("~" if o else "") + e
                                                       for p, o, e in decos)))
            cs.append("%s(%s)%s" % (name, ",".join(bases), (":" + ",".join(its)) if its else ""))
        return "#deco|%s|%s|%s" % (";".join(cs), " ".join([self.inst] + list(self.kws)),
                                   ";".join(self.ops) or "nop")


def parse(case):
    assert case.startswith("#deco|"), case
    _, cs, inst, ops = case.split("|")
    classes = []
    for c in cs.split(";"):
        head, _, its = c.partition(":")
        name, _, b = head.partition("(")
        bases = [x for x in b.rstrip(")").split(",") if x]
        items = []
        for it in (x for x in its.split(",") if x):
            if it.startswith("redecl."):
                items.append(("redecl", it[7:]))
            else:
                m, _, ds = it.partition("=")
                if not ds:
                    items.append(("meth", m, None))
                else:
                    decos = []
                    for d in ds.split("+"):
                        post = d.startswith("!")
                        d = d[1:] if post else d
                        obj = d.startswith("~")
                        d = d[1:] if obj else d
                        decos.append((post, obj, d))
                    items.append(("meth", m, decos))
        classes.append((name, bases, items))
    w = inst.split()
    return Desc(classes, w[0], w[1:], [o.strip() for o in ops.split(";") if o.strip() and o.strip() != "nop"])


def is_traits_class(desc, name, memo=None):
    if name == "H":
        return True
    if name == "O":
        return False
    for n, bases, _ in desc.classes:
        if n == name:
            return any(is_traits_class(desc, b) for b in bases)
    raise KeyError(name)


def skeleton_mro(desc, upto=None):
    """MRO of every described class computed by Python itself on plain skeleton classes (no traits).
    -> {name: [described class names in MRO order]} ; raises TypeError on an inconsistent hierarchy."""
    H = type("H", (object,), {})
    env = {"H": H, "O": object}
    out = {}
    for name, bases, _ in desc.classes:
        env[name] = type(name, tuple(env[b] for b in bases), {})
        out[name] = [k.__name__ for k in env[name].__mro__ if k is not H and k is not object]
    return out


def own_methods(items):
    return {it[1]: it[2] for it in items if it[0] == "meth"}


def method_names(desc):
    s = []
    for _, _, items in desc.classes:
        for it in items:
            if it[0] == "meth" and it[1] not in s:
                s.append(it[1])
    return s


def inforce_mro(desc, mro):
    """THE STATEMENT'S READING: {method: [(post, obj, expr)]} for desc.inst."""
    by = {n: (b, i) for n, b, i in desc.classes}
    out = {}
    for m in method_names(desc):
        for k in mro[desc.inst]:
            own = own_methods(by[k][1])
            if m in own:
                if own[m] is not None and is_traits_class(desc, k):
                    out[m] = list(own[m])
                break
    return out


def inforce_lastbase(desc):
    """The known deviation (F110): what the clean metaclass merge keeps (last HasTraits base wins, bases that
    are not HasTraits subclasses are not looked at)."""
    table = {}
    for name, bases, items in desc.classes:
        if not is_traits_class(desc, name):
            continue
        own = own_methods(items)
        obs = {m: list(d) for m, d in own.items() if d is not None}
        for b in bases:
            if b in ("H", "O") or b not in table:
                continue
            for m, d in table[b].items():
                if m not in own:
                    obs[m] = d
        table[name] = obs
    return dict(table.get(desc.inst, {}))


# --------------------------------------------------------------------------
# expressions -> graph paths (the oracle's own reading of the mini-language)
# --------------------------------------------------------------------------

def expr_paths(expr):
    """-> list of graphs (trees); a node = (kind, name, notify, children) with kind in t (named trait), ti (optional
    trait named `items`), li, di, si.  `items` stands for the documented union of the four (four branches below
    the node before it), `a&b` for a list of expressions, each a registration of its own."""
    graphs = []
    for part in expr.split("&"):
        toks, seps, cur = [], [], ""
        for ch in part:
            if ch in ".:":
                toks.append(cur)
                seps.append(ch)
                cur = ""
            else:
                cur += ch
        toks.append(cur)
        seps.append(".")
        branches = ()
        for tok, sep in reversed(list(zip(toks, seps))):
            notify = sep == "."
            if tok == "items":
                branches = tuple((k, "items", notify, branches) for k in ("ti", "li", "di", "si"))
            else:
                branches = (("t", tok, notify, branches),)
        graphs.extend(branches)
    return graphs


def names_of(node):
    out = []
    while True:
        out.append(node[1])
        if not node[3]:
            return tuple(out)
        node = node[3][0]


# --------------------------------------------------------------------------
# a world: the classes of a description, one instance, the ops
# --------------------------------------------------------------------------

class World:
    def __init__(self, desc, decorated):
        from traits.api import HasTraits, Int, Instance, List, observe
        from traits.observation.api import parse as oparse
        import types
        self.desc = desc
        self.sink = []
        self.leaves = []
        self.lists = []
        self.oparse = oparse
        sink = self.sink
        self.Leaf = Leaf = type(HasTraits)("Leaf", (HasTraits,), {"value": Int(), "count": Int()})

        def decl(t):
            return {"value": lambda: Int(7), "count": lambda: Int(7), "child": lambda: Instance(Leaf),
                    "kids": lambda: List(Instance(Leaf))}[t]()

        def mk(mname, cname):
            def f(self, event):
                sink.append((mname, cname, event))
            f.__name__ = mname
            f.__qualname__ = cname + "." + mname
            return f

        env = {"H": HasTraits, "O": object}
        for name, bases, items in desc.classes:
            ns = {}
            if "H" in bases:
                ns.update(value=Int(), count=Int(), child=Instance(Leaf), kids=List(Instance(Leaf)))
            for it in items:
                if it[0] == "redecl":
                    ns[it[1]] = decl(it[1])
                else:
                    f = mk(it[1], name)
                    if decorated and it[2] is not None:
                        for post, obj, e in reversed(it[2]):
                            f = observe(self.expr(e, obj), post_init=post)(f)
                    ns[it[1]] = f
            env[name] = types.new_class(name, tuple(env[b] for b in bases), exec_body=lambda d, ns=ns: d.update(ns))
        self.env = env
        self.cls = env[desc.inst]
        self.obj = None

    def expr(self, e, obj):
        parts = e.split("&")
        if obj:
            parts = [self.oparse(p) for p in parts]
        return parts[0] if len(parts) == 1 else parts

    def leaf(self):
        x = self.Leaf()
        self.leaves.append(x)
        return x

    def construct(self):
        kw = collections.OrderedDict()
        for k in self.desc.kws:
            if k in ("value", "count"):
                kw[k] = 5
            elif k == "child":
                kw[k] = self.leaf()
            elif k == "kids2":
                kw["kids"] = [self.leaf(), self.leaf()]
        self.obj = self.cls(**kw)

    def materialise(self):
        o = self.obj
        o.value, o.count, o.child
        self.see_list()

    def see_list(self):
        k = self.obj.kids
        if not any(k is x for x in self.lists):
            self.lists.append(k)

    def label(self, x):
        if x is self.obj:
            return "o"
        for i, y in enumerate(self.leaves):
            if y is x:
                return "L%d" % i
        for i, y in enumerate(self.lists):
            if y is x:
                return "K%d" % i
        return "?"

    def changed_by(self, op):
        """observable label the op is about to change (None: the op changes nothing)"""
        w = op.split()
        o = self.obj
        if w[0] == "bump":
            return "o." + w[1]
        if w[0] == "cbump":
            return None if o.child is None else self.label(o.child) + "." + w[1]
        if w[0] == "kbump":
            i = int(w[1])
            return None if i >= len(o.kids) else self.label(o.kids[i]) + "." + w[2]
        if w[0] == "newchild":
            return "o.child"
        if w[0] == "nochild":
            return None if o.child is None else "o.child"
        if w[0] == "kapp":
            return self.label(o.kids)
        if w[0] == "kpop":
            return None if not len(o.kids) else self.label(o.kids)
        if w[0] == "knew":
            return "o.kids"
        return None

    def apply(self, op):
        """-> 'ok' | 'skip' | exception class name"""
        w = op.split()
        o = self.obj
        try:
            if w[0] == "bump":
                setattr(o, w[1], getattr(o, w[1]) + 1)
            elif w[0] == "cbump":
                if o.child is None:
                    return "skip"
                setattr(o.child, w[1], getattr(o.child, w[1]) + 1)
            elif w[0] == "kbump":
                i = int(w[1])
                if i >= len(o.kids):
                    return "skip"
                setattr(o.kids[i], w[2], getattr(o.kids[i], w[2]) + 1)
            elif w[0] == "newchild":
                o.child = self.leaf()
            elif w[0] == "nochild":
                if o.child is None:
                    return "skip"
                o.child = None
            elif w[0] == "kapp":
                o.kids.append(self.leaf())
            elif w[0] == "kpop":
                if not len(o.kids):
                    return "skip"
                o.kids.pop()
            elif w[0] == "knew":
                o.kids = [self.leaf() for _ in range(int(w[1]))]
            elif w[0] in ("add", "rm", "addx", "rmx"):
                o.observe(getattr(o, w[1]), self.expr(w[2], w[0].endswith("x")), remove=w[0].startswith("rm"))
            else:
                return "skip"
        except Exception as e:        # noqa: the oracle judges which exceptions are in order
            return type(e).__name__
        finally:
            if self.obj is not None:
                self.see_list()
        return "ok"

    def drain(self):
        c = collections.Counter(m for m, _, _ in self.sink)
        del self.sink[:]
        return c

    # ----- white box
    def snapshot(self):
        """Counter {(observable, 'u', method): refcount ; (observable, 'm', method, graph): n}"""
        from traits.observation._trait_event_notifier import TraitEventNotifier
        from traits.observation._observer_change_notifier import ObserverChangeNotifier
        pop = collections.Counter()

        def scan(obs, ns):
            for nt in ns or []:
                if isinstance(nt, TraitEventNotifier):
                    pop[(obs, "u", hname(nt), self.label(nt.target()))] += nt._ref_count
                elif isinstance(nt, ObserverChangeNotifier):
                    pop[(obs, "m", hname(nt), self.label(nt.target()), graph_str(nt.graph))] += 1

        for x in [self.obj] + self.leaves:
            for name, ct in sorted(x._instance_traits().items()):
                scan("%s.%s" % (self.label(x), name), ct._notifiers(False))
        for k in self.lists:
            scan(self.label(k), k._notifiers(False))
        return pop

    # ----- from-scratch specification
    def spec_pop(self, reg):
        """Counter {(observable, 'u', method): refcount ; (observable, 'm', method): n} on the observables the
        registered graphs reach in the live object graph (trait_added hooks are not specified here)."""
        from traits.api import HasTraits
        from traits.trait_list_object import TraitList
        pop = collections.Counter()

        def walk(meth, node, objs, n):
            kind, name, notify, children = node
            obsv, nxt = [], []
            for x in objs:
                if kind == "t":
                    assert isinstance(x, HasTraits), (node, x)
                    obsv.append("%s.%s" % (self.label(x), name))
                    v = getattr(x, name)
                    if v is not None and not isinstance(v, int):
                        nxt.append(v)
                elif kind == "li":
                    if isinstance(x, TraitList):
                        obsv.append(self.label(x))
                        nxt.extend(x)
                elif kind == "ti":
                    if isinstance(x, HasTraits) and name in x.trait_names():
                        obsv.append("%s.%s" % (self.label(x), name))
                # di / si: optional, nothing of that kind in the universe
            for ob in obsv:
                if notify:
                    pop[(ob, "u", meth)] += n
                if children:
                    pop[(ob, "m", meth)] += n * len(children)
            for c in children:
                walk(meth, c, nxt, n)

        for (meth, g), n in reg.items():
            if n > 0:
                walk(meth, g, [self.obj], n)
        return pop


def hname(nt):
    h = nt.handler()
    return getattr(h, "__name__", "?") if h is not None else "dead"


def graph_str(g):
    n = g.node
    s = "%s%s%s%s" % (type(n).__name__.replace("Observer", ""),
                      ("[" + str(getattr(n, "name")) + "]") if hasattr(n, "name") else "",
                      "" if getattr(n, "notify", True) else ":", "?" if getattr(n, "optional", False) else "")
    if g.children:
        s += "(" + ",".join(sorted(graph_str(c) for c in g.children)) + ")"
    return s


def project(snap):
    """the part of a real snapshot the from-scratch specification speaks about"""
    out = collections.Counter()
    for k, v in snap.items():
        if k[0].endswith(".trait_added"):
            continue
        if k[3] != "o":
            out[(k[0], "foreign-target", k[2])] += v
        else:
            out[(k[0], k[1], k[2])] += v
    return out


def diff_str(a, b, limit=4):
    ks = sorted(k for k in set(a) | set(b) if a.get(k, 0) != b.get(k, 0))
    return "; ".join("%s real=%d expected=%d" % ("/".join(map(str, k)), a.get(k, 0), b.get(k, 0))
                     for k in ks[:limit]) + (" …(%d)" % len(ks) if len(ks) > limit else "")


# --------------------------------------------------------------------------
# judging one case under one reading of "declarations in force"
# --------------------------------------------------------------------------

def judge(desc, inforce):
    """-> (summary parts, hits, tags)"""
    hits, seen, tags = [], set(), set()

    def hit(sig, what):
        if sig not in seen:
            seen.add(sig)
            hits.append({"signature": sig, "what": what, "case": desc.line()})

    real = World(desc, True)
    twin = World(desc, False)
    reg = collections.Counter()
    pre = collections.Counter()            # registrations alive while the constructor sets the keywords
    for m, decos in inforce.items():
        for post, obj, e in decos:
            for p in expr_paths(e):
                reg[(m, p)] += 1
                if not post:
                    pre[(m, p)] += 1
    reg0 = +reg

    # ----- construction
    try:
        real.construct()
    except Exception as e:
        hit("deco-construct:raised", "constructing %s raised %s: %s" % (desc.inst, type(e).__name__, e))
        return ["construct=" + type(e).__name__], hits, tags
    twin.construct()
    for m, decos in sorted(inforce.items()):
        for post, obj, e in decos:
            twin.obj.observe(getattr(twin.obj, m), twin.expr(e, obj))
    twin.drain()
    exp = collections.Counter()
    for k in desc.kws:
        t = "kids" if k == "kids2" else k
        for m in set(m for (m, p), n in pre.items() if n > 0 and p[:3] == ("t", t, True)):
            exp[m] += 1
    got = real.drain()
    if got != exp:
        hit("deco-counted:calls-during-construction",
            "calls while %s(%s) was constructed: real %s, expected %s (declarations in force: %s)"
            % (desc.inst, ",".join(desc.kws), dict(got), dict(exp), show_inforce(inforce)))
    real.materialise()
    twin.materialise()
    got = real.drain()
    if got:
        hit("deco-counted:calls-per-change", "reading the defaults called %s" % dict(got))
    parts = ["ctor:c%d" % sum(exp.values())]

    def compare(phase, op=None, removed=()):
        snap = real.snapshot()
        spec = real.spec_pop(reg)
        proj = project(snap)
        tsnap = twin.snapshot()
        u = sum(v for k, v in snap.items() if k[1] == "u")
        mm = sum(v for k, v in snap.items() if k[1] == "m")
        bad_spec = proj != spec
        bad_twin = snap != tsnap
        if bad_spec or bad_twin:
            d = ("vs specification: " + diff_str(proj, spec)) if bad_spec else ("vs twin: " + diff_str(snap, tsnap))
            more = any(proj.get(k, 0) > spec.get(k, 0) for k in proj) if bad_spec else \
                any(snap.get(k, 0) > tsnap.get(k, 0) for k in snap)
            if phase == "construction":
                udiff = any(k[1] != "m" and proj.get(k, 0) != spec.get(k, 0) for k in set(proj) | set(spec))
                sig = ("deco-counted:refcount-after-construction" if (udiff or not bad_spec)
                       else "deco-counted:maintainers-after-construction")
            elif not any(reg.values()) and more:
                sig = "deco-remove:still-attached"
            elif reg == reg0 and any(o.split()[0] in ("add", "addx") for o in done):
                sig = "deco-reversible:populations-after-n-add-n-remove"
            elif phase == "rm" and more:
                sig = "deco-remove:still-attached"
            else:
                sig = "deco-counted:populations-after-op"
            hit(sig, "notifier populations after %s: %s (registrations by the statement: %s)"
                % (op or "construction", d, show_reg(reg)))
        return u, mm, snap

    done = []
    u, mm, snap_prev = compare("construction")
    parts[0] += "u%dm%d" % (u, mm)
    removed_methods = set()
    judged = True
    for op in desc.ops:
        w = op.split()
        kind = w[0]
        tags.add("op:" + kind)
        if kind in ("add", "addx", "rm", "rmx"):
            m, paths = w[1], expr_paths(w[2])
            if not callable(getattr(real.obj, m, None)):      # no such method on this class: nothing to judge
                tags.add("no-such-method")
                continue
            need = collections.Counter(paths)
            if kind.startswith("rm"):
                ok = all(reg[(m, p)] >= n for p, n in need.items())
                if not ok:
                    act = [names_of(p) for (mm_, p), n in reg.items() if mm_ == m and n > 0]
                    for p in need:
                        if reg[(m, p)] < need[p]:
                            a = names_of(p)
                            if any(a == b[:len(a)] or b == a[:len(b)] for b in act):
                                judged = False
                if not judged:
                    tags.add("overlap-unjudged")
                    parts.append("unjudged")
                    break
                tags.add("rm-ok" if ok else "extra-remove")
            r = real.apply(op)
            twin.apply(op)
            twin.drain()
            calls = real.drain()
            if calls:
                hit("deco-counted:calls-per-change", "%s called %s" % (op, dict(calls)))
            if kind.startswith("add"):
                if r != "ok":
                    hit("deco-add:raised", "%s raised %s" % (op, r))
                    break
                for p, n in need.items():
                    reg[(m, p)] += n
                done.append(op)
                u, mm, snap_prev = compare("add", op)
            elif ok:
                if r != "ok":
                    hit("deco-remove:raised", "%s raised %s although the statement counts %s"
                        % (op, r, show_reg(reg)))
                    break
                for p, n in need.items():
                    reg[(m, p)] -= n
                reg = +reg
                removed_methods.add(m)
                done.append(op)
                u, mm, snap_prev = compare("rm", op)
            else:
                if r == "ok":
                    hit("deco-extra-remove:no-NotifierNotFound",
                        "%s did not raise although nothing of it is registered any more (registrations by the "
                        "statement: %s)" % (op, show_reg(reg)))
                    break
                if r != "NotifierNotFound":
                    hit("deco-extra-remove:wrong-exception", "%s raised %s" % (op, r))
                done.append(op)
                snap = real.snapshot()
                if snap != snap_prev:
                    hit("deco-extra-remove:changed-something", "%s raised %s and changed the populations: %s"
                        % (op, r, diff_str(snap, snap_prev)))
                u, mm, snap_prev = compare("failed-rm", op)
            parts.append("%s:%su%dm%d" % (kind, "ok" if r == "ok" else r, u, mm))
            continue
        # ----- a change of the object graph
        ob = real.changed_by(op)
        spec = real.spec_pop(reg)
        exp = collections.Counter()
        if ob is not None:
            for (o2, k2, m2), n in spec.items():
                if o2 == ob and k2 == "u" and n > 0:
                    exp[m2] = 1
        r = real.apply(op)
        twin.apply(op)
        twin.drain()
        got = real.drain()
        if r not in ("ok", "skip"):
            hit("deco-change:raised", "%s raised %s" % (op, r))
            break
        if got != exp:
            stale = any(got[m] > exp[m] and m in removed_methods and not any(
                n > 0 for (m2, _), n in reg.items() if m2 == m) for m in got)
            hit("deco-remove:still-attached" if stale else "deco-counted:calls-per-change",
                "%s (observable %s): calls real %s, expected %s (registrations by the statement: %s)"
                % (op, ob, dict(got), dict(exp), show_reg(reg)))
        done.append(op)
        u, mm, snap_prev = compare("change", op)
        parts.append("%s:c%du%dm%d" % (kind, sum(got.values()), u, mm))
    return parts, hits, tags


def show_reg(reg):
    return ",".join("%s@%s*%d" % (m, path_str(p), n) for (m, p), n in sorted(reg.items()) if n > 0) or "none"


def path_str(g):
    k, n, nt, ch = g
    s = n if k == "t" else k
    if not ch:
        return s
    sep = "." if nt else ":"
    if len(ch) == 1:
        return s + sep + path_str(ch[0])
    return s + sep + "[" + "|".join(path_str(c) for c in ch) + "]"


def show_inforce(inf):
    return ",".join("%s=%s" % (m, "+".join(("!" if p else "") + e for p, _, e in d))
                    for m, d in sorted(inf.items())) or "none"


# --------------------------------------------------------------------------
# engine entry
# --------------------------------------------------------------------------

def shape_tags(desc, mro, inforce):
    tags = set()
    by = {n: (b, i) for n, b, i in desc.classes}
    line = mro[desc.inst]
    tags.add("depth=%d" % len(line))
    anc = {}
    for n, bases, _ in desc.classes:
        anc[n] = set(b for b in bases if b not in ("H", "O"))
        for b in list(anc[n]):
            anc[n] |= anc.get(b, set())
    diamond = False
    for n in line:
        bs = [b for b in by[n][0] if b not in ("H", "O")]
        if len(by[n][0]) > 1:
            tags.add("multi-base")
        for i in range(len(bs)):
            for j in range(i + 1, len(bs)):
                if (anc[bs[i]] | {bs[i]}) & (anc[bs[j]] | {bs[j]}):
                    diamond = True
    if diamond:
        tags.add("diamond")
    for n in line:
        if not is_traits_class(desc, n):
            tags.add("plain-mixin")
            if any(d is not None for d in own_methods(by[n][1]).values()):
                tags.add("plain-mixin-decorated")
        if any(it[0] == "redecl" for it in by[n][1]):
            tags.add("redecl")
    for m in method_names(desc):
        defs = [(n, own_methods(by[n][1])[m]) for n in line if m in own_methods(by[n][1])]
        if len(defs) > 1:
            tags.add("override-plain" if defs[0][1] is None else "override-redecorated")
        if len([1 for _, d in defs if d is not None]) > 1:
            tags.add("decorated-in-several")
        if defs and defs[-1][1] is not None and len(line) > 1 and defs[-1][0] == line[-1]:
            tags.add("decorated-in-top-base")
        if defs and defs[0][1] is not None and defs[0][0] not in (line[0], line[-1]):
            tags.add("decorated-in-middle")
    tags.add("inforce=%d" % sum(len(d) for d in inforce.values()))
    for m, decos in inforce.items():
        if len(decos) > 1:
            tags.add("stacked")
        if len(set(e for _, _, e in decos)) < len(decos):
            tags.add("dup-decl")
        for post, obj, e in decos:
            if post:
                tags.add("post_init")
            if obj:
                tags.add("exprobj")
            if "&" in e:
                tags.add("list-expr")
            if "items" in e:
                tags.add("items")
            if ":" in e:
                tags.add("nonotify")
            if "." in e or ":" in e:
                tags.add("nested")
    if desc.kws:
        tags.add("ctor-kw")
    return tags


def run_case(case):
    desc = parse(case)
    try:
        mro = skeleton_mro(desc)
    except TypeError:
        return "deco badmro", [], ["deco", "bad-mro"]
    if not is_traits_class(desc, desc.inst):
        return "deco notraits", [], ["deco", "bad-inst"]
    inf = inforce_mro(desc, mro)
    dev = inforce_lastbase(desc)
    tags = {"deco"} | shape_tags(desc, mro, inf)
    try:
        parts, hits, t2 = judge(desc, inf)
    except Exception as e:      # class creation / harness trouble on the real code: fail loudly, never silently
        import traceback
        return "deco err:" + type(e).__name__, [{
            "signature": "deco-harness:" + type(e).__name__, "case": case,
            "what": "running the case raised outside any judged call: " + traceback.format_exc()[-600:]}], tags
    tags |= t2
    if norm(dev) != norm(inf):
        tags.add("bases-disagree")
        if hits:
            parts2, hits2, _ = judge(desc, dev)
            if not hits2:
                parts = parts2
                hits = [{"signature": "deco-inforce:last-base-wins", "case": case,
                         "what": "class %s: the MRO resolves the handler methods to definitions carrying the "
                                 "declarations {%s}, the instance behaves as if {%s} were declared (the merge of "
                                 "inherited @observe registrations lets the last HasTraits base win and ignores "
                                 "an undecorated override in another base); first disagreement under the MRO "
                                 "reading: %s" % (desc.inst, show_inforce(inf), show_inforce(dev),
                                                  hits[0]["what"][:300])}]
    out = "deco %s F=%s ; %s" % (desc.inst, show_inforce(inf), " ; ".join(parts))
    return out, hits, sorted(tags)


def norm(inf):
    return {m: sorted(d) for m, d in inf.items() if d}


# --------------------------------------------------------------------------
# generator
# --------------------------------------------------------------------------

def corpus():
    return [
        # diamond, the decorated method in the common base: two stacked declarations, one of them nested
        "#deco|A(H):m1=value+child:value;B(A);C(A);D(B,C)|D child|bump value;cbump value;rm m1 value;"
        "rm m1 child:value;bump value;cbump value;newchild;cbump value;rm m1 value;rm m1 child:value",
        # three levels, n-fold explicit registration on top of the decorator's own and back
        "#deco|A(H):m1=kids.items.value;B(A);C(B)|C kids2|kbump 0 value;add m1 kids.items.value;"
        "add m1 kids.items.value;kapp;kbump 2 value;rm m1 kids.items.value;rm m1 kids.items.value;kbump 1 value;"
        "rm m1 kids.items.value;kbump 1 value;knew 1;kbump 0 value;rm m1 kids.items.value",
        # an undecorated override silences the inherited declaration; a re-decorated one replaces it
        "#deco|A(H):m1=value,m2=count;B(A):m1=,m2=!child.count;C(B)|C value count child|bump value;bump count;"
        "cbump count;rm m2 child.count;cbump count;newchild;rm m2 child.count;rm m1 value;rm m2 count",
        # two diamonds stacked, declaration in a middle class, a plain mixin, the observed trait re-declared
        "#deco|M(O):m2=count;A(H);B(A):m1=~child.value&count;C(A):redecl.count;D(B,C);E(D);F(M,D);G(E,F)|G|"
        "newchild;cbump value;bump count;rmx m1 child.value&count;cbump value;bump count;rm m1 count;"
        "rm m1 child.value",
        # two independent HasTraits roots, each with its own handler
        "#deco|P(H):m1=value;Q(H):m2=count+count;R(P,Q)|R|bump value;bump count;rm m2 count;bump count;"
        "rm m2 count;bump count;rm m2 count;rm m1 value;rm m1 value",
        # F110 (known): bases that disagree about the method
        "#deco|P(H):m1=value;Q(H):m1=count;R(P,Q)|R|bump value;bump count",
        "#deco|A(H):m1=value;B(A):m1=;C(A);D(B,C)|D|bump value",
    ]


def gen_hierarchy(rng):
    """-> (classes without items [(name, bases)], candidate instance classes)"""
    kind = rng.choice(["chain", "chain", "diamond", "diamond", "diamond3", "stacked", "wide", "plainmix",
                       "plainroot", "roots", "dag", "dag"])
    if kind == "chain":
        d = rng.randint(1, 3)
        cs = [("A", ["H"])] + [("BCD"[i], ["ABC"[i]]) for i in range(d - 1)]
    elif kind == "diamond":
        cs = [("A", ["H"]), ("B", ["A"]), ("C", ["A"]), ("D", ["B", "C"])]
        if rng.random() < 0.3:
            cs.insert(0, ("Z", ["H"]))
            cs[1] = ("A", ["Z"])
    elif kind == "diamond3":
        cs = [("A", ["H"]), ("B", ["A"]), ("C", ["A"]), ("D", ["B", "C"]), ("E", ["D"])]
        if rng.random() < 0.5:
            cs = [("A", ["H"]), ("B", ["A"]), ("C", ["A"]), ("B2", ["B"]), ("C2", ["C"]), ("D", ["B2", "C2"])]
    elif kind == "stacked":
        cs = [("A", ["H"]), ("B", ["A"]), ("C", ["A"]), ("D", ["B", "C"]), ("E", ["D"]), ("F", ["D"]),
              ("G", ["E", "F"])]
    elif kind == "wide":
        cs = [("A", ["H"]), ("B", ["A"]), ("C", ["A"]), ("E", ["A"]), ("D", ["B", "C", "E"])]
    elif kind == "plainmix":
        cs = [("M", ["O"]), ("A", ["H"]), ("B", ["A"])]
        cs.append(("D", rng.choice([["M", "B"], ["B", "M"]])))
        if rng.random() < 0.4:
            cs.append(("E", ["D"]))
    elif kind == "plainroot":
        cs = [("M", ["O"]), ("A", rng.choice([["M", "H"], ["H", "M"]])), ("B", ["A"])]
    elif kind == "roots":
        cs = [("P", ["H"]), ("Q", ["H"]), ("R", ["P", "Q"])]
        if rng.random() < 0.4:
            cs = [("P", ["H"]), ("Q", ["H"]), ("P2", ["P"]), ("R", ["P2", "Q"])]
    else:
        n = rng.randint(2, 6)
        cs = []
        for i in range(n):
            name = "ABCDEF"[i]
            for _ in range(20):
                pool = [c for c, _ in cs]
                k = 1 if not pool else rng.choice([1, 1, 2, 2, 3])
                bases = rng.sample(pool, min(k, len(pool))) if pool else []
                if not bases or rng.random() < 0.15:
                    extra = rng.choice(["H", "H", "O"])
                    bases = (bases + [extra]) if rng.random() < 0.7 else ([extra] + bases)
                    if extra == "O" and len(bases) > 1:
                        bases.remove("O")
                try:
                    skeleton_mro(Desc([(c, b, []) for c, b in cs] + [(name, bases, [])], name, [], []))
                except TypeError:
                    continue
                cs.append((name, bases))
                break
    return cs


def gen_decos(rng):
    n = rng.choice([1, 1, 1, 2, 2, 3])
    out = []
    for _ in range(n):
        r = rng.random()
        e = rng.choice(EXPRS_PLAIN if r < 0.3 else EXPRS_NESTED if r < 0.6 else
                       EXPRS_ITEMS if r < 0.85 else EXPRS_LIST)
        out.append((rng.random() < 0.25, rng.random() < 0.2, e))
    if len(out) > 1 and rng.random() < 0.15:
        out[1] = (out[1][0], out[1][1], out[0][2])        # the same expression declared twice
    return out


def meths_on(desc, line):
    by = dict((c, i) for c, _, i in desc.classes)
    return sorted(set(m for c in line for m in own_methods(by[c])))


def gen_case(rng):
    cs = gen_hierarchy(rng)
    desc0 = Desc([(c, b, []) for c, b in cs], cs[-1][0], [], [])
    mro = skeleton_mro(desc0)
    tr = [c for c, _ in cs if is_traits_class(desc0, c)]
    if not tr:
        return gen_case(rng)
    inst = tr[-1] if rng.random() < 0.8 else rng.choice(tr)
    line = mro[inst]                                    # most derived first
    items = {c: [] for c, _ in cs}
    meths = ["m1"] if rng.random() < 0.6 else ["m1", "m2"]
    for m in meths:
        where = rng.choice(["top", "top", "middle", "several", "several", "any"])
        if where == "top":
            items[line[-1]].append(("meth", m, gen_decos(rng)))
        elif where == "middle":
            items[line[len(line) // 2]].append(("meth", m, gen_decos(rng)))
        elif where == "any":
            items[rng.choice([c for c, _ in cs])].append(("meth", m, gen_decos(rng)))
        else:
            first = True
            for c in reversed(line):
                if first or rng.random() < 0.4:
                    items[c].append(("meth", m, gen_decos(rng) if (first or rng.random() < 0.55) else None))
                    first = False
    for c, _ in cs:
        if is_traits_class(desc0, c) and rng.random() < 0.12:
            items[c].append(("redecl", rng.choice(UNIVERSE)))
    kws = [k for k in KWS if rng.random() < 0.3]
    rng.shuffle(kws)
    desc = Desc([(c, b, items[c]) for c, b in cs], inst, kws, [])
    inf = inforce_mro(desc, mro)
    if rng.random() < 0.5:
        inf2 = inforce_lastbase(desc)      # histories aimed at what the instance really carries, half the time
        if norm(inf2) != norm(inf):
            inf = inf2
    decls = [(m, e) for m, d in sorted(inf.items()) for _, _, e in d]
    probes = ["bump value", "bump count", "newchild", "cbump value", "cbump count", "kapp", "kbump 0 value",
              "knew 2", "kbump 1 value", "nochild", "kpop"]

    def some_probes(k):
        return [rng.choice(probes) for _ in range(k)]

    def full_probe():
        return ["bump value", "bump count", "newchild", "cbump value", "cbump count", "kapp", "kbump 0 value"]

    ops = []
    if "child" not in kws and rng.random() < 0.7:
        ops.append("newchild")
    if "kids2" not in kws and rng.random() < 0.5:
        ops.append("kapp")
    ops += some_probes(rng.randint(0, 3))
    # n-fold explicit registration and back
    if meths_on(desc, line) and rng.random() < 0.7:
        allm = meths_on(desc, line)
        m, e = rng.choice(decls) if (decls and rng.random() < 0.7) else (rng.choice(allm), rng.choice(ALL_EXPRS))
        k = rng.randint(1, 3)
        x = "x" if rng.random() < 0.2 else ""
        seq = ["add%s %s %s" % (x, m, e)] * k
        for _ in range(k):
            seq.insert(rng.randint(1, len(seq)), "rm%s %s %s" % ("x" if rng.random() < 0.2 else "", m, e))
        for op in seq:
            ops.append(op)
            if rng.random() < 0.4:
                ops += some_probes(1)
        ops += some_probes(rng.randint(0, 2))
    # the decorator's own registrations removed, each once; then probes; then once too many
    if decls and rng.random() < 0.85:
        rng.shuffle(decls)
        gone = []
        for m, e in decls:
            if rng.random() < 0.85:
                parts = e.split("&")
                if len(parts) > 1 and rng.random() < 0.3:
                    for p in parts:
                        ops.append("rm %s %s" % (m, p))
                else:
                    ops.append("rm%s %s %s" % ("x" if rng.random() < 0.2 else "", m, e))
                gone.append((m, e))
                if rng.random() < 0.3:
                    ops += some_probes(1)
        ops += full_probe() if rng.random() < 0.6 else some_probes(rng.randint(1, 4))
        for m, e in gone:
            if rng.random() < 0.6:
                ops.append("rm %s %s" % (m, e))
                if rng.random() < 0.3:
                    ops += some_probes(1)
    else:
        ops += some_probes(rng.randint(1, 3))
    desc.ops = ops
    return desc.line()


def generate(rng, tier):
    n = {"quick": 150, "thorough": 2000}.get(tier, 600)
    for _ in range(n):
        yield gen_case(rng)
