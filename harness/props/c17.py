"""C17 — adaptation finds an adapter chain iff one exists, and a shortest one."""
from . import adaptlib as L
from .seqlib import exc_name

PROPERTY = "C17"
DRIVER = "TraitsVerif/Driver/Adapt.lean"
PROPS_MODULES = ["TraitsVerif.Props.C17"]
TRANSLATORS = ["pyadapt"]
RULE = ("real AdaptationManager (fresh per case) over hierarchies built with types.new_class (plain / abc.ABC / HasTraits / "
        "Interface / ABCHasTraits, single and multiple inheritance, ABC register, builtin object and NoneType), offer "
        "sequences incl. distinct offers with equal endpoints, the same offer object registered twice, cycles, identity "
        "factories and lazily named protocols; instrumented factories driven by a table keyed on (offer id, provenance of "
        "the adaptee) (deterministic) or on the call ordinal (non-deterministic stream), returning None or raising; queries "
        "adapt / adapt with default / supports_protocol / mro_distance_to_protocol / assignment to Instance, Supports, "
        "AdaptsTo traits in adapt modes no, yes, default with allow_none on/off, through the global manager (set and "
        "restored per query); histories on one trait of one object (the same pool object assigned repeatedly, offers "
        "registered and conditional factories flipped in between; both slots name / name_ observed by identity after "
        "every step and compared with what adapt() answers now); late ABC registration (P.register(T) / @provides after the fact) "
        "between repetitions of the same adapt / supports / trait queries, the line carrying the new issubclass table; "
        "adaptee VALUES of awkward kinds (tuples of length 0/1/2/3, namedtuples, tuple / str subclasses, str / bytes with '%', "
        "dicts, lists; objects whose __repr__ raises or is not a str only in calls that build no message) through the "
        "manager and the module-level adapt / supports_protocol, the failure judged on the exact exception class; a share "
        "of the offers (kinds z / e / g on the line) build adapters that are alive but falsy (__bool__ False, __len__ 0, "
        "empty dict subclass), a share of the adaptee classes have falsy instances (__bool__ False, HasTraits with "
        "__len__ 0, 0 / '' / () / {} / []), defaults are falsy: only None declines.  Exhaustive scope: 12 hierarchies on 3 types x every ordered sequence of <= 2 offers x "
        "every factory table x all (source, target) (quick); 12 hierarchies on 4 types x <= 3 offers x failing-offer sets "
        "(thorough).  Plus CPython list.sort(cmp_to_key) with arbitrary non-transitive tables and heapq against the two "
        "CPython models.  A case is non-trivial when a query went through _adapt (factory log non-empty) or raised; "
        "distinct = distinct output line")
TRUSTED = ["the Python validator BaseInstance.validate (first assignment to a trait declared with a forward-reference "
           "string, every assignment to BaseInstance(adapt=...)) and the C validator validate_trait_adapt are ONE model "
           "function (validateTrait): their agreement is checked by the run (queries t FS / FA / FI / BI: first vs later "
           "assignment, brute-force 'accepted iff a chain exists' oracle, falsy adapters), not proved from the source of "
           "BaseInstance.validate",
           "issubclass and inspect.getmro are computed by CPython from the real classes and sent to the model as tables "
           "(recomputed and compared in run_impl)",
           "source tie (translate/pyadapt.py -> Generated/AdaptProg.lean, Model/PyA.lean, C17_search_is_source, "
           "C17_adapt_is_source, C17_supports_is_source, C17_register_is_source): the source "
           "text of provides_protocol, mro_distance_to_protocol, _adapt, _get_applicable_offers, "
           "_by_weight_then_from_protocol_specificity, adapt, supports_protocol and register_offer is interpreted "
           "(adapt's default value and the singletons AdaptationError / _MISSING are compared by identity; the text of the "
           "AdaptationError message is not observed, only that building it cannot fail; "
           "self._adaptation_offers.setdefault(name, []) yields an ALIAS of the bucket; register_factory / "
           "register_provides / no_adapter_necessary / AdaptationOffer._get_from_protocol_name + _get_type_name are not "
           "interpreted: their normalised statement texts are compared literally (C17_register_wrappers_source); "
           "offer.from_protocol_name is the model's Offer.key); PARAMETERS of the interpreter: issubclass and "
           "inspect.getmro(t)[1:] (tables), self._adaptation_offers.items() (the registry in dict order, keys opaque), "
           "type(adaptee), offer.factory (factory table, call ordinal = number of factory calls so far); MODELLED "
           "BUILTINS: itertools.count/next (counter from 0), list.sort(key=cmp_to_key(f)) = pySort with x<y := f(x,y)<0 "
           "(stuck if f does not return an int), heappush/heappop = sorted list by the int triple in the first tuple "
           "component (comparing two entries with EQUAL triples is stuck; proved never to be asked: the counters in the "
           "queue stay below the next counter value, invariant Rel.hlt through the interpreted while loop), tuple/list displays, "
           "unpacking, for-else/break, while (fuel), is / is not / not in, + on ints and lists; lists have value "
           "semantics (the translator rejects aliasing of a mutated list); the tie holds for registries without empty "
           "buckets (C17_registry_nonempty: what register_offer builds)",
           "CPython 3.12 list.sort on fewer than 64 items = count_run + binarysort (model pySort), validated by the `so` "
           "stream with arbitrary comparison tables; heapq = min-priority queue (model: sorted list), validated by the `hq` stream",
           "AdaptationOffer's lazy import_symbol of protocol names is exercised (kind l) but not modelled: the model "
           "sees the resolved classes"]
ASSUMPTIONS = ["distinct protocols have distinct module.__name__ strings (the registry's bucket key); the collision stream "
               "shows what happens otherwise",
               "fewer than 64 applicable offers per node (list.sort beyond that merges runs; the order-independent "
               "theorems do not depend on it)",
               "factories are functions of (offer, adaptee) for completeness/minimality"]
EXHAUSTIVE = {"quick": True, "thorough": True}


def corpus():
    return [
        # F-C17-1: the more specific interface loses (non-transitive comparison + insertion sort)
        "A|T=i0:;i1:0;i2:;h3:;c4:/R=1<3;2<3|" + _tables("T=i0:;i1:0;i2:;h3:;c4:/R=1<3;2<3") +
        "|0:0:4:0:n;1:2:4:2:n;2:1:4:1:n|-|a 3 4",
        # F15 (repaired in /repo 4b42b24): None already provides object / NoneType and is returned unchanged
        "A|T=o;n|" + _tables("T=o;n") + "|-|-|a 1n 0;d 1n 0;s 1n 0;a 1n 1",
        # conditional adapters: first path fails, longer one found
        "A|T=c0:;c1:;c2:|" + _tables("T=c0:;c1:;c2:") + "|0:0:2:0:n;1:0:1:0:n;2:1:2:1:n|0@-=n|a 0 2;d 0 2;s 0 2;t S 1 1 0 2;t A 1 0 0 2",
        # Lean witness collideCfg (F16): A.P and B.P share the bucket 'c17types.T0'
        "A|T=c0:;c0:;c2:;c3:|" + _tables("T=c0:;c0:;c2:;c3:") + "|0:0:3:0:n;1:1:2:0:n|-|a 0 2;a 1 2",
        # Lean witness twoCfg / firstCallOnly: a factory answering by call ordinal defeats completeness
        "A|T=c0:;c1:|" + _tables("T=c0:;c1:") + "|0:0:1:0:n;1:0:1:0:n|0@-=n;#1=n|a 0 1;s 0 1",
        # Lean witness distCfg: the Sub offer (distance 0) beats the Base offer (distance 1) registered first
        "A|T=c0:;c1:0;c2:|" + _tables("T=c0:;c1:0;c2:") + "|0:0:2:0:n;1:1:2:1:n|-|a 1 2;m 1 0;m 1 1",
        # Lean witness chainCfg with refusing [0] / refusing [0, 2]
        "A|T=c0:;c1:;c2:;c3:0|" + _tables("T=c0:;c1:;c2:;c3:0") + "|0:0:2:0:n;1:0:1:0:n;2:1:2:1:n;3:2:0:2:n|0@-=n|a 3 2;d 3 2",
        "A|T=c0:;c1:;c2:;c3:0|" + _tables("T=c0:;c1:;c2:;c3:0") +
        "|0:0:2:0:n;1:0:1:0:n;2:1:2:1:n;3:2:0:2:n|0@-=n;2@1=n|a 3 2;d 3 2;t S 2 1 3 2;t A 1 1 3 2",
        # histories (seeded change C17-m3): the same object re-assigned to AdaptsTo after a conditional factory
        # changed its mind (f…) / after a more specific offer was registered (r…)
        "A|T=i0:;h1:;h2:1|" + _tables("T=i0:;h1:;h2:1") + "|0:1:0:1:n;1:1:0:1:n|1@-=n|"
        "h A 1 1 0 1 a0 f0@-=n f1@-=+ a0;h S 1 1 0 1 a0 f0@-=n f1@-=+ a0",
        "A|T=i0:;h1:;h2:1|" + _tables("T=i0:;h1:;h2:1") + "|0:1:0:1:n|-|h A 1 1 0 2 a0 r1:2:0:2:n a0",
        # F81 (known): … after an identity offer was registered adapt() gives the object itself; shadow stays stale
        "A|T=i0:;h1:;h2:1|" + _tables("T=i0:;h1:;h2:1") + "|0:1:0:1:n|-|h A 1 1 0 2 a0 r1:2:0:2:p a0",
        # late registration (seeded change C17-m4): adapt fails, Printable.register(Legacy), adapt must now succeed —
        # also for the subclass, through supports_protocol and through a Supports trait
        "A|T=a0:;c1:;c2:1;c3:|" + _tables("T=a0:;c1:;c2:1;c3:") + "|0:0:3:0:n|-|a 1 3;a 2 3;s 2 3;"
        "R 0 1 " + _late_P("T=a0:;c1:;c2:1;c3:", [(0, 1)]) + ";a 1 3;a 2 3;s 2 3;t S 1 1 2 3",
        # cycle
        "A|T=c0:;c1:;c2:|" + _tables("T=c0:;c1:;c2:") + "|0:0:1:0:n;1:1:0:1:n|-|a 0 2;d 0 2",
    ]


_TAB_CACHE = {}


def _tables(spec):
    if spec not in _TAB_CACHE:
        h = L.Hier(spec)
        _TAB_CACHE[spec] = h.P() + "|" + h.M()
    return _TAB_CACHE[spec]


def _late_P(spec, regs):
    h = L.Hier(spec)
    for a, c in regs:
        h.late_register(a, c)
    return h.P()


def generate(rng, tier):
    if tier == "quick":
        yield from L.exhaustive(L.HIER3, 2)
        n, nso = 3000, 1500
    elif tier == "thorough":
        yield from L.exhaustive(L.HIER3, 2)
        yield from L.exhaustive(L.HIER4, 3)
        yield from L.exhaustive([L.HIER4[2], L.HIER4[5], L.HIER4[7]], 4, fail_sets=False, min_offers=4)
        n, nso = 100000, 20000
    else:
        yield from L.exhaustive(L.HIER3 + L.HIER4, 2)
        n, nso = 30000, 5000
    for i in range(n):
        yield L.random_case(rng)
    for i in range(n):
        yield L.random_chain_case(rng)
    for i in range(n // 2):
        yield L.random_specific_case(rng)
    for i in range(n):
        yield L.random_history_case(rng)
    for i in range(n):
        yield L.random_late_case(rng)
    yield from L.awkward_sweep()
    for i in range(n // 2):
        yield L.random_awkward_case(rng)
    for i in range(n // 2):
        yield L.random_forward_case(rng)
    for i in range(n // 10):
        yield L.random_case(rng, ordinal=True)
    for i in range(n // 30):
        yield L.random_case(rng, collide=True)
    for i in range(nso):
        yield L.random_sort_case(rng)
    for i in range(nso // 5):
        yield L.random_heap_case(rng)


class _Timeout(BaseException):
    pass


def _alarm(signum, frame):
    raise _Timeout()


QUERY_TIMEOUT_S = 3.0   # the generators bound the search to <= 1500 pushed paths (milliseconds)
_TIMEOUTS = [0]         # per process: after two timeouts the guard drops to 0.3 s so a broken tree is reported fast


def _guarded(fn):
    """Run fn() under a wall-clock guard; returns (result, exception).  A search that does not
    return (e.g. cycle avoidance lost) becomes an observation instead of hanging the check."""
    import signal
    signal.signal(signal.SIGALRM, _alarm)
    signal.setitimer(signal.ITIMER_REAL, QUERY_TIMEOUT_S if _TIMEOUTS[0] < 2 else 0.3)
    try:
        try:
            return fn(), None
        finally:
            signal.setitimer(signal.ITIMER_REAL, 0)
    except _Timeout as e:
        _TIMEOUTS[0] += 1
        return None, e
    except Exception as e:
        return None, e


def _truth(x):
    try:
        return bool(x)
    except Exception:
        return True


def _hit(sig, what, **kw):
    d = {"signature": sig, "what": what}
    d.update(kw)
    return d


def nontrivial(case, out):
    return any(x in out for x in ("chain", "err", "log=0", "log=1", "log=2", "log=3", "log=4", "log=5", "log=6",
                                  "log=7")) or case[:2] in ("so", "hq")


def _show_obj(ctx, src, r, dflt_cls=L.Default):
    if r is None:
        return "self" if src is None else "none"
    if isinstance(r, dflt_cls):
        return "default"
    if r is src:
        return "self"
    if isinstance(r, L.ADS):
        return "chain " + ">".join("o%d" % i for i in r.prov)
    return "other"


def _classify(ctx, src, r):
    """Observation of an adapt() return value (identity-factory chains give back the source object)."""
    return _show_obj(ctx, src, r)


def run_impl(case):
    if case.startswith("so|"):
        return L.run_sort_case(case), [], ["sort"]
    if case.startswith("hq|"):
        return L.run_heap_case(case), [], ["heapq"]
    from traits.adaptation import api as aapi
    from traits.adaptation.api import AdaptationManager
    from traits.api import AdaptsTo, HasTraits, Instance, Supports
    _, spec, P, M, offers_s, ftab, queries = case.split("|")
    hier = L.Hier(spec)
    tags = set(hier.notes)
    hits = []
    if hier.P() != P.strip() or hier.M() != M.strip():
        return "harness-exception table-mismatch", [], ["table-mismatch"]
    offers = L.parse_offers(offers_s)
    ctx = L.Ctx(ftab)
    if any(o[4] == "l" for o in offers):
        hier.install_module()
        tags.add("lazy-offer")
    mgr, info = L.build_manager(hier, offers, ctx)
    collide = len(set(hier.names)) != len(hier.names)
    if collide:
        tags.add("name-collision")
    if len(set(o[0] for o in offers)) != len(offers):
        tags.add("same-offer-twice")
    if len(set((o[1], o[2]) for o in offers)) != len(set(o[0] for o in offers)):
        tags.add("parallel-offers")
    if any(o[4] == "p" for o in offers):
        tags.add("identity-factory")
    if any(o[4] in L.FALSY_OFFER_KINDS for o in offers):
        tags.add("falsy-adapters")
    if ctx.byord:
        tags.add("ordinal-table")
    tags.add("offers=%d" % len(offers))
    tags.add("types=%d" % hier.n)
    deterministic = not ctx.byord
    outs = []
    late = False
    for q in queries.split(";"):
        w = q.split()
        if not w:
            continue
        kind = w[0]
        tags.add("q:" + kind)
        if kind == "R":
            # late registration: the hierarchy changes between adapt() calls
            done = hier.late_register(int(w[1]), int(w[2]))
            if hier.P() != w[3]:
                return "harness-exception table-mismatch-after-late-registration", [], ["table-mismatch"]
            outs.append("ok")
            tags.add("late-registration" if done else "late-registration-refused")
            late = True
            continue
        if kind == "h":
            o, hs = _run_history(q, hier, offers, ftab, tags)
            outs.append(o)
            hits += hs
            continue
        if kind == "m":
            d = AdaptationManager.mro_distance_to_protocol(hier.types[int(w[1])], hier.types[int(w[2])])
            outs.append("-" if d is None else str(d))
            continue
        s_tok, t = w[-2], int(w[-1])
        s, is_none, flavour = L.parse_src(s_tok)
        src = None if is_none else hier.instance(s, flavour)
        vkind = L.value_kind(hier, s, is_none)
        if vkind not in ("plain", "None"):
            tags.add("value:" + vkind)
        if src is not None and not _truth(src):
            tags.add("falsy-adaptee")
        src_type = type(src)
        target = hier.types[t]
        ctx.reset(src)
        # ----------------------------------------------------------- run the real code
        exc = None
        r = None
        if kind in ("ga", "gd", "gs"):
            # the module-level convenience functions, through the global manager
            tags.add("module-level-call")
            api_obj, kind = aapi, kind[1:]
            old_mgr = aapi.get_global_adaptation_manager()
            aapi.set_global_adaptation_manager(mgr)
        else:
            api_obj, old_mgr = mgr, None
        if kind in ("a", "d", "s"):
            dflt = L.Default()
            try:
                if kind == "a":
                    r, exc = _guarded(lambda: api_obj.adapt(src, target))
                elif kind == "d":
                    r, exc = _guarded(lambda: api_obj.adapt(src, target, dflt))
                else:
                    r, exc = _guarded(lambda: api_obj.supports_protocol(src, target))
            finally:
                if old_mgr is not None:
                    aapi.set_global_adaptation_manager(old_mgr)
            if isinstance(exc, _Timeout):
                outs.append("timeout")
                hits.append(_hit("nontermination", "%s did not return within %.0f s (factory calls so far: %d)" % (
                    q, QUERY_TIMEOUT_S, len(ctx.log)), query=q, no_shrink=True))
                continue
            if exc is not None:
                obs = "err " + exc_name(exc)
            elif kind == "s":
                obs = "yes" if r is True else "no" if r is False else "other"
            elif r is dflt:
                obs = "default"
            else:
                obs = _classify(ctx, src, r)
            outs.append(obs + " " + ctx.show_log())
            hs = _oracle_adapt(kind, q, hier, src, src_type, target, info, ctx, obs, deterministic, collide, tags)
            if kind == "a" and exc is not None and not any(r_ == "!" for _, r_, _ in ctx.log):
                # the failure of adaptation is reported by AdaptationError EXACTLY, whatever the adaptee's value is
                from traits.adaptation.api import AdaptationError
                if type(exc) is not AdaptationError:
                    hs.append(_hit("failure-not-AdaptationError:%s-adaptee" % vkind,
                                   "adapt(%s value, protocol) without default found no adapter but raised %s (%s) instead of "
                                   "AdaptationError" % (vkind, type(exc).__name__, str(exc)[:80]), query=q))
            hits += _after_late(hs, late, tags)
            continue
        if kind == "t":
            cls0, mode, an = w[1], int(w[2]), int(w[3])
            # FS / FA / FI: declared with a forward-reference STRING (first assignment = Python validator
            # BaseInstance.validate, which resolves the class and installs the C validator for later ones);
            # BI: BaseInstance(adapt=...), always the Python validator
            cls = "I" if cls0 == "BI" else cls0[-1]
            forward = cls0[0] == "F" and target not in (object, type(None)) and not collide
            adapt_arg = ("no", "yes", "default")[mode]
            if cls0 == "BI":
                from traits.trait_types import BaseInstance
                tr = BaseInstance(target, factory=L.Default, adapt=adapt_arg, allow_none=bool(an))
                tags.add("python-validator:BaseInstance")
            else:
                tcls = {"I": Instance, "S": Supports, "A": AdaptsTo}[cls]
                if forward:
                    hier.install_module()
                    tr = tcls("%s.%s" % (L.MODULE, target.__name__), factory=L.Default, adapt=adapt_arg,
                              allow_none=bool(an))
                else:
                    tr = tcls(target, factory=L.Default, adapt=adapt_arg, allow_none=bool(an))
            H = type("H", (HasTraits,), {"x": tr})
            h = H()
            old = aapi.get_global_adaptation_manager()
            aapi.set_global_adaptation_manager(mgr)
            try:
                _, exc = _guarded(lambda: setattr(h, "x", src))
            finally:
                aapi.set_global_adaptation_manager(old)
            if isinstance(exc, _Timeout):
                outs.append("timeout")
                hits.append(_hit("nontermination", "%s did not return within %.0f s" % (q, QUERY_TIMEOUT_S),
                                 query=q, no_shrink=True))
                continue
            log_s = ctx.show_log()
            trait_log = list(ctx.log)
            tags.add("t:%s%d" % (cls0, mode))

            def observe(hh, e):
                if e is not None:
                    return "err " + exc_name(e), None, None
                if src is None:
                    return "x=none", None, None
                a = hh.x
                a_ = hh.__dict__.get("x_", _MISSING)
                return ("x=%s x_=%s" % (_classify_t(ctx, src, a), "-" if a_ is _MISSING else _classify_t(ctx, src, a_)),
                        a, a_)
            obs, x, x_ = observe(h, exc)
            outs.append(obs + " " + log_s)
            tags.add("t-res:" + obs.split()[0].split("=")[0] + ("-err" if exc is not None else ""))
            falsy_adapter = any(v is not None and v is not _MISSING and isinstance(v, L.ADS) and not _truth(v)
                                for v in (x, x_))
            if falsy_adapter:
                tags.add("t-falsy-adapter:" + cls0)
            t_hits = []
            if forward and src is not None:
                # the first assignment resolved the string; a LATER assignment of the same value (fresh holder,
                # same class-level trait: now the C validator) must do exactly the same
                tags.add("forward-reference:first-assignment")
                if tr.klass is not target:
                    t_hits.append(_hit("forward-reference-not-resolved", "klass is still %r after the first assignment"
                                       % (tr.klass,), query=q))
                if deterministic:
                    ctx.reset(src)
                    h2 = H()
                    aapi.set_global_adaptation_manager(mgr)
                    try:
                        _, exc2 = _guarded(lambda: setattr(h2, "x", src))
                    finally:
                        aapi.set_global_adaptation_manager(old)
                    obs2 = observe(h2, exc2)[0] + " " + ctx.show_log()
                    tags.add("forward-reference:later-assignment")
                    if obs2 != obs + " " + log_s:
                        t_hits.append(_hit("trait-differs:forward-first-vs-later:%s%d" % (cls, mode),
                                           "first assignment (Python validator) gave [%s], a later one (C validator) [%s]"
                                           % (obs + " " + log_s, obs2), query=q))
            # --------------------------------------------- oracle: the trait applies exactly adapt()
            ctx.reset(src)
            ref_exc = None
            ref = None
            if src is not None:
                ref, ref_exc = _guarded(lambda: mgr.adapt(src, target, None))
            t_hits += _oracle_trait(cls, mode, an, src, target, exc, x, x_, ref, ref_exc, trait_log, ctx)
            # --------------------------------------------- oracle: accepted iff a chain exists (brute force)
            t_hits += _oracle_trait_chain(cls0, cls, mode, q, src, src_type, target, info, ctx, exc, x, x_, trait_log,
                                          deterministic, tags)
            hits += _after_late(t_hits, late, tags)
            continue
        outs.append("bad-query")
    if collide:
        # outside the stated precondition (distinct protocols have distinct module.__name__): one signature
        for h in hits:
            h["what"] = "two protocols named %s share a registry bucket: %s [%s]" % (
                [n for n in set(hier.names) if hier.names.count(n) > 1][0], h["what"], h["signature"])
            h["signature"] = "bucket-key-collision"
    return " ; ".join(outs), hits, tags


_MISSING = object()

_LATE_SIGS = ("incomplete", "unsound-chain", "not-minimal", "default:", "trait-differs", "specificity:base-preferred",
              "specificity:subclass-loses-under-weak-order", "identity:not-returned-unchanged")


def _after_late(hs, late, tags):
    """Hits on queries that run after a late ABC registration get their own signature: the answer must
    follow the subclass relation current at the call (known findings keep their signature)."""
    if not late:
        return hs
    tags.add("query-after-late-registration")
    for h in hs:
        if h["signature"].startswith(_LATE_SIGS):
            h["signature"] += ":after-late-registration"
            h["what"] += " [a class was registered with a protocol after earlier adapt() calls]"
    return hs


def _show_h(pool, v):
    """Identity-revealing display of a slot value in a history."""
    if v is _MISSING:
        return "-"
    if v is None:
        return "none"
    for j, o in enumerate(pool):
        if v is o:
            return "obj%d" % j
    if isinstance(v, L.ADS):
        return "chain %s@%s#%s" % (">".join("o%d" % i for i in v.prov), v.root, v.step)
    if isinstance(v, L.Default):
        return "default#%s" % v.step
    return "other"


def _run_history(q, hier, offers, ftab, tags):
    """h <I|S|A> <mode> <allowNone> <tgt> <pool> <step>...: one object, one trait, several assignments, with
    offers registered and factory-table entries flipped in between.  Oracle after every successful
    assignment: the trait applies exactly adapt() AS IT ANSWERS NOW — the adapted slot (name for Instance /
    Supports, name_ for AdaptsTo) holds what adapt(value, klass) returns now, the other slot the value."""
    from traits.adaptation import api as aapi
    from traits.api import AdaptsTo, HasTraits, Instance, Supports
    w = q.split()
    cls, mode, an, t = w[1], int(w[2]), int(w[3]), int(w[4])
    pool_toks = w[5].split(",")
    steps = w[6:]
    target = hier.types[t]
    pool = []
    for tok in pool_toks:
        pi, pn, pf = L.parse_src(tok)
        pool.append(None if pn else hier.instance(pi, pf))
    ctx = L.Ctx(ftab)
    if any(o[4] == "l" for o in offers):
        hier.install_module()
    mgr, info, objs = L.build_manager(hier, offers, ctx, want_objs=True)
    tcls = {"I": Instance, "S": Supports, "A": AdaptsTo}[cls]
    tr = tcls(target, factory=L.Default, adapt=("no", "yes", "default")[mode], allow_none=bool(an))
    H = type("H", (HasTraits,), {"x": tr})
    h = H()
    outs, hits = [], []
    tags.add("h:%s%d" % (cls, mode))
    assigned = {}
    for n, st in enumerate(steps):
        L.CUR_STEP[0] = n
        if st[0] == "r":
            i, f, tt, k, kind = st[1:].split(":")
            L.register_one(mgr, hier, (int(i), int(f), int(tt), int(k), kind), ctx, objs, info)
            outs.append("ok")
            tags.add("h-step:register")
            continue
        if st[0] == "f":
            key, v = st[1:].split("=")
            o, prov = key.split("@")
            kk = (int(o), tuple(int(x) for x in prov.split(".")) if prov != "-" else ())
            if v == "+":
                ctx.bykey.pop(kk, None)
            else:
                ctx.bykey[kk] = v
            outs.append("ok")
            tags.add("h-step:flip")
            continue
        j = int(st[1:])
        src = pool[j]
        ctx.reset(src, root=j, step=n)
        old = aapi.get_global_adaptation_manager()
        aapi.set_global_adaptation_manager(mgr)
        try:
            _, exc = _guarded(lambda: setattr(h, "x", src))
        finally:
            aapi.set_global_adaptation_manager(old)
        if isinstance(exc, _Timeout):
            outs.append("timeout")
            hits.append(_hit("nontermination", "history step %d of %s did not return" % (n, q), query=q, no_shrink=True))
            break
        log_s = ctx.show_log()
        if exc is not None:
            outs.append("err %s %s" % (exc_name(exc), log_s))
            tags.add("h-res:err")
            x = x_ = None
        else:
            x = h.__dict__.get("x", _MISSING)
            x_ = h.__dict__.get("x_", _MISSING)
            outs.append("x=%s x_=%s %s" % (_show_h(pool, x), _show_h(pool, x_), log_s))
            tags.add("h-res:ok")
        again = j in assigned
        if again:
            tags.add("h-step:reassign-same-object")
        # ---------------- oracle: what does adapt() answer NOW for this object
        if src is None or mode == 0:
            assigned[j] = None
            continue
        L.CUR_STEP[0] = "ref"
        ctx.reset(src, root=j, step="ref")
        ref, ref_exc = _guarded(lambda: mgr.adapt(src, target, None))
        L.CUR_STEP[0] = n
        if ref_exc is not None:
            if exc is None or type(exc) is not type(ref_exc):
                hits.append(_hit("trait-history:differs:%s%d" % (cls, mode), "step %d: adapt raises %s, assignment gave %s" % (
                    n, exc_name(ref_exc), exc), query=q))
            continue
        key = ("self",) if ref is src else ("none",) if ref is None else ("ad", ref.prov, ref.root)
        if again and assigned[j] is not None and assigned[j] != key:
            tags.add("h-step:reassign-with-new-answer")
        assigned[j] = key
        sig = None
        what = None
        if ref is None:
            if mode == 1:
                if exc is None or exc_name(exc) != "TraitError":
                    sig, what = "trait-history:differs:%s%d" % (cls, mode), "adapt fails now, assignment must raise TraitError"
            else:
                slot = x_ if cls == "A" else x
                if exc is not None or not isinstance(slot, L.Default):
                    sig, what = "trait-history:differs:%s%d" % (cls, mode), "adapt fails now, the adapted slot must hold the default"
        elif exc is not None:
            sig, what = "trait-history:differs:%s%d" % (cls, mode), "adapt succeeds now but the assignment raised %s" % exc_name(exc)
        else:
            adapted, orig = (x_, x) if cls == "A" else (x, x_)

            def same(a, b):
                if a is b:
                    return True
                return isinstance(a, L.ADS) and isinstance(b, L.ADS) and (a.prov, a.root) == (b.prov, b.root)
            if not same(adapted, ref):
                if cls == "A" and ref is src:
                    # known (F81): adapt() now gives the value itself, old_value is that same object: 'unchanged'
                    sig = "trait-history:stale-shadow:adapt-returns-value-itself"
                else:
                    sig = "trait-history:stale-adapted-slot:%s%d" % (cls, mode)
                what = "step %d: adapt(value, klass) now gives %s but the %s holds %s" % (
                    n, _show_h(pool, ref), "shadow x_" if cls == "A" else "trait x", _show_h(pool, adapted))
            elif cls != "I" and orig is not src:
                sig = "trait-history:original-slot:%s%d" % (cls, mode)
                what = "step %d: the original value is not in the other slot (%s)" % (n, _show_h(pool, orig))
        if sig:
            hits.append(_hit(sig, what, query=q, step=n))
    L.CUR_STEP[0] = None
    return " / ".join(outs), hits


def _oracle_trait_chain(cls0, cls, mode, q, src, src_type, target, info, ctx, exc, x, x_, trait_log, deterministic, tags):
    """adapt='yes': the assignment succeeds iff the value is an instance or some valid chain has factories that all
    succeed; adapt='default': it always succeeds and gives the trait default iff there is none.  Existence is decided
    by brute-force enumeration of the chains, independently of AdaptationManager and of the model; whether the
    adapter is truthy plays no role."""
    hits = []
    if src is None or mode == 0 or not deterministic or any(r == "!" for _, r, _ in trait_log):
        return hits
    if isinstance(src, target):
        exists, how = True, "the value is an instance"
    else:
        try:
            chains = L.enum_chains(src_type, target, info, limit=20000)
        except L.TooBig:
            tags.add("oracle-too-big")
            return hits
        good = [c for c in chains if L.chain_succeeds(c, info, ctx.bykey, False)]
        exists, how = bool(good), "a chain exists (%s)" % (list(good[0]) if good else None)
    adapted = x_ if cls == "A" else x
    got_default = exc is None and isinstance(adapted, L.Default)
    accepted = exc is None and not got_default
    falsy = accepted and isinstance(adapted, L.ADS) and not _truth(adapted)
    tags.add("t-chain-oracle:%s" % ("exists" if exists else "none"))
    if exists and not accepted:
        hits.append(_hit("trait-rejects-although-chain-exists:%s%d" % (cls0, mode),
                         "%s but the assignment %s" % (how, "gave the trait default" if got_default else
                                                       "raised %s" % exc_name(exc)), query=q))
    elif not exists and accepted:
        hits.append(_hit("trait-accepts-without-chain:%s%d" % (cls0, mode),
                         "no successful chain and not an instance, but the assignment stored %r" % (type(adapted).__name__,),
                         query=q))
    elif not exists and mode == 1 and (exc is None or exc_name(exc) != "TraitError"):
        hits.append(_hit("trait-no-chain-not-TraitError:%s%d" % (cls0, mode), "got %s" % (exc,), query=q))
    if falsy:
        tags.add("t-chain-oracle:falsy-adapter-accepted")
    return hits


def _classify_t(ctx, src, r):
    return _show_obj(ctx, src, r)


def _oracle_adapt(kind, q, hier, src, src_type, target, info, ctx, obs, deterministic, collide, tags):
    """The property statement, evaluated on what the real code did."""
    hits = []
    provides = issubclass(src_type, target)
    raised_in_factory = any(r == "!" for _, r, _ in ctx.log)
    if provides:
        tags.add("identity")
        want = "yes" if kind == "s" else "self"
        if obs != want or ctx.log:
            sig = "identity:none-adaptee" if src is None else "identity:not-returned-unchanged"
            hits.append(_hit(sig, "adaptee already provides the protocol but %s gave %s (factory calls: %d)" % (
                {"a": "adapt", "d": "adapt(default)", "s": "supports_protocol"}[kind], obs, len(ctx.log)), query=q))
        return hits
    try:
        chains = L.enum_chains(src_type, target, info, limit=20000)
    except L.TooBig:
        tags.add("oracle-too-big")
        return hits
    if raised_in_factory:
        tags.add("factory-raised")
        if obs != "err ValueError":
            hits.append(_hit("factory-exception-swallowed", "a factory raised but adapt gave %s" % obs, query=q))
        return hits
    good = [c for c in chains if L.chain_succeeds(c, info, ctx.bykey, src is None)] if deterministic else None
    if good:
        if len(set(len(c) for c in good)) > 1:
            tags.add("minimality:several-lengths")
        ones = [c for c in good if len(c) == 1]
        if len(ones) > 1:
            tags.add("specificity:choice")
            fs = [info[c[0]][0] for c in ones]
            if any(a is not b and issubclass(a, b) for a in fs for b in fs):
                tags.add("specificity:related-protocols")
    if deterministic and chains and not good:
        tags.add("completeness:all-chains-refused")
    sfx = ""
    if obs.startswith("chain") or obs in ("yes", "self"):
        tags.add("found")
        walk = ctx.last_walk()
        tags.add("chain-len=%d" % len(walk))
        if len(ctx.log) > len(walk):
            tags.add("found-after-failed-walk")
        # soundness
        why = L.chain_valid(walk, src_type, target, info)
        if why is not None:
            hits.append(_hit("unsound-chain:" + why + sfx, "returned chain %s is not a valid chain: %s" % (list(walk), why),
                             query=q, chain=list(walk)))
        if obs != "yes":
            prov = tuple(i for i in walk if not info[i][2])
            shown = "chain " + ">".join("o%d" % i for i in prov) if prov else "self"
            if shown != obs:
                hits.append(_hit("unsound-chain:adapter-not-built-by-chain" + sfx,
                                 "returned adapter %s was not built by the last walk %s" % (obs, list(walk)), query=q))
        if deterministic and why is None:
            if walk not in good:
                hits.append(_hit("unsound-chain:factory-failed" + sfx, "returned chain's factories do not all succeed",
                                 query=q, chain=list(walk)))
            # minimality
            best = min(len(c) for c in good) if good else None
            if best is not None and len(walk) > best:
                hits.append(_hit("not-minimal" + sfx, "returned chain has %d adapters, a successful chain with %d exists" % (
                    len(walk), best), query=q, chain=list(walk), shorter=[list(c) for c in good if len(c) == best][:3]))
            # one-step specificity: a base type's offer must not beat a strict subclass's offer
            if len(walk) == 1:
                F = info[walk[0]][0]
                for c in good:
                    if len(c) == 1 and c != walk:
                        F2 = info[c[0]][0]
                        if F2 is not F and issubclass(F2, F) and not issubclass(F, F2):
                            from traits.adaptation.api import AdaptationManager as AM
                            d1 = AM.mro_distance_to_protocol(src_type, F)
                            d2 = AM.mro_distance_to_protocol(src_type, F2)
                            if d1 != d2:
                                sig = "specificity:base-preferred"
                            elif _weak_order_at(src_type, info):
                                # hypothesis of C17_specific_subclass_partial holds: the subclass must win
                                sig = "specificity:subclass-loses-under-weak-order"
                            else:
                                sig = "specificity:intransitive-comparison"
                            hits.append(_hit(sig + sfx, "offer o%d registered for %s was used although o%d registered for its "
                                             "strict subclass %s also adapts in one step (MRO distances %s / %s)" % (
                                                 walk[0], F.__name__, c[0], F2.__name__, d1, d2), query=q))
                            break
    else:
        tags.add("not-found")
        want = {"a": "err AdaptationError", "d": "default", "s": "no"}[kind]
        if obs != want:
            hits.append(_hit("default:wrong-failure-result", "no adapter: expected %s, got %s" % (want, obs), query=q))
        if deterministic and good:
            hits.append(_hit("incomplete" + sfx, "adapt found nothing but %d successful chain(s) exist, e.g. %s" % (
                len(good), list(good[0])), query=q))
    return hits


def _weak_order_at(src_type, info):
    """Is the comparison of _adapt (distance, then strict issubclass of from_protocols) a strict weak
    order on the offers applicable to src_type?  (`WeakOn` of the Lean development, on the real classes.)"""
    from traits.adaptation.api import AdaptationManager as AM
    es = []
    for i in sorted(info):
        F = info[i][0]
        d = AM.mro_distance_to_protocol(src_type, F)
        if d is not None and not any(d == d0 and F is F0 for d0, F0 in es):
            es.append((d, F))

    def lt(a, b):
        return a[0] < b[0] or (a[0] == b[0] and a[1] is not b[1] and issubclass(a[1], b[1]))
    for a in es:
        for b in es:
            if lt(a, b):
                if lt(b, a):
                    return False
                for c in es:
                    if not (lt(a, c) or lt(c, b)):
                        return False
    return True


def _oracle_trait(cls, mode, an, src, target, exc, x, x_, ref, ref_exc, trait_log, ctx):
    hits = []
    sig = "trait-differs:%s%d" % (cls, mode)

    def same(a, b):
        if a is b:
            return True
        return isinstance(a, L.ADS) and isinstance(b, L.ADS) and a.prov == b.prov
    if src is None:
        # None: accepted iff allow_none, in every mode (it is never tested against the class)
        accept = bool(an)
        ok = (exc is None) if accept else (exc is not None and exc_name(exc) == "TraitError")
        if not ok:
            hits.append(_hit(sig + ":none", "None with allow_none=%d: %s" % (an, exc)))
        return hits
    if mode == 0:
        inst = isinstance(src, target)
        if inst != (exc is None) or (exc is None and x is not src) or (exc is not None and exc_name(exc) != "TraitError"):
            hits.append(_hit(sig, "adapt='no' must be an isinstance check"))
        if trait_log:
            hits.append(_hit(sig + ":factory-called", "adapt='no' called a factory"))
        return hits
    if ref_exc is not None:
        if exc is None or type(exc) is not type(ref_exc):
            hits.append(_hit(sig, "adapt raised %s, assignment gave %s" % (exc_name(ref_exc), exc)))
        return hits
    if ref is not None:
        if exc is not None:
            hits.append(_hit(sig, "adapt succeeds but assignment raised %s" % exc_name(exc)))
            return hits
        adapted, orig = (x_, x) if cls == "A" else (x, x_)
        if not same(adapted, ref):
            hits.append(_hit(sig, "adapted value differs from adapt()'s result"))
        if cls != "I" and orig is not src:
            hits.append(_hit(sig, "the original value is not kept in the other slot"))
    else:
        if mode == 1:
            if exc is None or exc_name(exc) != "TraitError":
                hits.append(_hit(sig, "adapt fails, adapt='yes' must raise TraitError; got %s" % (exc,)))
        else:
            adapted = x_ if cls == "A" else x
            if exc is not None or not isinstance(adapted, L.Default):
                hits.append(_hit(sig, "adapt fails, adapt='default' must give the trait default"))
    return hits


def shrink(case, fails):
    """Keep one query, then drop offers and table entries while the hit persists."""
    if not case.startswith("A|"):
        return case
    f = case.split("|")

    def attempt(idx, sep):
        items = [x for x in f[idx].split(sep) if x.strip() and x.strip() != "-"]
        changed = True
        while changed and items:
            changed = False
            for i in range(len(items) - 1, -1, -1):
                cand = items[:i] + items[i + 1:]
                g = list(f)
                g[idx] = sep.join(cand) if cand else ("-" if idx != 6 else "")
                if g[idx] and fails("|".join(g)):
                    items = cand
                    f[idx] = g[idx]
                    changed = True
                elif not g[idx] and idx != 6 and fails("|".join(g[:idx] + ["-"] + g[idx + 1:])):
                    items = cand
                    f[idx] = "-"
                    changed = True
    attempt(6, ";")
    attempt(4, ";")
    attempt(5, ";")
    qs = f[6].split(";")
    if len(qs) == 1 and qs[0].split()[:1] == ["h"]:
        w = qs[0].split()
        head, steps = w[:6], w[6:]
        changed = True
        while changed and len(steps) > 1:
            changed = False
            for i in range(len(steps) - 1, -1, -1):
                cand = steps[:i] + steps[i + 1:]
                g = list(f)
                g[6] = " ".join(head + cand)
                if cand and fails("|".join(g)):
                    steps = cand
                    f[6] = g[6]
                    changed = True
    return "|".join(f)
